"""Core of the property-based checking framework (see DESIGN.md section 1).

A check module (checks/cXX.py) exposes

    PROPERTY     = "C01"
    RULE         = "how cases are generated and what makes one non-trivial"
    ASSUMPTIONS  = [...]
    SUBS         = [Sub(...), ...]
    def selftest(): ...      # oracle self test; raises -> harness error (exit 2)

A Sub couples a Hypothesis strategy that produces a JSON-serialisable *case dict* with a pure function
``run(case) -> Outcome``.  Every random choice lives in the case dict, so a replay is ``run(json.load(f))``
without Hypothesis.
"""
from __future__ import annotations

import hashlib
import json
import math
import os
import signal
import sys
import time
import traceback
from dataclasses import dataclass, field
from typing import Any, Callable, Dict, List, Optional

VERIF_ROOT = os.path.dirname(os.path.dirname(os.path.abspath(__file__)))
REPO_ROOT = os.environ.get("VERIF_REPO", "/repo")


# ----------------------------------------------------------------------------------------------------------------
# basic types
# ----------------------------------------------------------------------------------------------------------------
@dataclass
class Outcome:
    violations: List[tuple] = field(default_factory=list)   # [(signature, message)]
    nontrivial: bool = False
    classes: List[str] = field(default_factory=list)        # labels counted in the evidence
    info: Dict[str, Any] = field(default_factory=dict)      # free-form numbers (max steps reached, ...)

    def bad(self, signature: str, message: str = ""):
        self.violations.append((signature, str(message)[:600]))

    def cls(self, *labels: str):
        for l in labels:
            if l not in self.classes:
                self.classes.append(l)


@dataclass
class Sub:
    name: str
    strategy: Callable[[str], Any]          # tier -> hypothesis strategy yielding a case dict
    run: Callable[[dict], Outcome]
    examples: Dict[str, int]                # {"quick": n, "thorough": n}   (total over all shards)
    case_timeout: int = 120                 # seconds; a case that runs longer is counted, never a violation
    budget_s: Dict[str, float] = field(default_factory=lambda: {"quick": 60.0, "thorough": 600.0})
    fixed_cases: Callable[[], List[dict]] = None   # optional deterministic cases, dealt round robin to the shards and run first


class CaseTimeout(Exception):
    pass


class HarnessError(Exception):
    pass


def case_hash(case) -> str:
    return hashlib.sha1(json.dumps(case, sort_keys=True, default=_json_default).encode()).hexdigest()[:16]


def _json_default(o):
    try:
        import numpy as np
        if isinstance(o, np.integer):
            return int(o)
        if isinstance(o, np.floating):
            return float(o)
        if isinstance(o, np.bool_):
            return bool(o)
        if isinstance(o, np.ndarray):
            return o.tolist()
    except Exception:
        pass
    if isinstance(o, (set, frozenset, tuple)):
        return list(o)
    return repr(o)


def dumps(obj, **kw):
    return json.dumps(obj, default=_json_default, **kw)


# ----------------------------------------------------------------------------------------------------------------
# exception classification: library exception (a violation) vs harness exception (exit 2)
# ----------------------------------------------------------------------------------------------------------------
def classify_exception(exc: BaseException):
    """Return ('lib', signature_fragment, text) if the innermost sparseSpACE frame exists, else ('harness', ...)."""
    tb = traceback.extract_tb(exc.__traceback__)
    lib_frames = [fr for fr in tb if "/sparseSpACE/" in fr.filename.replace("\\", "/")
                  and "/verif/" not in fr.filename]
    text = "".join(traceback.format_exception(type(exc), exc, exc.__traceback__))[-1500:]
    if lib_frames:
        fr = lib_frames[-1]
        frag = "%s@%s:%s" % (type(exc).__name__, os.path.basename(fr.filename), fr.name)
        return "lib", frag, text
    return "harness", type(exc).__name__, text


def guarded(sub_name: str, out: Outcome, fn: Callable, *a, **kw):
    """Run fn; a library exception becomes a violation '<sub>/exception/<Type>@<file>:<func>'."""
    try:
        return fn(*a, **kw)
    except (CaseTimeout, HarnessError, KeyboardInterrupt):
        raise
    except Exception as e:  # noqa
        kind, frag, text = classify_exception(e)
        if kind == "lib":
            out.bad("%s/exception/%s" % (sub_name, frag), "%s: %s\n%s" % (type(e).__name__, e, text[-700:]))
            return None
        raise


# ----------------------------------------------------------------------------------------------------------------
# known findings
# ----------------------------------------------------------------------------------------------------------------
def load_known(prop: str):
    paths = [os.path.join(VERIF_ROOT, "known_findings.json")]
    ddir = os.path.join(VERIF_ROOT, "known_findings.d")      # development staging area, merged before commit
    if os.path.isdir(ddir):
        paths += [os.path.join(ddir, f) for f in sorted(os.listdir(ddir)) if f.endswith(".json")]
    res = []
    for path in paths:
        if not os.path.exists(path):
            continue
        with open(path) as f:
            data = json.load(f)
        res += [e for e in data.get("findings", []) if e.get("property") == prop and e.get("status") == "known"]
    return res


def match_known(sig: str, known) -> Optional[dict]:
    for e in known:
        for pat in e.get("signatures", []):
            if sig == pat:
                return e
    return None


# ----------------------------------------------------------------------------------------------------------------
# environment helpers
# ----------------------------------------------------------------------------------------------------------------
def enter_workdir(prop: str, shard: int) -> str:
    d = os.path.join(VERIF_ROOT, ".work", prop, "s%02d" % shard)
    os.makedirs(d, exist_ok=True)
    os.chdir(d)
    return d


def setup_env():
    os.environ.setdefault("MPLBACKEND", "Agg")
    os.environ.setdefault("OMP_NUM_THREADS", "1")
    os.environ.setdefault("OPENBLAS_NUM_THREADS", "1")
    os.environ.setdefault("MKL_NUM_THREADS", "1")
    if REPO_ROOT not in sys.path:
        sys.path.insert(0, REPO_ROOT)
    if VERIF_ROOT not in sys.path:
        sys.path.insert(0, VERIF_ROOT)


def _alarm_handler(signum, frame):
    raise CaseTimeout()


def run_case_guarded(sub: Sub, case: dict) -> Outcome:
    """Run one case with a timeout; library exceptions escaping run() become violations."""
    import numpy as np
    import random
    seed = int(case.get("rng", 0)) if isinstance(case, dict) else 0
    np.random.seed(seed % (2 ** 32))
    random.seed(seed)
    old = signal.signal(signal.SIGALRM, _alarm_handler)
    signal.alarm(int(sub.case_timeout))
    try:
        out = Outcome()
        try:
            res = sub.run(case)
            if res is not None:
                out = res
        except (CaseTimeout, HarnessError):
            raise
        except Exception as e:  # noqa
            kind, frag, text = classify_exception(e)
            if kind == "lib":
                out.bad("%s/exception/%s" % (sub.name, frag), "%s: %s\n%s" % (type(e).__name__, e, text[-700:]))
            else:
                raise HarnessError("harness exception in %s: %s" % (sub.name, text))
        return out
    finally:
        signal.alarm(0)
        signal.signal(signal.SIGALRM, old)


# ----------------------------------------------------------------------------------------------------------------
# shard worker: collect-then-shrink loop around Hypothesis
# ----------------------------------------------------------------------------------------------------------------
def run_sub_in_shard(prop: str, sub: Sub, tier: str, seed: int, shard: int, nshards: int, known) -> dict:
    import hypothesis
    from hypothesis import given, settings, HealthCheck, Phase

    total = sub.examples.get(tier, sub.examples.get("quick", 50))
    n = max(1, math.ceil(total / nshards))
    budget = float(sub.budget_s.get(tier, 60.0))
    t0 = time.time()

    stats = dict(sub=sub.name, evaluations=0, nontrivial_hashes=[], classes={}, samples=[], timeouts=0,
                 skipped_budget=0, excluded=0, known_hits={}, found=[], info_max={}, harness_error=None)
    nt_seen = set()
    cache: Dict[str, Outcome] = {}
    excluded_sigs = set()      # signatures already recorded in this shard (search continues behind them)
    state = dict(target=None, shrink_deadline=None, last_fail=None)

    def record(case, out: Outcome, count=True):
        h = case_hash(case)
        if count:
            stats["evaluations"] += 1
            for c in out.classes:
                stats["classes"][c] = stats["classes"].get(c, 0) + 1
            for k, v in out.info.items():
                if isinstance(v, (int, float)):
                    stats["info_max"][k] = max(stats["info_max"].get(k, v), v)
            if out.nontrivial and h not in nt_seen:
                nt_seen.add(h)
                if len(stats["samples"]) < 3:
                    stats["samples"].append(case)
        return h

    def evaluate(case):
        """returns list of new (non-known, non-excluded) signatures"""
        h = case_hash(case)
        if h in cache:
            out = cache[h]
            fresh = False
        else:
            if state["target"] is not None and state["shrink_deadline"] and time.time() > state["shrink_deadline"]:
                return []          # shrink budget used up: pretend smaller candidates pass
            if state["target"] is None and time.time() - t0 > budget:
                stats["skipped_budget"] += 1
                return []
            try:
                out = run_case_guarded(sub, case)
            except CaseTimeout:
                stats["timeouts"] += 1
                return []
            fresh = True
            if len(cache) < 20000:
                cache[h] = out
        if fresh:
            record(case, out)
        new = []
        for sig, msg in out.violations:
            e = match_known(sig, known)
            if e is not None:
                if fresh:
                    k = stats["known_hits"].setdefault(e["id"], dict(count=0, example=None, message=msg))
                    k["count"] += 1
                    if k["example"] is None:
                        k["example"] = case
                continue
            if sig in excluded_sigs:
                if fresh:
                    stats["excluded"] += 1
                continue
            new.append((sig, msg))
        return new

    # deterministic cases first
    fixed_failures = []
    if sub.fixed_cases is not None:
        # deterministic cases, dealt round robin to the shards (every one of them runs in every run of the sub)
        for case in list(sub.fixed_cases())[shard::nshards]:
            new = evaluate(case)
            for sig, msg in new:
                fixed_failures.append((sig, msg, case))
    for sig, msg, case in fixed_failures:
        if sig not in excluded_sigs:
            excluded_sigs.add(sig)
            stats["found"].append(dict(signature=sig, message=msg, case=case, shrunk=False))

    strategy = sub.strategy(tier)
    remaining = n
    rounds = 0
    shrink_cap = 45.0 if tier == "quick" else 240.0
    while remaining > 0 and rounds < 6 and time.time() - t0 <= budget:
        rounds += 1
        state.update(target=None, shrink_deadline=None, last_fail=None)
        before = stats["evaluations"]

        @hypothesis.seed(seed * 1000 + shard * 7 + rounds)
        @settings(max_examples=remaining, deadline=None, database=None, derandomize=False,
                  report_multiple_bugs=False, suppress_health_check=list(HealthCheck),
                  phases=[Phase.generate, Phase.shrink], print_blob=False, verbosity=hypothesis.Verbosity.quiet)
        @given(case=strategy)
        def test(case):
            new = evaluate(case)
            if not new:
                return
            if state["target"] is None:
                state["target"] = new[0][0]
                state["shrink_deadline"] = time.time() + shrink_cap
            hit = [x for x in new if x[0] == state["target"]]
            if hit:
                state["last_fail"] = (hit[0][0], hit[0][1], case)
                raise AssertionError(hit[0][0])

        try:
            test()
        except AssertionError:
            sig, msg, case = state["last_fail"]
            excluded_sigs.add(sig)
            stats["found"].append(dict(signature=sig, message=msg, case=case, shrunk=True))
        except HarnessError as e:
            stats["harness_error"] = str(e)[-3000:]
            break
        except hypothesis.errors.Unsatisfiable as e:
            stats["harness_error"] = "Unsatisfiable: %s" % e
            break
        except Exception as e:  # hypothesis internal / flaky errors are harness problems
            if state["last_fail"] is not None:
                sig, msg, case = state["last_fail"]
                excluded_sigs.add(sig)
                stats["found"].append(dict(signature=sig, message=msg, case=case, shrunk=False))
            else:
                stats["harness_error"] = "".join(traceback.format_exception(type(e), e, e.__traceback__))[-3000:]
                break
        else:
            remaining = 0
            break
        used = stats["evaluations"] - before
        remaining = max(0, remaining - max(1, used))

    stats["nontrivial_hashes"] = sorted(nt_seen)
    stats["wall_s"] = time.time() - t0
    return stats


def shard_main(prop: str, tier: str, seed: int, shard: int, nshards: int, outfile: str, only_sub: str = None):
    setup_env()
    d = os.path.join(os.path.dirname(os.path.abspath(outfile)), "s%02d" % shard)   # scratch cwd private to this run
    os.makedirs(d, exist_ok=True)
    os.chdir(d)
    import importlib
    result = dict(property=prop, shard=shard, subs=[], harness_error=None)
    try:
        mod = importlib.import_module("checks.%s" % prop.lower())
        known = load_known(prop)
        if shard == 0 and hasattr(mod, "selftest"):
            mod.selftest()
        for sub in mod.SUBS:
            if only_sub and sub.name != only_sub:
                continue
            st = run_sub_in_shard(prop, sub, tier, seed, shard, nshards, known)
            result["subs"].append(st)
            if st["harness_error"]:
                result["harness_error"] = "%s: %s" % (sub.name, st["harness_error"])
    except Exception as e:  # noqa
        result["harness_error"] = "".join(traceback.format_exception(type(e), e, e.__traceback__))[-4000:]
    with open(outfile, "w") as f:
        f.write(dumps(result))
