"""Driving the adaptive strategies from a case dict: scripted refinement decisions, builders, observers.

The refinement decisions are injected through the library's public extension point (`errorOperator`):
`TapeErr.calc_error` returns the next value of a decision tape stored in the case dict (consumed cyclically),
so a history is a pure function of the case dict and shrinks as a plain list.
"""
from __future__ import annotations

import contextlib
import io
import math

import numpy as np
from hypothesis import strategies as st

Q = 100          # print_level / log_level that silences the library (print_levels.NONE == 0 prints everything)

A_CHOICES = [0.0, -1.0, 2.0, 0.3]
W_CHOICES = [1.0, 3.0, 0.5, 0.7]


@contextlib.contextmanager
def quiet():
    buf = io.StringIO()
    with contextlib.redirect_stdout(buf):
        yield buf


def tape_value(t: int, mode: int) -> float:
    if mode == 0:
        return [0.0, 0.0, 1.0, 0.5, 0.95][t % 5]
    if mode == 1:
        return (t % 64 / 63.0) ** 4
    if mode == 2:
        return 1.0 if t % 10 == 0 else 0.0
    if mode == 3:                       # ties at and just below the threshold
        return [1.0, 0.9, 0.9 - 1e-12, 0.5, 0.0, 1.0, 0.45][t % 7]
    return 0.0                          # mode 4: all zero -> everything is refined (uniform refinement)


def make_tape_err(tape, mode, box=None):
    from sparseSpACE.ErrorCalculator import ErrorCalculator

    class TapeErr(ErrorCalculator):
        def __init__(self):
            super().__init__(log_level=Q, print_level=Q)
            self.tape = list(tape) or [0]
            self.mode = mode
            self.pos = 0

        def calc_error(self, obj, norm, volume_weights=None):
            t = self.tape[self.pos % len(self.tape)]
            self.pos += 1
            if self.mode == 7 and hasattr(obj, "this_dim"):
                # lopsided selections: per step and dimension everything on one side of a cut point plus (most of) the
                # deepest intervals -> thin deep side + broad side, the shape that makes rebalancing rotate a fresh split
                if obj.this_dim == 0 and obj.start == obj.a:
                    self.step = getattr(self, "step", -1) + 1
                st_ = getattr(self, "step", 0)
                L = len(self.tape)
                d = obj.this_dim
                cut = obj.a + (obj.b - obj.a) * ((self.tape[(st_ + d) % L] % 64) + 0.5) / 64.0
                left = self.tape[(st_ + d + 1) % L] % 2 == 0
                side = (obj.end <= cut) if left else (obj.start >= cut)
                if self.tape[(st_ + 2 * d + 2) % L] % 4 == 0:
                    side = False                  # some steps / dimensions refine only the deepest intervals
                deepest = obj.coarsening_level == 0 and t % 3 != 0
                return 1.0 if (side or deepest) else 0.0
            if self.mode == 8 and hasattr(obj, "this_dim"):
                # one dimension per step: only the intervals of the step's active dimension get (tie-rich) tape values, all
                # others 0 - steps that leave whole dimensions untouched (deferred rebalancing rotations, stale per-dimension
                # bookkeeping); tape value 2 of a 2-d case means "no restriction in this step"
                if obj.this_dim == 0 and obj.start == obj.a:
                    self.step = getattr(self, "step", -1) + 1
                active = self.tape[(getattr(self, "step", 0) // 2) % len(self.tape)] % 3      # two steps per draw
                if obj.this_dim != active and not (active == 2 and obj.this_dim < 2 and getattr(self, "step", 0) % 2):
                    return 0.0
                if self.tape[0] % 3 != 0:        # (most of) the deepest intervals of the active dimension: both children of an earlier split
                    return 1.0 if (obj.coarsening_level == 0 and t % 4 != 0) else 0.0
                return float([1.0, 0.95, 0.0, 1.0, 0.5][t % 5])
            if self.mode == 9 and hasattr(obj, "this_dim"):
                # exactly one interval of one dimension per step (the one containing a drawn position): strongly anisotropic
                # level differences between the dimensions, lagging dimensions raised late; a drawn dimension the case does
                # not have gives an all-zero step (everything is refined)
                if obj.this_dim == 0 and obj.start == obj.a:
                    self.step = getattr(self, "step", -1) + 1
                st_ = getattr(self, "step", 0)
                L = len(self.tape)
                d = [0, 1, 1, 0, 2, 0, 1][self.tape[st_ % L] % 7]
                if self.tape[0] % 2 and st_ % 4 < 2:
                    d = self.tape[(st_ // 4) % L] % 2          # runs of two steps in the same dimension
                x = obj.a + (obj.b - obj.a) * ([0.1, 0.6, 0.9, 0.3][self.tape[(st_ + 1) % L] % 4] if self.tape[0] % 3 else 0.1)
                return 1.0 if (obj.this_dim == d and obj.start <= x < obj.end) else 0.0
            if self.mode == 10:
                # two refinement fronts of different depth: the object containing target A gets a benefit that decays with
                # every generation of the A chain (1, q, q^2, ...), the object containing target B a constant one, all others
                # 0.  A is refined alone until its benefit has fallen to within the margin of B's; from then on a deep
                # (coarsening 0, lmax-raising) and a shallow object are refined in the same step, the older one first
                L = len(self.tape)

                def fr(i):
                    return (self.tape[i % L] % 64 + 0.37) / 64.0
                q = [0.85, 0.7, 0.95, 0.5][self.tape[0] % 4]
                cB = [0.6, 0.4, 0.8, 0.25][self.tape[(1 if L > 1 else 0)] % 4]
                if hasattr(obj, "this_dim"):
                    d = obj.this_dim
                    inA = obj.start <= obj.a + (obj.b - obj.a) * fr(2 + d) < obj.end
                    inB = obj.start <= obj.a + (obj.b - obj.a) * fr(5 + d) < obj.end
                    key = d
                else:
                    nd = len(obj.start)
                    A, B = box if box is not None else (obj.a, obj.b)
                    inA = all(obj.start[d] <= A[d] + (B[d] - A[d]) * fr(2 + d) < obj.end[d] for d in range(nd))
                    inB = all(obj.start[d] <= A[d] + (B[d] - A[d]) * fr(5 + d) < obj.end[d] for d in range(nd))
                    key = 0
                gen = getattr(self, "gen", None)
                if gen is None:
                    gen = self.gen = {}
                if inA:
                    n = gen.get(key, 0)
                    gen[key] = n + 1
                    val = q ** n
                elif inB:
                    val = cB
                else:
                    val = 0.0
                # extend-split divides the error by the number of evaluations of the area to get the benefit
                ev = getattr(obj, "evaluations", 0)
                return float(val * (ev if (not hasattr(obj, "this_dim") and ev) else 1.0))
            if self.mode in (5, 6):
                # refinement directed at one target point (strongly graded trees, rebalancing rotations);
                # mode 6 adds low background noise from the tape
                def frac(d):
                    return (self.tape[d % len(self.tape)] % 64 + 0.37) / 64.0
                if hasattr(obj, "this_dim"):
                    d = obj.this_dim
                    x = obj.a + (obj.b - obj.a) * frac(d)
                    inside = obj.start <= x < obj.end
                else:
                    inside = all(obj.start[d] <= obj.a[d] + (obj.b[d] - obj.a[d]) * frac(d) < obj.end[d]
                                 for d in range(len(obj.start))) if hasattr(obj, "a") else (t % 3 == 0)
                if inside:
                    return 1.0
                return 0.0 if self.mode == 5 else 0.3 * tape_value(t, 1)
            return float(tape_value(t, self.mode))

    return TapeErr()


# ------------------------------------------------------------------------------------------------------------
# strategies for the shared part of a case dict
# ------------------------------------------------------------------------------------------------------------
def st_box(draw, dim):
    a = [draw(st.sampled_from(A_CHOICES)) for _ in range(dim)]
    b = [a[d] + draw(st.sampled_from(W_CHOICES)) for d in range(dim)]
    return a, b


SCALES = [2.0 ** -30, 1e-9, 1e-6, 1e-3, 1e3, 2.0 ** 20]


def st_boxscale(draw, dim, share=3):
    """None (2 of `share` cases... the box stays as drawn) or one factor per dimension: the same problem in other units"""
    if draw(st.integers(0, share - 1)) != 0:
        return None
    if draw(st.booleans()):
        s = draw(st.sampled_from(SCALES))
        return [s] * dim
    return [draw(st.sampled_from(SCALES + [1.0])) for _ in range(dim)]


def apply_boxscale(case, scale):
    """multiplies the box of a case by `scale` (per dimension) and records it; integrands made by scaled_function see the
    unscaled coordinates, so values and decisions are those of the unit-scale problem and integrals scale with the volume"""
    if scale is not None:
        case["a"] = [float(x) * s for x, s in zip(case["a"], scale)]
        case["b"] = [float(x) * s for x, s in zip(case["b"], scale)]
        case["boxscale"] = [float(s) for s in scale]
    return case


def unscaled_box(case):
    s = case.get("boxscale")
    if not s:
        return list(case["a"]), list(case["b"])
    return [x / t for x, t in zip(case["a"], s)], [x / t for x, t in zip(case["b"], s)]


def scaled_function(g, case):
    s = case.get("boxscale")
    if not s:
        return g
    return lambda x: g([float(x[d]) / s[d] for d in range(len(s))])


def box_volume(case):
    v = 1.0
    for x, y in zip(case["a"], case["b"]):
        v *= abs(float(y) - float(x))
    return v


def scale_class(case):
    s = case.get("boxscale")
    if not s:
        return "box-scale=unit"
    v = box_volume(case) ** (1.0 / len(s))
    return "box-scale:mean-width%s" % ("<1e-4" if v < 1e-4 else (">1e2" if v > 1e2 else "-moderate")) + ("" if len(set(s)) == 1 else "/anisotropic")


def st_tape(draw, maxlen=48):
    mode = draw(st.sampled_from([0, 0, 0, 1, 1, 2, 2, 3, 4, 5, 5, 6, 7, 7, 7, 8, 8, 8, 9, 9, 9, 10, 10, 10]))
    tape = draw(st.lists(st.integers(0, 63), min_size=1, max_size=maxlen))
    return tape, mode


@st.composite
def st_dw_case(draw, tier="quick", versions=(6, 6, 6, 2, 3, 7, 8), maxdim=3, lmin_max=2, maxev_hi=None, margins=(0.9, 0.5, 1.0, 0.0),
               safeties=(0.1, 0.0, 0.5), scales=False, bounds_forms=False, fbt=False):
    dim = draw(st.integers(1, maxdim))
    lmin = draw(st.integers(1, lmin_max))
    lmax = lmin + draw(st.integers(1, 2))
    a, b = st_box(draw, dim)
    tape, mode = st_tape(draw)
    hi = maxev_hi or {1: 120, 2: 500, 3: 350}[dim]
    if tier == "thorough":
        hi = int(hi * 1.6)
    c = dict(kind="dw", dim=dim, lmin=lmin, lmax=lmax, a=a, b=b,
                version=draw(st.sampled_from(list(versions))),
                rebalancing=draw(st.booleans()), boundary=draw(st.booleans()),
                margin=draw(st.sampled_from(list(margins))), safety=draw(st.sampled_from(list(safeties))),
                maxev=draw(st.integers(hi // 3, hi)), maxsteps=draw(st.sampled_from([1, 2, 3, 5, 8, 12, 16, 20, 25, 25])), tape=tape, mode=mode,
                fseed=draw(st.integers(0, 10 ** 6)),
                legs=draw(st.one_of(st.none(), st.none(), st.lists(st.sampled_from([1, 1, 5, 20, 60]), min_size=1, max_size=6))),
                rerun=draw(st.one_of(st.none(), st.none(), st.none(), st.sampled_from([[1, 2], [1, 3], [2, 3], [2, 4]]))))
    if mode == 8:
        # the one-dimension-per-step histories are about rotations deferred to a later step: keep the options in the range
        # where rotations happen at all (measured: margin 0, safety factor 0.5 and histories of <= 3 steps never rotate)
        c["rebalancing"] = draw(st.sampled_from([True, True, True, False]))
        c["maxsteps"] = draw(st.sampled_from([5, 8, 12, 16]))
        c["margin"] = draw(st.sampled_from([m for m in margins if m > 0] or list(margins)))
        c["safety"] = draw(st.sampled_from([x for x in safeties if x < 0.5] or list(safeties)))
        c["maxev"] = hi
    if mode == 9:
        # single-interval steps change little per step: the interesting level differences need at least ~5 steps
        c["maxsteps"] = draw(st.sampled_from([5, 8, 8, 12]))
        c["maxev"] = hi
        if c["margin"] == 0:
            c["margin"] = 0.9
    c = apply_boxscale(c, st_boxscale(draw, dim) if scales else None)
    if bounds_forms and not c.get("boxscale"):
        c["bounds"] = st_bounds_form(draw, c)
    if fbt and draw(st.integers(0, 5)) == 0:
        # constructor option force_balanced_refinement_tree (siblings added to the component grids); its callers (the
        # extrapolation notebooks) use it with boundary points and rebalancing switched off, and without boundary points
        # the library's own assertion in find_missing_point fires after one refinement step (d=1, lmin 1, lmax 2)
        # Refinement decisions come from the library's own estimator there: it rates the two intervals next to a point
        # together, whereas an arbitrary errorOperator can refine a single interval next to the domain border, after which
        # find_missing_point runs into its "should never happen" assertion (observed; the option is not made for that).
        c["fbt"] = True
        c["boundary"] = True
        c["rebalancing"] = False
        c["estimator"] = "library"
        c["maxsteps"] = draw(st.sampled_from([8, 12, 16, 25]))
    return c


@st.composite
def st_es_case(draw, tier="quick", versions=(0, 1, 2), boundary_choices=(True, True, True, False), scales=False, dim4=False,
               bounds_forms=False):
    dim = draw(st.integers(2, 3))
    if dim4 and draw(st.integers(0, 7)) == 0:
        dim = 4         # few, short histories: code paths that differ only for d >= 4 (ties among >= 4 level entries)
    lmax = draw(st.integers(2, 4 if dim == 2 else 3))
    a, b = st_box(draw, dim)
    tape, mode = st_tape(draw)
    hi = {2: 1500, 3: 1200, 4: 6000}[dim]
    if tier == "thorough":
        hi = int(hi * 1.6)
    boundary = draw(st.sampled_from(list(boundary_choices)))
    # the automatic extend/split decision compares point counts of an area and its parents; without boundary points these
    # counts can be zero and the library's own assertions in set_extend_benefit/set_split_benefit fire (3D, version 2,
    # seen in the thorough tier). The properties do not quantify over boundary=False for extend-split, so the automatic
    # decision is generated with boundary points only.
    auto = draw(st.booleans()) and boundary
    c = dict(kind="es", dim=dim, lmin=1, lmax=lmax, a=a, b=b, version=draw(st.sampled_from(list(versions))),
                nref=draw(st.integers(0, 3)), boundary=boundary,
                auto=auto, ssd=draw(st.booleans()),
                estimator=draw(st.sampled_from(["tape", "tape", "library"])),
                maxev=draw(st.integers(hi // 3, hi)), maxsteps=draw(st.sampled_from([2, 3, 4, 5, 6, 8, 12, 16])), tape=tape, mode=mode,
                fseed=draw(st.integers(0, 10 ** 6)),
                legs=draw(st.one_of(st.none(), st.none(), st.lists(st.sampled_from([1, 1, 5, 20, 60]), min_size=1, max_size=6))),
                rerun=draw(st.one_of(st.none(), st.none(), st.none(), st.sampled_from([[1, 2], [1, 3]]))))
    if dim == 4:
        c.update(lmax=draw(st.sampled_from([3, 3, 2])), maxsteps=draw(st.sampled_from([1, 2, 2, 3])), maxev=hi, legs=None, rerun=None,
                 nref=draw(st.integers(0, 1)))
    c = apply_boxscale(c, st_boxscale(draw, dim) if scales else None)
    if bounds_forms and not c.get("boxscale"):
        c["bounds"] = st_bounds_form(draw, c)
    return c


# ------------------------------------------------------------------------------------------------------------
# integrands
# ------------------------------------------------------------------------------------------------------------
def driver_function(dim, fseed):
    """An arbitrary, nowhere accidentally exact refinement-driving function (deterministic in fseed)."""
    rng = np.random.default_rng(fseed)
    w = rng.uniform(0.5, 3.0, dim)
    c = rng.uniform(-1, 1, 3)
    kink = rng.uniform(0.2, 0.8)
    if fseed % 3 == 0 and dim >= 2:
        # every third function is symmetric in its arguments: error indicators of different dimensions tie, so that
        # single-dimension splitting splits in several dimensions at once
        w0 = float(w[0])

        def fsym(x):
            s = w0 * float(sum(x))
            p = 1.0
            for t in x:
                p *= t
            return math.sin(s) + c[0] * p + 1.5 + c[2] * math.exp(-s * s / 9.0) + c[1] * abs(sum(x) / len(x) - kink)
        return fsym

    def f(x):
        s = float(np.dot(w, x))
        return math.sin(s) + c[0] * x[0] * x[-1] + c[1] * abs(x[0] - kink) + 1.5 + c[2] * math.exp(-s * s / 9.0)
    if fseed % 3 == 1 and dim >= 2:
        # every third function is exactly linear on a part of the domain (x0 below a dyadic threshold that lies on area
        # boundaries) and curved elsewhere: error indicators / benefits that are exactly zero in some areas
        thr = [0.5, 0.25, 0.75][(fseed // 3) % 3]

        def fpl(x, a0=None):
            lin = 1.0 + float(np.dot(w, x))
            t = x[0]
            if t <= thr_abs[0]:
                return lin
            return lin + (t - thr_abs[0]) ** 2 * (2.0 + math.sin(float(np.dot(w, x))))
        thr_abs = [thr]
        fpl.set_box = lambda a, b: thr_abs.__setitem__(0, a[0] + (b[0] - a[0]) * thr)
        return fpl
    return f


def singular_on_boundary(g, a, b, mode):
    """g plus a term that is not finite on the boundary of the box [a,b] (mode 0: inf, 1: nan, 2: raises ZeroDivisionError)
    and smooth inside: a legitimate integrand whenever boundary points are switched off (that is what the option is for)"""
    a = [float(x) for x in a]
    b = [float(x) for x in b]

    def gs(x):
        w = 0.0
        for d in range(len(a)):
            t = (float(x[d]) - a[d]) / (b[d] - a[d])
            q = t * (1.0 - t)
            if q <= 0.0:
                if mode == 0:
                    return float("inf")
                if mode == 1:
                    return float("nan")
                return 1.0 / q if q != 0.0 else 1.0 / 0
            w += 0.05 / math.sqrt(q)
        return g(x) + w
    return gs


def case_function(case, offset=0, dim=None):
    """the refinement-driving function of a case: driver_function in the unscaled coordinates of the case's box"""
    a0, b0 = unscaled_box(case)
    return scaled_function(fit_to_box(driver_function(dim or case["dim"], case["fseed"] + offset), a0, b0), case)


def fit_to_box(g, a, b):
    """piecewise integrands place their kink relative to the box"""
    if hasattr(g, "set_box"):
        g.set_box(list(a), list(b))
    return g


def vector_function(components):
    """FunctionCustom with several scalar callables as output components."""
    from sparseSpACE.Function import FunctionCustom
    comps = list(components)

    def fun(x):
        return [float(g(x)) for g in comps]
    return FunctionCustom(fun, output_dim=len(comps))


# ------------------------------------------------------------------------------------------------------------
# builders
# ------------------------------------------------------------------------------------------------------------
def st_bounds_form(draw, c):
    """how the domain bounds are handed to the library: None = float64 arrays; integer-typed arrays ("int": both corners,
    "mixed": integer lower corner and float upper corner; the box of the case is snapped to integer corners for these) or
    plain Python lists ("list")"""
    if draw(st.integers(0, 2)) != 0:
        return None
    form = draw(st.sampled_from(["int", "mixed", "list", "int"]))
    if form in ("int", "mixed"):
        lo = [float(math.floor(x)) for x in c["a"]]
        c["b"] = [l + max(1.0, float(round(y - x))) for l, x, y in zip(lo, c["a"], c["b"])]
        c["a"] = lo
        if form == "mixed" and draw(st.booleans()):
            c["b"] = [y + 0.5 for y in c["b"]]
    return form


def case_bounds(case):
    form = case.get("bounds")
    if form in ("int", "mixed") and all(float(x) == int(x) for x in list(case["a"]) + (list(case["b"]) if form == "int" else [])):
        a = np.array([int(x) for x in case["a"]], dtype=int)
        b = np.array([int(x) for x in case["b"]], dtype=int) if form == "int" else np.array(case["b"], dtype=float)
        return a, b
    if form == "list":
        return [float(x) for x in case["a"]], [float(x) for x in case["b"]]
    return np.array(case["a"], dtype=float), np.array(case["b"], dtype=float)


def build_dw(case, f, reference=None, grid=None, **extra):
    from sparseSpACE.spatiallyAdaptiveSingleDimension2 import SpatiallyAdaptiveSingleDimensions2
    from sparseSpACE.GridOperation import Integration
    from sparseSpACE.Grid import GlobalTrapezoidalGrid
    a, b = case_bounds(case)
    if grid is None:
        grid = GlobalTrapezoidalGrid(a, b, boundary=case["boundary"], modified_basis=case.get("modified", False))
    op = Integration(f, grid=grid, dim=case["dim"], reference_solution=reference, print_level=Q, log_level=Q)
    sa = SpatiallyAdaptiveSingleDimensions2(a, b, operation=op, version=case["version"], rebalancing=case["rebalancing"],
                                            margin=case["margin"], rebalancing_safety_factor=case["safety"],
                                            print_level=Q, log_level=Q, **dict({} if case.get("dim_adaptive", True) else {"dim_adaptive": False},
                                                                               **dict({"force_balanced_refinement_tree": True} if case.get("fbt") else {}, **extra)))
    return sa, op


def build_es(case, f, reference=None, grid=None):
    from sparseSpACE.spatiallyAdaptiveExtendSplit import SpatiallyAdaptiveExtendScheme
    from sparseSpACE.GridOperation import Integration
    from sparseSpACE.Grid import TrapezoidalGrid
    a, b = case_bounds(case)
    if grid is None:
        grid = TrapezoidalGrid(a, b, boundary=case["boundary"])
    op = Integration(f, grid=grid, dim=case["dim"], reference_solution=reference, print_level=Q, log_level=Q)
    sa = SpatiallyAdaptiveExtendScheme(a, b, number_of_refinements_before_extend=case["nref"], version=case["version"],
                                       operation=op, automatic_extend_split=case["auto"], split_single_dim=case["ssd"])
    sa.log_util.set_print_level(Q)
    sa.log_util.set_log_level(Q)
    return sa, op


def error_operator(case):
    if case.get("estimator", "tape") == "library":
        if case["kind"] == "es":
            from sparseSpACE.ErrorCalculator import ErrorCalculatorExtendSplit
            return ErrorCalculatorExtendSplit()
        from sparseSpACE.ErrorCalculator import ErrorCalculatorSingleDimVolumeGuided
        return ErrorCalculatorSingleDimVolumeGuided()
    return make_tape_err(case["tape"], case["mode"], box=(case["a"], case["b"]) if ("a" in case and "b" in case) else None)


class StopHistory(Exception):
    """raised by an observer to end a history after the requested number of steps"""


class FakeClock:
    """A clock owned by the harness, put in place of the `time` module that sparseSpACE.spatiallyAdaptiveBase reads for its
    documented `max_time` stopping rule: every reading advances the clock by the next value of a tick tape (cyclic), so the
    moment at which the time budget runs out - before an evaluation, between evaluation and refinement, inside a refinement
    step - is a pure function of the case dict.  model "same": time() and perf_counter() share their origin; model "epoch":
    time() is ahead of perf_counter() by 1.7e9 s as on a real machine."""

    def __init__(self, ticks, model="same"):
        import time as _t
        self._real = _t
        self.ticks = [float(x) for x in ticks] or [1.0]
        self.pos = 0
        self.now = 0.0
        self.offset = 1.7e9 if model == "epoch" else 0.0
        self.readings = 0

    def _adv(self):
        self.now += self.ticks[self.pos % len(self.ticks)]
        self.pos += 1
        self.readings += 1
        return self.now

    def time(self):
        return self._adv() + self.offset

    def perf_counter(self):
        return self._adv()

    def process_time(self):
        return self._adv()

    def monotonic(self):
        return self._adv()

    def time_ns(self):
        return int((self._adv() + self.offset) * 1e9)

    def perf_counter_ns(self):
        return int(self._adv() * 1e9)

    def __getattr__(self, name):
        return getattr(self._real, name)


@contextlib.contextmanager
def harness_clock(clock):
    """installs a FakeClock as the `time` global of sparseSpACE.spatiallyAdaptiveBase for the duration of the block"""
    if clock is None:
        yield None
        return
    import sparseSpACE.spatiallyAdaptiveBase as sab
    old = sab.time
    fc = FakeClock(clock["ticks"], clock.get("model", "same"))
    sab.time = fc
    try:
        yield fc
    finally:
        sab.time = old


def run_history(sa, case, on_eval=None, before_refine=None, after_refine=None, clean_stop=False, tol=-1, **kw):
    """Runs performSpatiallyAdaptiv with tol=-1 until max_evaluations or maxsteps refinement steps.

    on_eval(k) is called after the k-th evaluate_operation (k = 0, 1, ...), before_refine(k)/after_refine(k) around
    the k-th refine().  Returns the library's result tuple, or None if the step limit ended the history.
    """
    state = dict(evals=0, refines=0)
    orig_eval = sa.evaluate_operation
    orig_refine = sa.refine

    def ev():
        r = orig_eval()
        if on_eval is not None:
            on_eval(state["evals"])
        state["evals"] += 1
        return r

    def rf():
        if state["refines"] >= case["maxsteps"]:
            raise StopHistory()
        if not clean_stop and state["refines"] >= 1 and sa.get_total_num_points() > case["maxev"]:
            raise StopHistory()         # point budget of the harness (at least one refinement step is always made)
        if before_refine is not None:
            before_refine(state["refines"])
        orig_refine()
        if after_refine is not None:
            after_refine(state["refines"])
        state["refines"] += 1

    sa.evaluate_operation = ev
    sa.refine = rf
    res = None
    legs = None if clean_stop else case.get("legs")
    clock = case.get("clock") if clean_stop else None
    if clock:
        kw = dict(kw, max_time=float(clock["max_time"]))
    try:
        with quiet(), harness_clock(clock) as fc:
            if fc is not None:
                state["clock"] = fc
            if legs:
                # the history is cut into several runs: the first one stops right after the initial evaluation, every
                # further leg is a continue_adaptive_refinement with a slightly larger point limit (run boundaries)
                res = sa.performSpatiallyAdaptiv(case["lmin"], case["lmax"], error_operator(case), tol=-1,
                                                 max_evaluations=0, print_output=False, **kw)
                for inc in list(legs) + [10 ** 9]:
                    res = sa.continue_adaptive_refinement(tol=-1, max_evaluations=sa.get_total_num_points() + int(inc))
            else:
                res = sa.performSpatiallyAdaptiv(case["lmin"], case["lmax"], error_operator(case), tol=tol,
                                                 max_evaluations=case["maxev"] if clean_stop else 10 ** 9,
                                                 print_output=False, **kw)
    except StopHistory:
        pass
    rerun = None if clean_stop else case.get("rerun")
    if rerun:
        # the same solver object is started again from scratch with another start configuration (a second
        # performSpatiallyAdaptiv); the observers keep running, so every invariant is evaluated on the second run as well
        state["refines"] = 0
        state["second_run"] = True
        try:
            with quiet():
                res = sa.performSpatiallyAdaptiv(int(rerun[0]), int(rerun[1]), error_operator(case), tol=-1,
                                                 max_evaluations=10 ** 9, print_output=False, **kw)
        except StopHistory:
            pass
    sa.evaluate_operation = orig_eval
    sa.refine = orig_refine
    return res, state


# ------------------------------------------------------------------------------------------------------------
# snapshots of dimension-wise structures
# ------------------------------------------------------------------------------------------------------------
def dw_objects(sa, d):
    return sa.refinement.get_refinement_container_for_dim(d).get_objects()


def dw_levels(sa, d):
    objs = dw_objects(sa, d)
    return [objs[0].levels[0]] + [o.levels[1] for o in objs]


def dw_points(sa, d):
    objs = dw_objects(sa, d)
    return [objs[0].start] + [o.end for o in objs]


# ------------------------------------------------------------------------------------------------------------
# extend-split helpers
# ------------------------------------------------------------------------------------------------------------
def es_boxes(sa):
    return {(tuple(float(x) for x in o.start), tuple(float(x) for x in o.end)): id(o) for o in sa.refinement.get_objects()}


def es_step_kinds(before, sa):
    """(number of areas extended, split, untouched) between a snapshot es_boxes() and the current state"""
    after = es_boxes(sa)
    ext = spl = same = 0
    for box, i in before.items():
        if box not in after:
            spl += 1
        elif after[box] != i:
            ext += 1
        else:
            same += 1
    return ext, spl, same
