"""CLI:  python -m vlib.run <Cxx> --tier quick|thorough [--replay FILE] [--shards N] [--sub NAME]

exit 0: property held on everything explored (KNOWN-FINDING lines allowed)
exit 1: 'VIOLATION property=<id> replay=<path>' for a violation that known_findings.json does not list
exit 2: harness error (never reported as a violation)
"""
from __future__ import annotations

import argparse
import json
import os
import shutil
import subprocess
import sys
import time

from . import core


def main(argv=None):
    ap = argparse.ArgumentParser()
    ap.add_argument("prop")
    ap.add_argument("--tier", default=os.environ.get("VERIF_TIER", "quick"), choices=["quick", "thorough"])
    ap.add_argument("--replay", default=None)
    ap.add_argument("--shards", type=int, default=int(os.environ.get("VERIF_SHARDS", "16")))
    ap.add_argument("--sub", default=None)
    ap.add_argument("--shard-worker", nargs=3, default=None, metavar=("SHARD", "NSHARDS", "OUT"))
    ap.add_argument("--no-evidence", action="store_true")
    args = ap.parse_args(argv)
    prop = args.prop.upper()
    seed = int(os.environ.get("VERIF_SEED", "1") or "1")

    if args.shard_worker:
        shard, nshards, out = args.shard_worker
        core.shard_main(prop, args.tier, seed, int(shard), int(nshards), out, args.sub)
        return 0
    if args.replay:
        return replay(prop, args.replay)
    return run(prop, args.tier, seed, args.shards, args.sub, not (args.no_evidence or os.environ.get("VERIF_NO_EVIDENCE")))


def replay(prop, path):
    core.setup_env()
    path = os.path.abspath(path)
    core.enter_workdir(prop, 99)
    import importlib
    mod = importlib.import_module("checks.%s" % prop.lower())
    with open(path) as f:
        rec = json.load(f)
    sub = [s for s in mod.SUBS if s.name == rec["sub"]][0]
    out = core.run_case_guarded(sub, rec["case"])
    known = core.load_known(prop)
    rc = 0
    for sig, msg in out.violations:
        e = core.match_known(sig, known)
        if e:
            print("KNOWN-FINDING: property=%s %s: %s" % (prop, e["id"], e["what"]))
        else:
            print("signature: %s\n  %s" % (sig, msg))
            rc = 1
    if rc:
        print("VIOLATION property=%s replay=%s" % (prop, path))
    else:
        print("replay: no unlisted violation (classes=%s nontrivial=%s)" % (out.classes, out.nontrivial))
    return rc


def run(prop, tier, seed, nshards, only_sub, write_evidence=True):
    t0 = time.time()
    env = dict(os.environ)
    env.update(PYTHONHASHSEED="0", MPLBACKEND="Agg", OMP_NUM_THREADS="1", OPENBLAS_NUM_THREADS="1",
               MKL_NUM_THREADS="1", VERIF_SEED=str(seed), PYTHONDONTWRITEBYTECODE="1")
    env["PYTHONPATH"] = os.pathsep.join([core.REPO_ROOT, core.VERIF_ROOT, env.get("PYTHONPATH", "")])
    work = os.path.join(core.VERIF_ROOT, ".work", "%s_%d" % (prop, os.getpid()))   # private to this run
    shutil.rmtree(work, ignore_errors=True)
    os.makedirs(work, exist_ok=True)
    procs = []
    for s in range(nshards):
        out = os.path.join(work, "shard%02d.json" % s)
        cmd = [sys.executable, "-m", "vlib.run", prop, "--tier", tier, "--shard-worker", str(s), str(nshards), out]
        if only_sub:
            cmd += ["--sub", only_sub]
        log = open(os.path.join(work, "shard%02d.log" % s), "w")
        procs.append((s, out, subprocess.Popen(cmd, cwd=core.VERIF_ROOT, env=env, stdout=log, stderr=subprocess.STDOUT), log))
    hard_limit = float(os.environ.get("VERIF_HARD_LIMIT", "900" if tier == "quick" else "7200"))
    results, harness_errors = [], []
    for s, out, p, log in procs:
        try:
            p.wait(timeout=max(1.0, hard_limit - (time.time() - t0)))
        except subprocess.TimeoutExpired:
            p.kill()
            harness_errors.append("shard %d exceeded the hard limit of %.0fs" % (s, hard_limit))
        log.close()
        if os.path.exists(out):
            with open(out) as f:
                results.append(json.load(f))
        else:
            tail = open(os.path.join(work, "shard%02d.log" % s)).read()[-2000:]
            harness_errors.append("shard %d produced no result (rc=%s): %s" % (s, p.returncode, tail))
    for r in results:
        if r.get("harness_error"):
            harness_errors.append("shard %d: %s" % (r["shard"], r["harness_error"]))

    import importlib
    core.setup_env()
    known = core.load_known(prop)
    # aggregate
    subs = {}
    nt_all = set()
    found = {}
    known_hits = {}
    total_eval = 0
    for r in results:
        for st in r["subs"]:
            a = subs.setdefault(st["sub"], dict(evaluations=0, distinct_nontrivial=set(), classes={}, samples=[],
                                                timeouts=0, skipped_budget=0, excluded_repeat_violations=0,
                                                info_max={}))
            a["evaluations"] += st["evaluations"]
            total_eval += st["evaluations"]
            for h in st["nontrivial_hashes"]:
                a["distinct_nontrivial"].add(h)
                nt_all.add(st["sub"] + ":" + h)
            for k, v in st["classes"].items():
                a["classes"][k] = a["classes"].get(k, 0) + v
            for k, v in st["info_max"].items():
                a["info_max"][k] = max(a["info_max"].get(k, v), v)
            if len(a["samples"]) < 2:
                a["samples"].extend(st["samples"][: 2 - len(a["samples"])])
            a["timeouts"] += st["timeouts"]
            a["skipped_budget"] += st["skipped_budget"]
            a["excluded_repeat_violations"] += st["excluded"]
            for f in st["found"]:
                cur = found.get(f["signature"])
                size = len(json.dumps(f["case"]))
                if cur is None or size < cur[0]:
                    found[f["signature"]] = (size, st["sub"], f)
            for kid, kh in st["known_hits"].items():
                k = known_hits.setdefault(kid, dict(count=0, example=None, sub=st["sub"]))
                k["count"] += kh["count"]
                if k["example"] is None:
                    k["example"] = kh["example"]

    rc = 0
    lines = []
    replay_dir = os.environ.get("VERIF_REPLAY_DIR", os.path.join(core.VERIF_ROOT, "replays"))
    os.makedirs(replay_dir, exist_ok=True)
    for sig, (_, subname, f) in sorted(found.items()):
        fn = "%s_%s.json" % (prop, "".join(c if c.isalnum() else "_" for c in sig)[:80])
        path = os.path.join(replay_dir, fn)
        with open(path, "w") as fh:
            fh.write(core.dumps(dict(property=prop, sub=subname, signature=sig, message=f["message"],
                                      case=f["case"], seed=seed, tier=tier), indent=1))
        lines.append("  signature=%s\n    %s" % (sig, f["message"].replace("\n", "\n    ")[:800]))
        lines.append("VIOLATION property=%s replay=%s" % (prop, path))
        rc = 1
    if os.environ.get("VERIF_EXPORT_KNOWN"):
        # maintenance aid: write one observed example per known finding to replays/known/<id>.json (committed by hand)
        kd = os.path.join(core.VERIF_ROOT, "replays", "known")
        os.makedirs(kd, exist_ok=True)
        for e in known:
            kh = known_hits.get(e["id"])
            if kh and kh["example"] is not None:
                with open(os.path.join(kd, "%s.json" % e["id"]), "w") as fh:
                    fh.write(core.dumps(dict(property=prop, sub=kh["sub"], finding=e["id"], case=kh["example"]), indent=1))
    for e in known:
        kh = known_hits.get(e["id"])
        seen = "observed in %d cases this run" % kh["count"] if kh else "not reached by this run's cases"
        lines.append("KNOWN-FINDING: property=%s %s: %s [%s]" % (prop, e["id"], e["what"], seen))

    samples = []
    for name, a in subs.items():
        for c in a["samples"]:
            samples.append(dict(sub=name, case=c))
    mod = importlib.import_module("checks.%s" % prop.lower()) if not harness_errors or results else None
    evidence = dict(
        property_id=prop, tier=tier, seed=seed, level="exploration",
        coverage=dict(
            evaluations=total_eval,
            distinct_nontrivial=len(nt_all),
            rule=getattr(mod, "RULE", "") if mod else "",
            samples=samples[:8],
            per_sub={k: dict(evaluations=v["evaluations"], distinct_nontrivial=len(v["distinct_nontrivial"]),
                             classes=v["classes"], timeouts=v["timeouts"], skipped_for_budget=v["skipped_budget"],
                             repeat_violations_excluded=v["excluded_repeat_violations"], reached_max=v["info_max"])
                     for k, v in subs.items()},
            known_findings_hit={k: v["count"] for k, v in known_hits.items()},
            shards=nshards,
            exhaustive=False,
        ),
        assumptions=list(getattr(mod, "ASSUMPTIONS", [])) if mod else [],
        wall_s=round(time.time() - t0, 2),
        violations=len(found),
    )
    if harness_errors:
        evidence["coverage"]["harness_errors"] = harness_errors[:5]
    if write_evidence and not only_sub:
        os.makedirs(os.path.join(core.VERIF_ROOT, "evidence"), exist_ok=True)
        with open(os.path.join(core.VERIF_ROOT, "evidence", "%s.json" % prop), "w") as fh:
            fh.write(core.dumps(evidence, indent=1))

    print("%s tier=%s seed=%d: %d cases, %d distinct non-trivial, %d unlisted violation signature(s), %.1fs" % (
        prop, tier, seed, total_eval, len(nt_all), len(found), time.time() - t0))
    for name, a in subs.items():
        print("  %-28s cases=%-6d nontrivial=%-6d timeouts=%d budget-skipped=%d classes=%s" % (
            name, a["evaluations"], len(a["distinct_nontrivial"]), a["timeouts"], a["skipped_budget"],
            dict(sorted(a["classes"].items()))))
        if a["info_max"]:
            print("  %-28s reached maxima: %s" % ("", a["info_max"]))
    for l in lines:
        print(l)
    if harness_errors:
        for h in harness_errors[:5]:
            print("HARNESS-ERROR: %s" % h, file=sys.stderr)
        if rc == 0:
            return 2
    shutil.rmtree(work, ignore_errors=True)
    return rc


if __name__ == "__main__":
    sys.exit(main())
