"""Reference models written from the definitions (independent of the library's code paths)."""
from __future__ import annotations

import itertools
import math

import numpy as np


# ------------------------------------------------------------------------------------------------------------
# hierarchical hat basis on [a,b]; 1D level 0 = the two boundary functions, level k>=1 = hats with odd index
# ------------------------------------------------------------------------------------------------------------
def hat1d(level: int, index: int, a: float, b: float, x: float) -> float:
    t = (x - a) / (b - a)
    if level == 0:
        return 1.0 - t if index == 0 else t
    h = 2.0 ** (-level)
    return max(0.0, 1.0 - abs(t - index * h) / h)


def hat1d_integral(level: int, index: int, a: float, b: float) -> float:
    if level == 0:
        return 0.5 * (b - a)
    return (b - a) * 2.0 ** (-level)


def in_sparse_space(levels, lmin: int, lmax: int) -> bool:
    """Is a hierarchical basis function with per-dimension levels `levels` in the truncated sparse-grid space of the
    index set {l >= lmin, |l - lmin|_1 <= lmax - lmin}?  (level 0/1.. below lmin count as lmin)"""
    return sum(max(k, lmin) - lmin for k in levels) <= lmax - lmin


def all_basis_functions(dim, lmin, lmax, boundary):
    """list of [(level, index)]*dim for every hierarchical basis function of the initial sparse-grid space"""
    per_dim = []
    for k in range(0 if boundary else 1, lmax + 1):
        if k == 0:
            per_dim.append([(0, 0), (0, 1)])
        else:
            per_dim.append([(k, i) for i in range(1, 2 ** k, 2)])
    res = []
    for lv in itertools.product(range(len(per_dim)), repeat=dim):
        levels = [per_dim[j][0][0] for j in lv]
        if not in_sparse_space(levels, lmin, lmax):
            continue
        for combo in itertools.product(*[per_dim[j] for j in lv]):
            res.append(list(combo))
    return res


def draw_basis_functions(rng, dim, lmin, lmax, boundary, count):
    """random sample of basis functions of the space, biased towards the deepest admissible levels"""
    res = []
    lo = 0 if boundary else 1
    for _ in range(count * 20):
        if len(res) >= count:
            break
        levels = [int(rng.integers(lo, lmax + 1)) for _ in range(dim)]
        if not in_sparse_space(levels, lmin, lmax):
            continue
        fn = []
        for k in levels:
            if k == 0:
                fn.append((0, int(rng.integers(0, 2))))
            else:
                fn.append((k, int(2 * rng.integers(0, 2 ** (k - 1)) + 1)))
        if fn not in res:
            res.append(fn)
    return res


def basis_eval(fn, a, b, x):
    v = 1.0
    for d, (k, i) in enumerate(fn):
        v *= hat1d(k, i, a[d], b[d], x[d])
        if v == 0.0:
            return 0.0
    return v


def basis_integral(fn, a, b):
    v = 1.0
    for d, (k, i) in enumerate(fn):
        v *= hat1d_integral(k, i, a[d], b[d])
    return v


def sparse_grid_points(dim, lmin, lmax, a, b, boundary):
    """the sparse grid of the truncated scheme as a set of index tuples ((level, index) per dim reduced to fractions)"""
    pts = set()
    for l in itertools.product(range(lmin, lmax + 1), repeat=dim):
        if sum(x - lmin for x in l) != lmax - lmin:
            continue
        axes = []
        for d in range(dim):
            n = 2 ** l[d]
            idx = range(0, n + 1) if boundary else range(1, n)
            axes.append([(i, n) for i in idx])
        for p in itertools.product(*axes):
            pts.add(tuple(_reduce(i, n) for i, n in p))
    return pts


def _reduce(i, n):
    g = math.gcd(i, n)
    return (i // g, n // g)


def frac_to_coord(fr, a, b):
    return tuple(a[d] + (b[d] - a[d]) * (i / n) for d, (i, n) in enumerate(fr))


# ------------------------------------------------------------------------------------------------------------
# multilinear functions sum_S c_S prod_{d in S} x_d and their integrals over a box
# ------------------------------------------------------------------------------------------------------------
def multilinear(cs, dim):
    cs = list(cs)

    def f(x):
        s = 0.0
        for i, c in enumerate(cs):
            t = c
            for d in range(dim):
                if (i >> d) & 1:
                    t *= x[d]
            s += t
        return s
    return f


def multilinear_integral(cs, a, b):
    dim = len(a)
    s = 0.0
    for i, c in enumerate(cs):
        t = c
        for d in range(dim):
            t *= (b[d] ** 2 - a[d] ** 2) / 2.0 if (i >> d) & 1 else (b[d] - a[d])
        s += t
    return s


# ------------------------------------------------------------------------------------------------------------
# piecewise-linear reference in 1D
# ------------------------------------------------------------------------------------------------------------
def trapezoid_weights(xs):
    xs = list(xs)
    w = [0.0] * len(xs)
    for i in range(len(xs) - 1):
        h = xs[i + 1] - xs[i]
        w[i] += h / 2
        w[i + 1] += h / 2
    return w
