#!/bin/bash
# Runs the repository's pinned baseline and compares with BASELINE.json's stable_pass list.
out=${1:-/var/tmp/vp-baseline.xml}
cd /repo && /venv/bin/python -m pytest -ra -q -p no:cacheprovider --timeout=900 --continue-on-collection-errors --junitxml=$out > /var/tmp/vp-baseline.log 2>&1
tail -3 /var/tmp/vp-baseline.log
python3 - "$out" <<'PY'
import json,sys,xml.etree.ElementTree as ET
b=json.load(open('/root/.vp/BASELINE.json'))
ok=set()
for tc in ET.parse(sys.argv[1]).getroot().iter('testcase'):
    if not any(c.tag in('failure','error','skipped') for c in tc):
        ok.add(tc.get('classname')+'::'+tc.get('name'))
miss=[t for t in b['stable_pass'] if t not in ok]
print('stable_pass:',len(b['stable_pass']),'passing now:',len(b['stable_pass'])-len(miss),'MISSING:',miss)
PY
rm -f $out /repo/log_sg
git -C /repo status --short
