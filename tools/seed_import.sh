#!/bin/bash
# usage: tools/seed_import.sh <round-dir e.g. /tmp/seed3> <Cxx> <n>   -> copies deliverables to seeded/Cxx-n and runs the quick check against the patch
src=$1; p=$2; n=$3
d=/verif/seeded/$p-$n
mkdir -p $d; cp $src/$p/out/patch.diff $src/$p/out/demo.py $src/$p/out/notes.md $d/ || exit 2
echo "$p-$n files: $(grep '^+++' $d/patch.diff | tr '\n' ' ')  -> $(cd /verif && tools/mutant.py $p x x x --patch $d/patch.diff | grep -v '^$' | tail -1)"
git -C /repo worktree remove --force $src/$p/wt 2>/dev/null
