#!/usr/bin/env python3
import json, sys
pid, text, note, tech = sys.argv[1:5]
p='/verif/tools/manifest_meta.json'; m=json.load(open(p))
m['checks'][pid]={"text":text,"note":note,"technique":tech}
json.dump(m,open(p,'w'),indent=1)
