#!/bin/bash
# usage: tools/seed_tests.sh <seed-dir-name>   runs the repository's pinned test suite on a scratch worktree of /repo HEAD with
# seeded/<name>/patch.diff applied and records "stable_pass n/76" in seeded/<name>/tests.json (merged into verify.json by seed_verify.sh)
name=$1
d=/verif/seeded/$name
wt=/var/tmp/vp-seedtest-$name
git -C /repo worktree remove --force $wt 2>/dev/null; rm -rf $wt
git -C /repo worktree add -q --detach $wt HEAD || exit 2
git -C $wt apply $d/patch.diff || { echo "$name: patch does not apply"; git -C /repo worktree remove --force $wt; exit 2; }
(cd $wt && OMP_NUM_THREADS=1 OPENBLAS_NUM_THREADS=1 MPLBACKEND=Agg PYTHONPATH=$wt /venv/bin/python -m pytest -q -p no:cacheprovider --timeout=1800 --continue-on-collection-errors --junitxml=$wt.junit.xml > $wt.pytest.log 2>&1)
python3 - $wt.junit.xml $d/tests.json <<'PY'
import json,sys,xml.etree.ElementTree as ET
b=json.load(open('/root/.vp/BASELINE.json'))
ok=set()
for tc in ET.parse(sys.argv[1]).getroot().iter('testcase'):
    if not any(c.tag in('failure','error','skipped') for c in tc):
        ok.add(tc.get('classname')+'::'+tc.get('name'))
miss=[t for t in b['stable_pass'] if t not in ok]
res="stable_pass %d/%d%s"%(len(b['stable_pass'])-len(miss),len(b['stable_pass'])," MISSING "+",".join(miss) if miss else "")
json.dump(dict(repository_tests=res), open(sys.argv[2],'w'))
print(sys.argv[2], res)
PY
git -C /repo worktree remove --force $wt; rm -rf $wt $wt.*
