#!/venv/bin/python
"""Sensitivity tool: apply one textual mutation to a scratch copy of /repo/sparseSpACE and run a check against it.

usage: tools/mutant.py <Cxx> <file-under-sparseSpACE> <old> <new> [--sub NAME] [--tier quick] [--count N]
Prints CAUGHT / MISSED.  The scratch copy lives under /var/tmp and is removed afterwards.
"""
import argparse, os, shutil, subprocess, sys, tempfile

ap = argparse.ArgumentParser()
ap.add_argument("prop"); ap.add_argument("file"); ap.add_argument("old"); ap.add_argument("new")
ap.add_argument("--sub", default=None); ap.add_argument("--tier", default="quick")
ap.add_argument("--count", type=int, default=1, help="which occurrence (1-based); 0 = all")
ap.add_argument("--patch", default=None, help="apply a unified diff instead of old/new")
a = ap.parse_args()
root = tempfile.mkdtemp(prefix="vp-mut-", dir="/var/tmp")
try:
    shutil.copytree("/repo/sparseSpACE", os.path.join(root, "sparseSpACE"))
    if a.patch:
        subprocess.check_call(["patch", "-p1", "-d", root, "-i", os.path.abspath(a.patch)])
    else:
        p = os.path.join(root, "sparseSpACE", a.file)
        s = open(p).read()
        n = s.count(a.old)
        if n == 0:
            print("MUTATION-NOT-APPLICABLE: pattern not found"); sys.exit(3)
        if a.count == 0:
            s = s.replace(a.old, a.new)
        else:
            parts = s.split(a.old)
            if a.count > n:
                print("MUTATION-NOT-APPLICABLE: only %d occurrences" % n); sys.exit(3)
            s = a.old.join(parts[:a.count]) + a.new + a.old.join(parts[a.count:])
        open(p, "w").write(s)
    env = dict(os.environ, VERIF_REPO=root, VERIF_REPLAY_DIR=os.path.join(root, "replays"))
    cmd = [sys.executable, "-m", "vlib.run", a.prop, "--tier", a.tier, "--no-evidence"]
    if a.sub:
        cmd += ["--sub", a.sub]
    r = subprocess.run(cmd, cwd="/verif", env=env, capture_output=True, text=True)
    tail = "\n".join(l for l in r.stdout.splitlines() if "signature=" in l or "VIOLATION" in l or "HARNESS" in l)
    print(tail[:1500])
    print(r.stderr[-800:] if r.returncode == 2 else "")
    print({0: "MISSED", 1: "CAUGHT", 2: "HARNESS-ERROR"}.get(r.returncode, "rc=%d" % r.returncode))
finally:
    shutil.rmtree(root, ignore_errors=True)
