#!/usr/bin/env python3
"""merge known_findings.d/<Cxx>.json (staging files written by helpers) into known_findings.json and remove them"""
import json, os, sys
root = os.path.dirname(os.path.dirname(os.path.abspath(__file__)))
main = json.load(open(os.path.join(root, "known_findings.json")))
ids = {e["id"]: e for e in main["findings"]}
for pid in sys.argv[1:]:
    p = os.path.join(root, "known_findings.d", pid + ".json")
    if not os.path.exists(p):
        continue
    for e in json.load(open(p))["findings"]:
        if e["id"] in ids:
            ids[e["id"]].update(e)
        else:
            main["findings"].append(e); ids[e["id"]] = e
    os.remove(p)
main["findings"].sort(key=lambda e: (e["property"], e["id"]))
json.dump(main, open(os.path.join(root, "known_findings.json"), "w"), indent=1)
print([ (e["id"], e["status"]) for e in main["findings"]])
