#!/bin/bash
# runs every check claimed in MANIFEST.json sequentially; usage: tools/runall.sh [quick|thorough] [seed]
tier=${1:-quick}; seed=${2:-1}
cd "$(dirname "$0")/.."; mkdir -p .work
for id in $(python3 -c "import json;print(' '.join(c['property_id'] for c in json.load(open('MANIFEST.json'))['checks']))"); do
  s=$(date +%s)
  VERIF_SEED=$seed /venv/bin/python -m vlib.run $id --tier $tier > .work/runall_$id.log 2>&1; rc=$?
  e=$(date +%s)
  echo "$id rc=$rc $((e-s))s $(head -1 .work/runall_$id.log | cut -c1-120) $(grep -c VIOLATION .work/runall_$id.log) viol"
done
