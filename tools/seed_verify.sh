#!/bin/bash
# usage: tools/seed_verify.sh <seed-dir-name> <property> [--tests]
# Confirms a seeded change kept under /verif/seeded/<name>/: applies patch.diff to a scratch worktree of /repo HEAD,
# runs demo.py with and without it, runs the property's quick check against the patched copy, optionally the
# repository's test suite, and writes the results to /verif/seeded/<name>/verify.json.  The worktree is removed afterwards.
name=$1; prop=$2; tests=$3
d=/verif/seeded/$name
wt=/var/tmp/vp-seed-$name
git -C /repo worktree remove --force $wt 2>/dev/null; rm -rf $wt
git -C /repo worktree add -q --detach $wt HEAD || exit 2
cd $d
MPLBACKEND=Agg PYTHONPATH=$wt /venv/bin/python demo.py > $wt.demo_clean.log 2>&1; rc_clean=$?
git -C $wt apply $d/patch.diff || { echo "patch does not apply"; git -C /repo worktree remove --force $wt; exit 2; }
MPLBACKEND=Agg PYTHONPATH=$wt /venv/bin/python demo.py > $wt.demo_patched.log 2>&1; rc_patched=$?
rm -f log_sg
cd /verif
VERIF_REPO=$wt VERIF_REPLAY_DIR=$wt.replays /venv/bin/python -m vlib.run $prop --tier quick --no-evidence > $wt.check.log 2>&1; rc_check=$?
sigs=$(grep -o "signature=[^ ]*" $wt.check.log | sort -u | tr '\n' ' ')
tests_result=$(python3 -c "
import json,os
d='$d'
r='not run'
for f in ('verify.json','tests.json'):
    if os.path.exists(d+'/'+f):
        r=json.load(open(d+'/'+f)).get('repository_tests',r)
print(r)" 2>/dev/null || echo "not run")
if [ "$tests" = "--tests" ]; then
  (cd $wt && MPLBACKEND=Agg PYTHONPATH=$wt /venv/bin/python -m pytest -q -p no:cacheprovider --timeout=900 --continue-on-collection-errors --junitxml=$wt.junit.xml > $wt.pytest.log 2>&1)
  tests_result=$(python3 - $wt.junit.xml <<'PY'
import json,sys,xml.etree.ElementTree as ET
b=json.load(open('/root/.vp/BASELINE.json'))
ok=set()
for tc in ET.parse(sys.argv[1]).getroot().iter('testcase'):
    if not any(c.tag in('failure','error','skipped') for c in tc):
        ok.add(tc.get('classname')+'::'+tc.get('name'))
miss=[t for t in b['stable_pass'] if t not in ok]
print("stable_pass %d/%d%s"%(len(b['stable_pass'])-len(miss),len(b['stable_pass'])," MISSING "+",".join(miss) if miss else ""))
PY
)
fi
python3 - <<PY
import json
json.dump(dict(seed="$name", property="$prop", demo_exit_unpatched=$rc_clean, demo_exit_patched=$rc_patched,
               check_exit_patched=$rc_check, check_signatures="$sigs".split(), repository_tests="$tests_result",
               verdict=("CAUGHT" if $rc_check==1 else ("MISSED" if $rc_check==0 else "HARNESS-ERROR"))),
          open("$d/verify.json","w"), indent=1)
print(open("$d/verify.json").read())
PY
git -C /repo worktree remove --force $wt; rm -rf $wt $wt.*
