#!/usr/bin/env python3
"""Regenerates MANIFEST.json from checks/*.py (claimed) and properties.jsonl (the rest -> not_applicable)."""
import json, os, re, sys
ROOT = os.path.dirname(os.path.dirname(os.path.abspath(__file__)))
props = [json.loads(l) for l in open(os.path.join(ROOT, "properties.jsonl"))]
meta = json.load(open(os.path.join(ROOT, "tools", "manifest_meta.json")))
checks, na = [], []
for p in props:
    pid = p["id"]
    m = meta["checks"].get(pid)
    if m and os.path.exists(os.path.join(ROOT, "checks", pid.lower() + ".py")):
        checks.append(dict(
            property_id=pid,
            quick_cmd="/venv/bin/python -m vlib.run %s --tier quick" % pid,
            thorough_cmd="/venv/bin/python -m vlib.run %s --tier thorough" % pid,
            evidence_file="/verif/evidence/%s.json" % pid,
            replay_cmd_template="/venv/bin/python -m vlib.run %s --replay {path}" % pid,
            engine="vlib",
            level_claimed=dict(category="exploration", text=m["text"], design_ref="DESIGN.md section 2, " + pid),
            level_note=m["note"],
            technique=m["technique"],
        ))
    else:
        na.append(dict(property_id=pid, reason=meta["not_applicable"].get(pid, "check not built yet (work in progress); the technique applies, see DESIGN.md section 2")))
man = dict(
    version=1,
    setup_cmd="/venv/bin/python -c 'import hypothesis' 2>/dev/null || /venv/bin/pip install --no-index --find-links /opt/veriftools/wheels hypothesis; cd /verif && PYTHONPATH=/repo:/verif /venv/bin/python -c 'import hypothesis, numpy, scipy, sparseSpACE.combiScheme; print(\"setup ok\", hypothesis.__version__)'",
    hooks=dict(guard="SPARSESPACE_VERIF", enable="no source hooks are needed: checks import /repo's working tree (PYTHONPATH=/repo) and observe through the public errorOperator extension point and by wrapping bound methods of the instance under test",
               baseline_off_cmd="cd /repo && /venv/bin/python -m pytest -ra -q -p no:cacheprovider --timeout=900 --continue-on-collection-errors",
               source_commits=meta.get("hook_commits", []), add_only=True),
    engines=[dict(name="vlib", path="/verif/vlib", serves_properties=[c["property_id"] for c in checks],
                  kind_free_text="Hypothesis-driven generated cases (16 shards), explicit reference oracles per property, collect-then-shrink loop, JSON replay files")],
    checks=checks,
    notes=meta.get("notes", ""),
    not_applicable=na,
)
json.dump(man, open(os.path.join(ROOT, "MANIFEST.json"), "w"), indent=1)
print("claimed:", [c["property_id"] for c in checks]); print("not claimed:", [n["property_id"] for n in na])
