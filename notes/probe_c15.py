import numpy as np, traceback, math
import patchfn
from sparseSpACE.Grid import *
from sparseSpACE.GridOperation import *
from sparseSpACE.Function import *
rng=np.random.default_rng(5)
stats={}
def rec(k,ok,info=None):
    s=stats.setdefault(k,[0,0,None]); s[0]+=1
    if not ok:
        s[1]+=1
        if s[2] is None: s[2]=info
f=FunctionCustom(lambda x: 1.0)
for trial in range(150):
    kind=str(rng.choice(['Uniform','Triangle','Normal']))
    if kind=='Normal':
        mu=float(rng.normal()); sg=float(rng.uniform(0.2,3)); a,b=-np.inf,np.inf; dinfo=("Normal",mu,sg)
    else:
        a=float(rng.choice([0.0,-1.0,2.0])); b=a+float(rng.choice([1.0,3.0,0.5]))
        dinfo=("Uniform",) if kind=='Uniform' else ("Triangle",float(a+(b-a)*rng.uniform(0.1,0.9)))
    op=UncertaintyQuantification(f,[dinfo],np.array([a]),np.array([b]))
    for bd in [True,False]:
        if kind=='Normal' and bd: continue
        g=GlobalTrapezoidalGridWeighted(np.array([a]),np.array([b]),op,boundary=bd)
        # build tree with weighted midpoints
        pts=[a,b]; lev=[0,0]
        ok_mid=True
        for _ in range(int(rng.integers(1,16))):
            i=int(rng.integers(0,len(pts)-1))
            try:
                m=g.get_mid_point(pts[i],pts[i+1],0)
            except Exception as e:
                rec((kind,bd,'midEXC'),False,(pts,type(e).__name__,str(e)[:50])); ok_mid=False; break
            inside=pts[i]<m<pts[i+1]
            rec((kind,bd,'mid-inside'),inside,(pts[i],pts[i+1],m))
            if not inside: ok_mid=False;break
            d=op.get_distributions()[0]
            pl=d.cdf(m)-d.cdf(pts[i]); pr=d.cdf(pts[i+1])-d.cdf(m)
            rec((kind,bd,'mid-equalprob'),abs(pl-pr)<=1e-6*max(pl+pr,1e-300)+1e-12,(pts[i],pts[i+1],m,pl,pr))
            pts.insert(i+1,m); lev.insert(i+1,max(lev[i],lev[i+1])+1)
        if not ok_mid or len(pts)<3: continue
        if not bd and len(pts)<4 and False: continue
        try:
            g.set_grid([pts],[lev]); w=np.array(g.weights[0],dtype=float)
            rec((kind,bd,'nonneg'),np.all(w>=0),(pts,w))
            rec((kind,bd,'sum1'),abs(w.sum()-1)<1e-6,(pts,w.sum()))
            if kind=='Uniform':
                g2=GlobalTrapezoidalGrid(np.array([a]),np.array([b]),boundary=bd); g2.set_grid([pts],[lev]); w2=np.array(g2.weights[0],dtype=float)/(b-a)
                if bd: rec((kind,bd,'uniform==trap/len'),np.allclose(w,w2,atol=1e-12),(pts,w,w2))
                else: rec((kind,bd,'uniform~trap/len (renormalised)'),np.allclose(w,w2/w2.sum(),atol=1e-12),(pts,w,w2))
        except Exception as e:
            tb=traceback.extract_tb(e.__traceback__)[-1]
            rec((kind,bd,'EXC'),False,(pts,type(e).__name__,str(e)[:50],tb.lineno))
for k in sorted(stats,key=str):
    s=stats[k]; print(k,s[0],'fail',s[1],'' if not s[1] else str(s[2])[:300])
