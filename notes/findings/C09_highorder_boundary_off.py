"""C09 / F-C09 and F-C09b: GlobalHighOrderGrid(boundary=False) does not integrate constants.

Run:  cd /verif/.work && /venv/bin/python /verif/notes/findings/C09_highorder_boundary_off.py
(the library opens a file 'log_sg' in the current directory at import)

F-C09  (fallback not rescaled): get_1D_weights_and_order starts from the trapezoidal weights of the grid normalised to
       [-1,1] (mass 2). When the degree-1 moment matching yields a negative weight, these start weights are returned
       as they are, i.e. without the factor (b-a)/2 that every other return path applies.
F-C09b (degree >= number of nodes): the degree loop is bounded by len(grid_1D), which still contains the two boundary
       points that were stripped. With n interior nodes the loop goes on to degree n and n+1, where the discrete
       orthogonal polynomial vanishes at all nodes up to rounding; it is normalised by 1/sqrt(~1e-32) and the
       resulting weights of size 1e15 are accepted whenever they happen to be non-negative.
"""
import numpy as np
from sparseSpACE.Grid import GlobalHighOrderGrid


def show(title, a, b, pts, lev, **kw):
    g = GlobalHighOrderGrid([a], [b], boundary=False, **kw)
    g.set_grid([pts], [lev])
    w = np.array(g.weights[0], dtype=float)
    x = np.array(g.coordinate_array[0], dtype=float)
    _, deg = g.get_1D_weights_and_order(pts, a, b, lev)
    print(title)
    print("   points  ", pts)
    print("   weights ", w, " reported degree", deg)
    print("   sum(w) = %r   expected b-a = %r" % (float(w.sum()), b - a))
    for k in range(1, deg + 1 if deg >= 2 else 1):
        print("   int x^%d = %r   expected %r" % (k, float(np.dot(w, x ** k)), (b ** (k + 1) - a ** (k + 1)) / (k + 1)))


# F-C09: dyadic tree on [0,1]; degree-1 weights would be negative -> fallback, mass 2 instead of 1
show("F-C09  fallback weights not scaled by (b-a)/2", 0.0, 1.0, [0.0, 0.25, 0.5, 1.0], [0, 2, 1, 0],
     max_degree=2, split_up=False)
# the DESIGN.md example
show("F-C09  (example of DESIGN.md section 4)", 2.0, 3.0, [2.0, 2.06, 2.11, 2.19, 2.5, 3.0], [0, 4, 3, 2, 1, 0],
     max_degree=2, split_up=False)
# F-C09b: two interior nodes, rule claims degree 2, weights ~1e15
show("F-C09b degree >= number of interior nodes: garbage weights", 2.0, 4.0,
     [2.0, 2.4991474752689995, 3.458470319185849, 4.0], [0, 2, 1, 0], max_degree=2, split_up=False)
# F-C09b: same cause, exactly-zero degenerate polynomial: mass is right but the claimed degree 2 is not reached
show("F-C09b degree >= number of interior nodes: claimed degree not reached", 0.0, 3.0,
     [0.0, 0.6000000000000001, 2.52, 3.0], [0, 2, 1, 0], max_degree=2, split_up=False)
