"""F-C12i: Polynomial1d keeps a reference to the caller's coefficient list for eval AND antiderivative coefficients derived
from it at construction time for getAnalyticSolutionIntegral.  After the caller modifies its list, eval and the analytic
integral describe two different polynomials (all other classes are consistent: they either copy or read everything live)."""
from scipy import integrate
from sparseSpACE.Function import Polynomial1d

c = [1, 0, 0, 2]
p = Polynomial1d(c)
for k in range(len(c)):          # the caller re-uses its list for the next family member: coefficients doubled
    c[k] *= 2
num = integrate.quad(lambda x: p.eval((x,)), 0.0, 0.5)[0]
print("analytic integral over [0, 0.5]:", p.getAnalyticSolutionIntegral([0.0], [0.5]), "(polynomial at construction: 0.53125)")
print("integral of the point evaluation:", num, "(polynomial the object now evaluates: 1.0625)")
