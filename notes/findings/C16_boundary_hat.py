"""F-C16-boundary: with GlobalTrapezoidalGrid(boundary=True) the half hat centred at the upper domain end is 0 (N<200,
vectorised) or divides by zero (N>=200, scalar) at x_d == 1.0, so calculate_B_dimension_wise loses every sample that has a
coordinate exactly 1.0.  Run from a scratch directory (the library writes log_sg into the cwd):
    cd /verif/.work && /venv/bin/python /verif/notes/findings/C16_boundary_hat.py
"""
import numpy as np
from sparseSpACE.GridOperation import DensityEstimation
from sparseSpACE.Grid import GlobalTrapezoidalGrid

Q = 100
grid = GlobalTrapezoidalGrid(a=np.zeros(1), b=np.ones(1), modified_basis=False, boundary=True)
op = DensityEstimation(np.array([[1.0]]), 1, grid=grid, print_level=Q, log_level=Q)

# the three basis functions on the stripe [0, 0.5, 1]: (centre, lower neighbour, upper neighbour)
points, lower, upper = [[0.0], [0.5], [1.0]], [[0.0], [0.0], [0.5]], [[0.5], [1.0], [1.0]]
for x in ([0.0], [0.5], [0.75], [1.0]):
    v = op.hat_function_non_symmetric_completely_vectorized(points, lower, upper, [x])[0]
    print("completely vectorised hats at x=%s: %s   (sum of the nodal basis must be 1)" % (x, v))
print("expected at x=[1.0]: [0. 0. 1.]")
try:
    print("scalar hat centred at 1.0 evaluated at 1.0:", op.hat_function_non_symmetric((1.0,), [(0.5, 1.0)], [1.0]),
          " expected 1.0")
except ZeroDivisionError as e:
    print("scalar hat centred at 1.0 evaluated at 1.0: ZeroDivisionError (%s), expected 1.0" % e)


class Container(object):
    value = np.zeros(1)


stripes, levels = [[0.0, 0.5, 1.0]], [[0, 1, 0]]
op.init_dimension_wise(grid, grid, Container(), [1], [2], np.zeros(1), np.ones(1))
op.initialize_evaluation_dimension_wise(Container())
grid.set_grid(stripes, levels)
print("b for the single sample x=1.0 :", op.calculate_B_dimension_wise(op.data, stripes, levels), " expected [0. 0. 1.]")
