"""C09 / argument form: integer-valued point arrays make LagrangeBasis.__call__ overflow in int64.

Run:  cd /verif/.work && /venv/bin/python /verif/notes/findings/C09_lagrange_basis_integer_overflow.py

LagrangeBasis.__call__ starts its product with the python int 1 and multiplies by (x - knot).  When the points were
handed over as an int64 ndarray, x and the knots are np.int64 and the product of p differences is computed in int64:
for coordinates ~2^17..2^20 and p=4 it wraps around (RuntimeWarning: overflow), the collocation matrix is garbage and
the hierarchisation raises LinAlgError (or returns a wrong integral).  Lists of floats / float arrays are fine.
"""
import numpy as np
from sparseSpACE.Grid import GlobalLagrangeGrid
from sparseSpACE.Function import FunctionCustom

b = 2.0 ** 20
pts, lev = [0.0, b / 8, b / 4, b / 2, b], [0, 3, 2, 1, 0]
f = FunctionCustom(lambda t: float(t[0]) ** 2)
for name, P in (("list of float  ", pts), ("float64 ndarray", np.array(pts)), ("int64 ndarray  ", np.array(pts, dtype=np.int64))):
    g = GlobalLagrangeGrid([0.0], [b], boundary=True, p=4)
    try:
        g.set_grid([P], [lev])
        x1 = g.coordinate_array[0][1]
        print(name, "basis[1](x_1) = %r (expected 1.0)   integral of x^2 = %r (exact %r)"
              % (g.basis[0][1](x1), g.integrate(f, [3], [0.0], [b])[0], b ** 3 / 3))
    except Exception as e:
        print(name, "->", type(e).__name__, e)
