"""F-C20c / F-C20d / F-C20g: three index defects in Regression.build_C_matrix_dimension_wise.

Run:  cd /var/tmp && /venv/bin/python /verif/notes/findings/C20_dimwise_C_matrix.py

Reference: C = sum_k kron_m (Stiff_k if m == k else Mass_m) with the 1-D matrices of the hats on the node list
0 = x_0 < ... < x_{N+1} = 1:  Stiff[j,j] = 1/hl + 1/hr, Stiff[j,j+1] = -1/h;  Mass[j,j] = (hl+hr)/3, Mass[j,j+1] = h/6.

(d) 1-D, [0,.25,.5,.75,1]: the "no overlap" test is `domain_i[d][1] < domain_j[d][0]` (strict, line 2720), so the hats at
    0.25 and 0.75, whose supports only touch in 0.5, are treated as partially overlapping: C[0][2] = -1/0.5 = -2, not 0.
    (pinned by the repository's test_calculate_C_matrix_spatially_adaptive)
(c) d >= 2: in the branch `n != d` every quantity is indexed with d instead of n (lines 2744-2777), so the mass factor
    of dimension n is computed from the coordinates of the stiffness dimension d.
(g) d >= 2: for two different points `temp_res *= integral` is executed at line 2757 and again at line 2782: the
    neighbour mass integral enters squared.
With (c) repaired, a fourth, currently hidden, defect would surface: the mass branch has no "supports do not
overlap" test, two far-apart points would get |x_i-x_j|/6 instead of 0 (the proposed diff adds the test).
"""
import contextlib, io
import numpy as np
from sparseSpACE.GridOperation import Regression


def mass(x):
    n = len(x) - 2
    M = np.zeros((n, n))
    for j in range(1, n + 1):
        M[j - 1, j - 1] = (x[j + 1] - x[j - 1]) / 3
        if j < n:
            M[j - 1, j] = M[j, j - 1] = (x[j + 1] - x[j]) / 6
    return M


def stiff(x):
    n = len(x) - 2
    S = np.zeros((n, n))
    for j in range(1, n + 1):
        S[j - 1, j - 1] = 1 / (x[j] - x[j - 1]) + 1 / (x[j + 1] - x[j])
        if j < n:
            S[j - 1, j] = S[j, j - 1] = -1 / (x[j + 1] - x[j])
    return S


with contextlib.redirect_stdout(io.StringIO()):
    r1 = Regression(np.array([[0.3]]), np.array([1.0]), 0.1, 'C')
    r2 = Regression(np.array([[0.3, 0.3]]), np.array([1.0]), 0.1, 'C')
x = [0., .25, .5, .75, 1.]
print("(d) 1-D nodes", x)
print(" observed:\n", r1.build_C_matrix_dimension_wise([x], []))
print(" expected:\n", stiff(x))
g = [[0., .5, 1.], [0., .25, .5, 1.]]
print("(c)+(g) 2-D nodes", g, " basis functions at (0.5,0.25), (0.5,0.5)")
C = r2.build_C_matrix_dimension_wise(g, [])
ref = np.kron(stiff(g[0]), mass(g[1])) + np.kron(mass(g[0]), stiff(g[1]))
print(" observed:\n", C)
print(" expected:\n", ref)
print(" observed C[0][1] = %.6f = Stiff_0*Mass_0 + Stiff_1[0,1]*Mass_1[0,1]^2 = 4*(1/3) + (-4)*(1/24)^2 = %.6f ; expected 4*(1/24) + (1/3)*(-4) = %.6f"
      % (C[0, 1], 4 / 3 - 4 / 576, ref[0, 1]))
