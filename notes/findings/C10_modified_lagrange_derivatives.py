"""C10 finding F-C10-b: LagrangeBasisRestrictedModified returns the derivatives of the *unmodified* polynomial.

The class overrides __call__ (level 1: the constant 1 on its support; functions next to the domain boundary: restricted
Lagrange polynomial + factor * boundary polynomial) but inherits get_first_derivative / get_second_derivative from
LagrangeBasisRestricted, so they differentiate a different function than the one __call__ evaluates.
(The same class is also unusable from GlobalLagrangeGrid(boundary=False, modified_basis=True): set_grid passes knot
lists without the domain ends and __init__ raises IndexError at `self.knots[self.index + 1]` on every grid.)

run: cd /tmp && MPLBACKEND=Agg /venv/bin/python /verif/notes/findings/C10_modified_lagrange_derivatives.py
"""
from sparseSpACE.BasisFunctions import LagrangeBasisRestrictedModified


def d1(f, x, h=1e-5):
    return (f(x - 2 * h) - 8 * f(x - h) + 8 * f(x + h) - f(x + 2 * h)) / (12 * h)


def d2(f, x, h=1e-3):
    return (-f(x - 2 * h) + 16 * f(x - h) - 30 * f(x) + 16 * f(x + h) - f(x + 2 * h)) / (12 * h * h)


# level 1: the function is the constant 1 on [0, 2]
f = LagrangeBasisRestrictedModified(p=2, index=1, knots=[0.0, 1.0, 2.0], a=0.0, b=2.0, level=1)
print("level 1   : f(1.1) = %r  get_first_derivative(1.1) = %r   central difference = %r   (expected 0)"
      % (f(1.1), f.get_first_derivative(1.1), d1(f, 1.1)))
# level 2, left boundary function on knots 0, 1/3, 2/3, 1 (the configuration of test_BasisFunctions)
kn = [0.0, 1 / 3.0, 2 / 3.0, 1.0]
f = LagrangeBasisRestrictedModified(p=3, index=1, knots=kn, a=0.0, b=1.0, level=2)
x = 0.2
print("left border: f(0)=%.4f f(1/3)=%.4f" % (f(0.0), f(kn[1])))
print("  get_first_derivative(0.2)  = %r   central difference of __call__ = %r" % (f.get_first_derivative(x), d1(f, x)))
print("  get_second_derivative(0.2) = %r   central difference of __call__ = %r" % (f.get_second_derivative(x), d2(f, x)))
