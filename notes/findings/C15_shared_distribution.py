"""F-C15a: UncertaintyQuantification reuses the distribution object of an earlier dimension whenever the distribution
*info* is equal, although the interval [a_d, b_d] (which parametrises Uniform and Triangle) differs.

run: cd /var/tmp && MPLBACKEND=Agg /venv/bin/python /verif/notes/findings/C15_shared_distribution.py
"""
import contextlib, io
import numpy as np
from sparseSpACE.Function import FunctionCustom
from sparseSpACE.GridOperation import UncertaintyQuantification
from sparseSpACE.Grid import GlobalTrapezoidalGridWeighted

f = FunctionCustom(lambda x: 1.0)
a, b = np.array([0.0, -1.0]), np.array([1.0, 0.0])
op = UncertaintyQuantification(f, "Uniform", a, b, print_level=100, log_level=100)
grid = GlobalTrapezoidalGridWeighted(a, b, op, boundary=True)
d0, d1 = op.get_distributions()
print("same object for both dimensions:", d0 is d1)
print("cdf of dimension 1 at -1, -0.5, 0 :", [float(d1.cdf(x)) for x in (-1.0, -0.5, 0.0)], " expected [0, 0.5, 1]")
with contextlib.redirect_stdout(io.StringIO()):
    grid.set_grid([[0.0, 0.25, 1.0], [-1.0, -0.75, 0.0]], [[0, 1, 0], [0, 1, 0]])
print("weights dimension 0:", list(grid.weights[0]), " expected [0.125, 0.5, 0.375]")
print("weights dimension 1:", list(grid.weights[1]), " expected [0.125, 0.5, 0.375]  (trapezoid / (b-a))")

a, b = np.array([0.0, 2.0]), np.array([1.0, 5.0])
op = UncertaintyQuantification(f, "Uniform", a, b, print_level=100, log_level=100)
grid = GlobalTrapezoidalGridWeighted(a, b, op, boundary=True)
with contextlib.redirect_stdout(io.StringIO()) as buf:
    m = grid.get_mid_point(2.0, 3.5, 1)
print("get_mid_point(2, 3.5) in dimension 1 = %r via %r (expected 2.75 from the primary branch)" % (m, buf.getvalue().strip()))

a, b = np.array([0.0, -1.0]), np.array([1.0, 2.0])
op = UncertaintyQuantification(f, [("Triangle", 0.5), ("Triangle", 0.5)], a, b, print_level=100, log_level=100)
grid = GlobalTrapezoidalGridWeighted(a, b, op, boundary=True)
with contextlib.redirect_stdout(io.StringIO()):
    grid.set_grid([[0.0, 0.5, 1.0], [-1.0, 0.5, 2.0]], [[0, 1, 0], [0, 1, 0]])
print("Triangle(-1, 0.5, 2), grid [-1, 0.5, 2]: weights", list(grid.weights[1]), " expected [1/6, 2/3, 1/6]")
