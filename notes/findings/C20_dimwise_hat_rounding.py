"""F-C20f: the design matrix of the dimension-wise (spatially adaptive) regression counts a sample twice when its
coordinate is the floating-point predecessor of a grid node.

Run:  cd /var/tmp && /venv/bin/python /verif/notes/findings/C20_dimwise_hat_rounding.py

MachineLearning.hat_function_non_symmetric_completely_vectorized (GridOperation.py 656-679) evaluates both branches
    value1 = 1 - (x-p)/(u-p)   (falling side)        value2 = 1 - (p-x)/(p-l)   (rising side)
and decides which one applies from the rounded value: value1 is dropped if `> 1`, value2 if `>= 1`.  For x = p - 1ulp
value1 = 1 + 1.1e-16 rounds to exactly 1.0 (kept) and value2 = 0.9999999999999999 (kept): phi_p(x) = 2 instead of 1,
4 in two dimensions.  This is not exotic: the repository's own 3x3 lattice {0.25,0.5,0.75}^2 is scaled by the default
range [0.05,0.95] to {0.05, 0.49999999999999994, 0.95}^2, and 0.5 is a node of every component grid.
"""
import contextlib, io
import numpy as np
from sparseSpACE.GridOperation import Regression

data = np.array([[a, b] for a in (0.25, 0.5, 0.75) for b in (0.25, 0.5, 0.75)])
y = np.arange(1., 10.)
with contextlib.redirect_stdout(io.StringIO()):
    r = Regression(data, y, 0., 'C')
print("scaled sample 4:", [float(v).hex() for v in r.data[4]], "=", r.data[4].tolist())
r.training_data, r.training_target_values = r.data, r.target_values
nodes = [[0., .5, 1.], [0., .5, 1.]]            # one basis function, centred at (0.5, 0.5)
A = r.build_A_matrix_dimension_wise(nodes, [])
hat = lambda t: 1 - abs(2 * t - 1)
print("observed design matrix column:", A[:, 0])
print("basis values                 :", np.array([hat(p[0]) * hat(p[1]) for p in r.data]))
with contextlib.redirect_stdout(io.StringIO()):
    r = Regression(data, y, 0., 'C')
    sa = r.train_spatially_adaptive(0.2, 0.5, 1e-5, 0)
Xt, yt = np.asarray(r.training_data), np.asarray(r.training_target_values)
a = r.surpluses[(1, 1)][0]
col = np.array([hat(p[0]) * hat(p[1]) for p in Xt])
print("train_spatially_adaptive, grid (1,1): surplus %.6f ; least-squares solution (col.y)/(col.col) = %.6f" % (a, col @ yt / (col @ col)))
