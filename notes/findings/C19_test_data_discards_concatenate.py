"""F-C19-a: Classification.test_data() throws away the results of DataSet.concatenate (which returns a NEW set):

        self._omitted_data.concatenate(omitted_data)
        self._scaled_data.concatenate(used_data)
        self._testing_data.concatenate(used_data)

so after any test_data() call the calculated classes of the test set have grown, but the testing data / omitted data
they belong to have not.  evaluate() and print_evaluation() then raise ValueError, and the unlabelled samples that were
"set aside" are lost."""
import contextlib, io
import numpy as np
import sparseSpACE.DEMachineLearning as deml

rng = np.random.default_rng(0)
X = np.concatenate([rng.normal([0, 0], 0.5, size=(20, 2)), rng.normal([2, 2], 0.5, size=(20, 2))])
y = np.array([0] * 20 + [1] * 20, dtype=np.int64)
with contextlib.redirect_stdout(io.StringIO()):
    cl = deml.Classification(deml.DataSet((X, y), "demo"), split_percentage=0.8, split_evenly=True, shuffle_data=False)
    cl.perform_classification(masslumping=True, minimum_level=1, maximum_level=3, print_metrics=False)
print("after learning : testing samples", cl.get_testing_data().get_length(), " calculated classes",
      len(cl.get_calculated_classes_testset()), " omitted", cl.get_omitted_data().get_length(), " evaluate ->", cl.evaluate()["Total mappings"])

fresh = deml.DataSet((np.array([[0.1, 0.2], [1.9, 2.1], [1.0, 1.0], [0.3, 0.1]]), np.array([0, 1, -1, 0], dtype=np.int64)), "fresh")
with contextlib.redirect_stdout(io.StringIO()):
    summary = cl.test_data(fresh, print_output=False, print_removed=False)
print("test_data      :", summary)
print("after test_data: testing samples", cl.get_testing_data().get_length(), "(expected 8+3=11)  calculated classes",
      len(cl.get_calculated_classes_testset()), "(11)  omitted", cl.get_omitted_data().get_length(), "(expected 1)")
try:
    print("evaluate ->", cl.evaluate())
except ValueError as e:
    print("evaluate() raises ValueError:", e, "  (expected: summary over all 11 tested samples)")
