"""C02 finding: with boundary=False the combined interpolant drops interior grid points that lie within
1e-8 + 1e-5*|a_d| (numpy.isclose defaults) of a face of the box.

Grid.points_not_zero() decides which mesh points carry the implicit zero boundary value with
np.isclose(points, a) / np.isclose(points, b) and numpy's default rtol=1e-5.  For a box whose width is small compared
with its distance from the origin (here [1000, 1001] at level 7, spacing 1/128 = 0.0078 < 1e-5*1000 = 0.01; or
[-2000, -1999.5] at level 5) the first/last interior points are "close" to the face, get the value 0 and the combination
no longer reproduces the function at its own grid points.  The scalar twin Grid.point_on_boundary() uses math.isclose
(rel_tol=1e-9) and does not have the problem; integration is not affected.

run: cd /tmp && PYTHONPATH=/repo /venv/bin/python /verif/notes/findings/C02_isclose_zeroes_interior_points.py
"""
import numpy as np
from sparseSpACE.StandardCombi import StandardCombi
from sparseSpACE.GridOperation import Integration
from sparseSpACE.Grid import TrapezoidalGrid
from sparseSpACE.Function import FunctionCustom

for a, b, level in [([1000.0], [1001.0], 7), ([-2000.0], [-1999.5], 5), ([0.0], [1.0], 7)]:
    a, b = np.array(a), np.array(b)
    f = FunctionCustom(lambda x: 1.0 + (x[0] - a[0]) / (b[0] - a[0]))      # values between 1 and 2 inside the box
    op = Integration(f, grid=TrapezoidalGrid(a=a, b=b, boundary=False), dim=1, print_level=100, log_level=100)
    sc = StandardCombi(a, b, operation=op, print_level=100, log_level=100)
    sc.perform_operation(level, level)
    pts = sc.get_points_component_grid([level])          # the grid's own (interior) points
    got = sc(pts)[:, 0]
    want = np.array([f(p)[0] for p in pts])
    bad = np.flatnonzero(np.abs(got - want) > 1e-12)
    print("box [%g, %g] level %d: %d of %d grid points not reproduced" % (a[0], b[0], level, len(bad), len(pts)))
    for i in bad[:4]:
        print("   x = %.10g  interpolant = %.6g   function = %.6g" % (pts[i][0], got[i], want[i]))
# expected: 0 points not reproduced for every box
