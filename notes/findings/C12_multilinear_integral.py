"""F-C12d: FunctionMultilinear.getAnalyticSolutionIntegral omits the volume of the other dimensions.
f(x) = sum_d c_d x_d ;  int_box f = sum_d c_d (e_d^2 - s_d^2)/2 * prod_{k != d} (e_k - s_k).
The source returns sum_d c_d (e_d^2 - s_d^2)/2 (right only for d = 1 or when all other widths are 1)."""
import numpy as np
from scipy import integrate
from sparseSpACE.Function import FunctionMultilinear

f = FunctionMultilinear([1.0, 1.0])
a, b = [0.0, 0.0], [2.0, 2.0]
num = integrate.dblquad(lambda y, x: f.eval((x, y)), a[0], b[0], a[1], b[1])[0]
print("analytic :", f.getAnalyticSolutionIntegral(a, b))     # 4.0
print("numerical:", num, "(exact 8.0)")
f = FunctionMultilinear([2.0, 0.0])
a, b = [0.0, 0.0], [1.0, 0.25]
print("analytic :", f.getAnalyticSolutionIntegral(a, b), " exact:", 2.0 * 0.5 * 0.25)   # 1.0 vs 0.25
