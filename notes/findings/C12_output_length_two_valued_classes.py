"""F-C12e / F-C12f: GenzDiscontinious2.eval and FunctionCantileverBeamD.eval return two values, but neither class overrides
output_length() (base class: 1).  Every call through Function.__call__ therefore fails."""
from sparseSpACE.Function import GenzDiscontinious2, FunctionCantileverBeamD

for name, f, p in (("GenzDiscontinious2", GenzDiscontinious2(coeffs=[1.0, 1.0], border=[0.5, 0.5]), (0.1, 0.1)),
                   ("FunctionCantileverBeamD", FunctionCantileverBeamD(), (2.9e7, 500.0, 1000.0))):
    print(name, "eval ->", f.eval(p), " output_length() ->", f.output_length(), "(expected 2)")
    for label, call in (("single", lambda: f(p)), ("batch", lambda: f([p, p]))):
        try:
            print("  ", label, "->", call())
        except Exception as e:
            print("  ", label, "raises", type(e).__name__, e)
