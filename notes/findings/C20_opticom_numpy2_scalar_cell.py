"""F-C20e: Opticom options 1 and 2 crash under NumPy >= 2 (a size-1 array is stored into a scalar matrix cell).

Run:  cd /var/tmp && /venv/bin/python /verif/notes/findings/C20_opticom_numpy2_scalar_cell.py

* option 2 (both variants): `matrix[j][i] = partial_solution` with partial_solution of shape (1,1)   (lines 2023, 2045)
* option 1: `sum += lambda * compute_regularization_term_opticom(...)`: sum_C_matrix_with_alphas is fed (n,1) arrays, so
  every product alphas_i[k]*alphas_j[l] is a (1,) array and so is `sum`; `matrix[i][j] = sum`        (lines 2184, 2372)
  (standard variant only for lambda != 0; the spatially adaptive variant always adds the term).
Option 3 works.  With the proposed diff all variants run and the coefficients sum to one (|sum-1| <= 5e-13 in ~800 cases).
"""
import contextlib, io
import numpy as np
from sparseSpACE.GridOperation import Regression

rng = np.random.default_rng(1)
X = rng.random((30, 2))
y = np.sin(3 * X[:, 0]) + X[:, 1] ** 2 + 2
for sa in (False, True):
    for option in (1, 2, 3):
        with contextlib.redirect_stdout(io.StringIO()):
            r = Regression(X, y, 0.1, 'C')
            combi = r.train_spatially_adaptive(0.2, 0.5, 1e-5, 10) if sa else r.train(0.2, 1, 3)
        try:
            with contextlib.redirect_stdout(io.StringIO()):
                (r.optimize_coefficients_spatially_adaptive if sa else r.optimize_coefficients)(combi, option)
            print("spatially adaptive" if sa else "standard", "option", option, "sum of coefficients",
                  float(np.sum([np.asarray(g.coefficient).item() for g in combi.scheme])))
        except ValueError as e:
            print("spatially adaptive" if sa else "standard", "option", option, "ValueError:", e)
