"""F-C19-b: Classification.test_data(ds, print_output=True, print_incorrect_points=True) gives _print_evaluation the last
new_testing_data.get_length() stored densities (= all survivors INCLUDING the unlabelled ones, which were never
classified) instead of the last len(used_data).  The wrong-point indices are relative to used_data, so the densities
printed for wrongly mapped points belong to other samples; if fewer densities are stored than there are survivors the
negative slice start wraps around and the call dies with IndexError after the classes were already recorded."""
import contextlib, io
import numpy as np
import sparseSpACE.DEMachineLearning as deml

rng = np.random.default_rng(0)
X = np.concatenate([rng.normal([0, 0], 0.5, size=(20, 2)), rng.normal([2, 2], 0.5, size=(20, 2))])
y = np.array([0] * 20 + [1] * 20, dtype=np.int64)
with contextlib.redirect_stdout(io.StringIO()):
    cl = deml.Classification(deml.DataSet((X, y), "demo"), split_percentage=1.0, shuffle_data=False)   # no built-in test part
    cl.perform_classification(masslumping=True, minimum_level=1, maximum_level=3, print_metrics=False)
# three labelled samples with deliberately wrong labels (so they are 'mapped incorrectly') and one unlabelled sample
fresh = deml.DataSet((np.array([[1.0, 1.0], [0.1, 0.2], [1.9, 2.1], [0.3, 0.1]]), np.array([-1, 1, 0, 1], dtype=np.int64)), "fresh")
out = io.StringIO()
try:
    with contextlib.redirect_stdout(out):
        print("summary:", cl.test_data(fresh, print_output=True, print_removed=False, print_incorrect_points=True))
    print(out.getvalue()[-600:])
except IndexError as e:
    print("test_data raises IndexError:", e, " (expected: the summary dict {'Wrong mappings': 3, 'Total mappings': 3, ...})")
    print("classes were recorded nevertheless:", cl.get_calculated_classes_testset())
