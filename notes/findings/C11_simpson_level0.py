"""F-C11a: SIMPSON_ROMBERG containers with >= 2 slices do not integrate constants (nor linear functions).

Run:  cd /tmp && /venv/bin/python /verif/notes/findings/C11_simpson_level0.py

Cause (sparseSpACE/Extrapolation.py, RombergSimpsonWeights): for every extrapolation level j the "Simpson sum" of a
container [l,r] gives the end points the weight h_j/3, odd points 4h_j/3 and even points 2h_j/3.  For j >= 1 these
masses add up to (r-l).  On level 0 there are only the two end points, each with h_0/3, i.e. the level-0 term has
mass 2(r-l)/3 instead of (r-l).  The extrapolation coefficients sum to one, so
    sum(w) - (r-l) = -c_{k,0} * (r-l)/3,      c_{k,0} = prod_{i=1..k} 1/(1-8^i)   (container of 2^k slices)
(k=1: +(r-l)/21).  The check /verif/checks/c11.py recomputes exactly this number from the containers the library
built and only then files the deviation under the known signature.
"""
import contextlib
import io
from fractions import Fraction as F

from sparseSpACE.Extrapolation import ExtrapolationGrid, SliceGrouping, SliceVersion, SliceContainerVersion


def weights(grid, levels, grouping, slices=SliceVersion.ROMBERG_DEFAULT):
    g = ExtrapolationGrid(slice_grouping=grouping, slice_version=slices,
                          container_version=SliceContainerVersion.SIMPSON_ROMBERG)
    with contextlib.redirect_stdout(io.StringIO()):
        g.set_grid(list(grid), list(levels))
    return g.get_weights(), [(c.left_point, c.right_point, len(c.slices)) for c in g.slice_containers]


def predicted(containers):
    d = F(0)
    for l, r, n in containers:
        if n >= 2:
            k = n.bit_length() - 1
            c0 = F(1)
            for i in range(1, k + 1):
                c0 *= F(1, 1 - 8 ** i)
            d += -c0 * (F(r) - F(l)) / 3
    return float(d)


for grid, levels in [([0.0, 0.5, 1.0], [0, 1, 0]),                                    # minimal: one container, 2 slices
                     ([2.0, 2.125, 2.25, 2.5, 3.0], [0, 3, 2, 1, 0]),                 # adaptive grid of DESIGN.md
                     ([1.0, 1.5, 2.0, 2.5, 3.0], [0, 2, 1, 2, 0])]:                   # grid of test_ExtrapolationSimpsonGrid.py
    for grouping in (SliceGrouping.UNIT, SliceGrouping.GROUPED, SliceGrouping.GROUPED_OPTIMIZED):
        w, containers = weights(grid, levels, grouping)
        H = grid[-1] - grid[0]
        lin = sum(wi * x for wi, x in zip(w, grid))
        print("grid=%s grouping=%-17s sum(w)=%.12f expected %.12f | sum(w*x)=%.12f expected %.12f | predicted sum deviation %.12f"
              % (grid, grouping.name, sum(w), H, lin, (grid[-1] ** 2 - grid[0] ** 2) / 2, predicted(containers)))
