"""F-C16-numeric: calculate_L2_scalarproduct passes  opts={"epsabs": 10 ** (-15), "epsrel": 1 ** (-15)}  to nquad;
1 ** (-15) == 1, so the adaptive quadrature stops at the first estimate whose error bound is below 100 % and the
matrix built with numeric_calculation=True is not the Gram matrix.
    cd /verif/.work && /venv/bin/python /verif/notes/findings/C16_numeric_epsrel.py
"""
import numpy as np
from sparseSpACE.GridOperation import DensityEstimation
from sparseSpACE.Grid import GlobalTrapezoidalGrid

Q = 100
stripes, levels = [[0.0, 0.5, 1.0], [0.0, 0.125, 0.25, 0.5, 0.75, 1.0]], [[0, 1, 0], [0, 3, 2, 1, 2, 0]]
out = {}
for numeric in (False, True):
    grid = GlobalTrapezoidalGrid(a=np.zeros(2), b=np.ones(2), modified_basis=False, boundary=False)
    op = DensityEstimation(np.array([[0.3, 0.6]]), 2, grid=grid, numeric_calculation=numeric, print_level=Q, log_level=Q)
    grid.set_grid(stripes, levels)
    out[numeric] = op.build_R_matrix_dimension_wise(stripes, levels)
# exact entry (hats at y=0.125 and y=0.25, same x hat): (1/3) * (0.125/6)
print("R[0,1] analytic %.15f  numeric %.15f  exact %.15f" % (out[False][0, 1], out[True][0, 1], (1 / 3) * 0.125 / 6))
print("R[1,2] analytic %.15f  numeric %.15f  exact %.15f" % (out[False][1, 2], out[True][1, 2], (1 / 3) * 0.25 / 6))
print("max |numeric - analytic| = %.3g   (relative to the entry: %.3g)" % (
    np.max(np.abs(out[True] - out[False])), np.max(np.abs(out[True] - out[False]) / np.where(out[False] > 0, out[False], 1))))
print("1 ** (-15) =", 1 ** (-15))
