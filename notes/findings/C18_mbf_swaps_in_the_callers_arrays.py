"""C18 observation (unchanged tree): DataSet keeps the arrays it is constructed from (DataSet._initialize stores
np.reshape(samples) - a view - and the label array itself) and move_boundaries_to_front() swaps rows IN those arrays.

Consequences, each printed as observed vs expected:
 (a) two DataSets built over one label vector (e.g. raw features and transformed features of the same samples):
     move_boundaries_to_front() on one permutes the shared labels, the labels of the OTHER set are detached from its samples;
 (b) a read-only label array (pandas >= 3 / copy-on-write hands out read-only arrays): the sample rows are swapped, then the
     label swap raises ValueError - the call fails AND leaves the labels detached from the samples;
 (c) a read-only sample array: the call raises before anything is changed (harmless, but the operation is unusable);
 (d) the caller's own arrays are permuted behind his back.
Not part of the C18 quick tier: the check hands every DataSet a private writable buffer (ASSUMPTIONS), because the statement
speaks about the DataSet's pairs, not about who owns the buffers.  Run: /venv/bin/python C18_mbf_swaps_in_the_callers_arrays.py
"""
import numpy as np

from sparseSpACE.DEMachineLearning import DataSet


def pairs(ds):
    X, y = ds.get_data()
    return sorted(zip(X[:, 0].tolist(), y.tolist()))


def mk(X, y):
    return DataSet((X, y), print_level=100, log_level=100)


X = np.array([[1.0], [0.0], [3.0], [2.0]])
y = np.array([0, 1, 2, 3])
expected = sorted(zip(X[:, 0].tolist(), y.tolist()))

# (a) shared label vector
ya = y.copy()
a, b = mk(X.copy(), ya), mk(X.copy() * 10.0, ya)
before_b = pairs(b)
a.move_boundaries_to_front()
print("(a) by-standing set sharing the label vector: observed", pairs(b), "expected", before_b)

# (b) read-only labels
yr = y.copy()
yr.setflags(write=False)
c = mk(X.copy(), yr)
try:
    c.move_boundaries_to_front()
    print("(b) no exception")
except ValueError as exc:
    print("(b) read-only labels: ValueError(%s); pairs observed" % exc, pairs(c), "expected", expected)

# (c) read-only samples
Xr = X.copy()
Xr.setflags(write=False)
d = mk(Xr, y.copy())
try:
    d.move_boundaries_to_front()
    print("(c) no exception")
except ValueError as exc:
    print("(c) read-only samples: ValueError(%s); pairs observed" % exc, pairs(d), "expected", expected)

# (d) the caller's arrays
Xc, yc = X.copy(), y.copy()
mk(Xc, yc).move_boundaries_to_front()
print("(d) caller's arrays after the call: observed", Xc[:, 0].tolist(), yc.tolist(), "expected", X[:, 0].tolist(), y.tolist())
