"""F-C12g: GenzOszillatory.getAnalyticSolutionIntegral handles zero coefficients explicitly (zero_dims / factor_zero_dims), but
when *all* coefficients are zero np.meshgrid() (no arguments) yields no corner combination and the result is 0 instead of
cos(2*pi*offset) * volume."""
import math
from sparseSpACE.Function import GenzOszillatory

f = GenzOszillatory([0.0, 0.0], 0.1)
print("eval      :", f.eval((0.3, 0.7)), "(constant)")
print("analytic  :", f.getAnalyticSolutionIntegral([0, 0], [1, 2]))
print("expected  :", math.cos(2 * math.pi * 0.1) * 2)
print("one zero coefficient is fine:", GenzOszillatory([0.0, 1.0], 0.1).getAnalyticSolutionIntegral([0, 0], [2, 1]),
      "=", 2 * (math.sin(2 * math.pi * 0.1 + 1) - math.sin(2 * math.pi * 0.1)))
