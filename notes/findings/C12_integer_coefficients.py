"""F-C12j / F-C12k: integer-typed coefficients (a list of Python ints or an int ndarray) make GenzProductPeak unusable and
GenzCornerPeak's analytic integral fail for an integer-typed box: numpy refuses integer ** negative integer."""
import numpy as np
from sparseSpACE.Function import GenzProductPeak, GenzCornerPeak


def attempt(label, fn):
    try:
        print(label, "->", fn())
    except Exception as e:
        print(label, "raises", type(e).__name__ + ":", e)


attempt("GenzProductPeak([1, 2], [0.5, 0.5])((0.1, 0.1))        ", lambda: GenzProductPeak([1, 2], [0.5, 0.5])((0.1, 0.1)))
attempt("GenzProductPeak([1, 2], [0.5, 0.5])([(0.1, 0.1)])      ", lambda: GenzProductPeak([1, 2], [0.5, 0.5])([(0.1, 0.1)]))
attempt("GenzProductPeak([1., 2.], [0.5, 0.5])((0.1, 0.1))      ", lambda: GenzProductPeak([1., 2.], [0.5, 0.5])((0.1, 0.1)))
attempt("GenzCornerPeak([1, 2]).integral([0, 0], [1, 1])        ", lambda: GenzCornerPeak([1, 2]).getAnalyticSolutionIntegral([0, 0], [1, 1]))
attempt("GenzCornerPeak(np.array([1, 2])).integral(int arrays)  ",
        lambda: GenzCornerPeak(np.array([1, 2])).getAnalyticSolutionIntegral(np.array([0, 0]), np.array([1, 1])))
attempt("GenzCornerPeak([1, 2]).integral([0., 0.], [1., 1.])    ", lambda: GenzCornerPeak([1, 2]).getAnalyticSolutionIntegral([0., 0.], [1., 1.]))
