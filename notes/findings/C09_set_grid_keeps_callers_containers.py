"""C09 / argument aliasing: GlobalGrid.set_grid keeps references to the caller's point containers - sometimes.

Run:  cd /verif/.work && /venv/bin/python /verif/notes/findings/C09_set_grid_keeps_callers_containers.py

set_grid stores `coordsD = grid_points[d]` (or the slice [1:-1]) and finally `np.asarray(self.coordinate_array,
dtype=object)`.  For d=1, or when all dimensions have the same number of points, that conversion builds a 2D object
array, i.e. a copy.  For d>=2 with different point counts it builds a 1D object array whose entries ARE the caller's
lists / ndarrays (with boundary=False: list slices are copies, ndarray slices are views of the caller's array).
If the caller goes on using its containers (fills the same buffer with the next stripe), the grid it configured
before silently evaluates the integrand at the new positions with the old weights.
"""
import numpy as np
from sparseSpACE.Grid import GlobalTrapezoidalGrid
from sparseSpACE.Function import FunctionCustom

f = FunctionCustom(lambda t: float(t[0]) + float(t[1]))
for name, p2, l2 in (("equal point counts  ", [0.0, 0.25, 0.5, 1.0], [0, 2, 1, 0]), ("unequal point counts", [0.0, 0.5, 1.0], [0, 1, 0])):
    for kind in ("list", "ndarray"):
        P = [[0.0, 0.25, 0.5, 1.0], list(p2)]
        if kind == "ndarray":
            P = [np.array(x) for x in P]
        g = GlobalTrapezoidalGrid([0.0, 0.0], [1.0, 1.0], boundary=True)
        g.set_grid(P, [[0, 2, 1, 0], l2])
        before = g.integrate(f, [2, 2], [0.0, 0.0], [1.0, 1.0])[0]
        P[0][1] = 0.9                       # the caller re-uses its own container
        after = g.integrate(f, [2, 2], [0.0, 0.0], [1.0, 1.0])[0]
        print("%s %-8s integral of x+y before %r / after the caller wrote into its container %r   (exact 1.0)  %s"
              % (name, kind, before, after, "" if before == after else "<-- grid changed"))
