"""F-C16-reuse-boundary: DensityEstimation.calculate_B_dimension_wise with reuse_old_values=True and
GlobalTrapezoidalGrid(boundary=True) on a component grid with >= 200 basis functions, from the second evaluation on:
the entries of b that are copied from the old right-hand side come from the wrong hat.
  (1) old_point_list drops every old grid point that has a coordinate 0.0 or 1.0 although, with boundary points, old_b has
      an entry for them -> the index found in the filtered list addresses a different entry of old_b (1-D: shift by one);
  (2) old and new hats are matched by their domain only; with boundary points the half hat at 0 with domain (0, h) and the
      interior hat at h/2 of a finer old grid with domain (0, h) are different functions with the same domain.
Run from a scratch directory (the library writes log_sg into the cwd):
    cd /verif/.work && /venv/bin/python /verif/notes/findings/C16_reuse_boundary.py
"""
import numpy as np
from sparseSpACE.GridOperation import DensityEstimation
from sparseSpACE.Grid import GlobalTrapezoidalGrid

Q = 100


class Container(object):
    value = np.zeros(1)


def hat(c, lo, hi, x):
    if x == c:
        return 1.0
    if x < c:
        return 0.0 if (x <= lo or lo == c) else (x - lo) / (c - lo)
    return 0.0 if (x >= hi or hi == c) else (hi - x) / (hi - c)


def b_from_definition(stripes, data):
    """b_i = mean_j prod_d hat_i,d(x_j,d), all grid points including the domain boundary, first dimension slowest"""
    A = np.ones((len(data), 1))
    for d, s in enumerate(stripes):
        Ad = np.array([[hat(s[i], s[max(i - 1, 0)], s[min(i + 1, len(s) - 1)], x) for i in range(len(s))] for x in data[:, d]])
        A = (A[:, :, None] * Ad[:, None, :]).reshape(len(data), -1)
    return A.mean(axis=0)


def two_evaluations(data, old_stripes, new_stripes):
    dim = data.shape[1]
    a, b = np.zeros(dim), np.ones(dim)
    grid = GlobalTrapezoidalGrid(a=a, b=b, modified_basis=False, boundary=True)
    op = DensityEstimation(data.copy(), dim, grid=grid, reuse_old_values=True, print_level=Q, log_level=Q)
    op.init_dimension_wise(grid, grid, Container(), [1] * dim, [5] * dim, a, b)
    op.initialize_evaluation_dimension_wise(Container())
    op.surpluses = {(1,) * dim: np.zeros(1)}                       # post_processing() only needs something to look at
    lev = lambda S: [[0] * len(s) for s in S]
    b0 = op.calculate_B_dimension_wise(op.data, old_stripes, lev(old_stripes))
    op.post_processing()                                           # end of the first evaluation: new_B -> old_B
    b1 = op.calculate_B_dimension_wise(op.data, new_stripes, lev(new_stripes))
    return b0, b1


rng = np.random.default_rng(0)
print("(1) 1-D, old grid 257 uniform points, new grid = old grid + one point")
data = rng.random((100, 1))
old = [[i / 256 for i in range(257)]]
new = [sorted(old[0] + [1 / 512])]
b0, b1 = two_evaluations(data, old, new)
ref0, ref1 = b_from_definition(old, data), b_from_definition(new, data)
print("    first evaluation : max|b - b_ref| = %.3g" % np.max(np.abs(b0 - ref0)))
print("    second evaluation: max|b - b_ref| = %.3g, %d of %d entries differ, sum(b) = %.6f (expected %.6f)"
      % (np.max(np.abs(b1 - ref1)), int(np.sum(np.abs(b1 - ref1) > 1e-12)), len(b1), b1.sum(), ref1.sum()))
i = int(np.argmax(np.abs(b1 - ref1)))
print("    e.g. entry %d (grid point %s): observed %.6f expected %.6f" % (i, new[0][i], b1[i], ref1[i]))

print("(2) 2-D, old grid 17 x 17 uniform points, new grid 13 x 17 points (a coarser component grid of the same scheme);")
print("    with only the filter of (1) corrected the entries of the hats at x_0 = 0 and x_0 = 1 stay wrong")
data = np.vstack([[[0.0, 0.0], [0.01, 0.3], [0.02, 0.5], [1.0, 0.5]], rng.random((100, 2))])
old = [[i / 16 for i in range(17)], [i / 16 for i in range(17)]]
new = [[0.0, 0.125, 0.1875, 0.25, 0.375, 0.4375, 0.5, 0.625, 0.6875, 0.75, 0.875, 0.9375, 1.0], [i / 16 for i in range(17)]]
b0, b1 = two_evaluations(data, old, new)
ref1 = b_from_definition(new, data)
print("    second evaluation: max|b - b_ref| = %.3g, %d of %d entries differ, sum(b) = %.6f (expected %.6f)"
      % (np.max(np.abs(b1 - ref1)), int(np.sum(np.abs(b1 - ref1) > 1e-12)), len(b1), b1.sum(), ref1.sum()))
