"""Observation (not registered as a violation): calculate_R_value_analytically evaluates antiderivatives with terms of
size m^2 x^3 (m = 1/h) and subtracts them, so the analytic Gram entries lose digits like 0.4e-16/h^2 absolutely, i.e.
~1e-16/h^3 relative to the entry h/6: 1e-3 relative error for intervals of width 2^-14 (reached by a 1-D adaptive run with
~100 points).  The closed forms h/6 and (h_left + h_right)/3 are exact (see C16_analytic_precision.diff).
    cd /verif/.work && /venv/bin/python /verif/notes/findings/C16_analytic_precision.py
"""
import numpy as np
from sparseSpACE.GridOperation import DensityEstimation
from sparseSpACE.Grid import GlobalTrapezoidalGrid

Q = 100
for depth in (4, 6, 8, 10, 12, 14):
    pts, lo, hi = [0.0, 0.5, 1.0], 0.5, 1.0
    for k in range(depth - 1):                      # refine towards 1.0
        lo = (lo + hi) / 2
        pts.append(lo)
    pts = sorted(pts)
    grid = GlobalTrapezoidalGrid(a=np.zeros(1), b=np.ones(1), modified_basis=False, boundary=False)
    op = DensityEstimation(np.array([[0.3]]), 1, grid=grid, print_level=Q, log_level=Q)
    R = op.build_R_matrix_dimension_wise([pts], [[0] * len(pts)])
    x = np.array(pts)
    h = np.diff(x)
    G = np.diag((h[:-1] + h[1:]) / 3) + np.diag(h[1:-1] / 6, 1) + np.diag(h[1:-1] / 6, -1)
    print("smallest interval 2^-%-2d  max|R - G| = %.3g   max entrywise relative error = %.3g"
          % (depth, np.max(np.abs(R - G)), np.max(np.abs(R - G) / np.where(G > 0, G, 1))))
