"""F-C20h: a regression data set with a target value below -1 cannot be constructed.

Run:  cd /var/tmp && /venv/bin/python /verif/notes/findings/C20_targets_below_minus_one.py

Regression.scale_data wraps (data, targets) in DataSetRegression; the inherited DataSet._initialize validates the second
array as class labels: `not any([x < -1 for x in set(raw_data[1])])` (DEMachineLearning.py 166), else
ValueError("Invalid raw_data parameter in DataSet Constructor.").  Targets are real numbers; -1 <= y passes (the
tutorial data sets all have y >= 0), anything below -1 is rejected.
"""
import contextlib, io
import numpy as np
from sparseSpACE.GridOperation import Regression

X = np.array([[0.1], [0.3], [0.5], [0.7], [0.9]])
for y in ([0., 0., 0., 0., -1.0], [0., 0., 0., 0., -1.25]):
    try:
        with contextlib.redirect_stdout(io.StringIO()):
            Regression(X, np.array(y), 0.1, 'C')
        print("targets", y, "-> constructed")
    except ValueError as e:
        print("targets", y, "-> ValueError:", e)
