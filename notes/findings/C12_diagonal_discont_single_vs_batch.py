"""F-C12h: FunctionDiagonalDiscont returns different values for the same point passed singly and as a batch.
eval() decides with the builtin sum(coordinates) < 1.  Since Python 3.12 sum() is compensated for sequences of exact
floats (the tuple of the single-point path) but not for numpy scalars (the ndarray rows the generic eval_vectorized of the
batch path hands to eval), so for points on the discontinuity surface the two paths round differently."""
import sys
import numpy as np
from sparseSpACE.Function import FunctionDiagonalDiscont

p = (0.2, 0.7, 0.1)
print(sys.version.split()[0], " sum(tuple) =", repr(sum(p)), " sum(ndarray row) =", repr(sum(np.array(p))))
print("single  f(p)   =", FunctionDiagonalDiscont()(p))            # [0.]
print("batch   f([p]) =", FunctionDiagonalDiscont()([p]))          # [[1.]]
f = FunctionDiagonalDiscont()
f([p])
print("single after the batch (cached batch value) =", f(p), " -> depends on the call history")
