"""F-C08-a  TrapezoidalGrid(boundary=False): at level 0, on a sub-interval that touches the global boundary on exactly
one side, the grid does not return "the boundary-on points minus the point on the global boundary" (the remaining
corner, weight length/2) but the mid point of the sub-interval with weight = length.

run:  cd /verif/.work && /venv/bin/python /verif/notes/findings/C08_trapezoidal_level0_midpoint.py
"""
import numpy as np
from sparseSpACE.Grid import TrapezoidalGrid

a, b = np.array([0.0]), np.array([1.0])
for start, end in (([0.0], [0.5]), ([0.5], [1.0])):
    for level in (0, 1):
        res = {}
        for boundary in (True, False):
            g = TrapezoidalGrid(a, b, boundary=boundary)
            g.setCurrentArea(np.array(start), np.array(end), [level])
            p, w = g.get_points_and_weights()
            res[boundary] = [(float(x[0]), float(v)) for x, v in zip(p, w)]
        expected = [(x, v) for x, v in res[True] if x not in (a[0], b[0])]
        print("area [%s,%s] level %d" % (start[0], end[0], level))
        print("   boundary=True  (point, weight):", res[True])
        print("   boundary=False (point, weight):", res[False])
        print("   expected for boundary=False   :", expected, "" if expected == res[False] else "  <-- DIFFERS")
