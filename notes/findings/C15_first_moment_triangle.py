"""F-C15b: the first moments of UQDistribution come from ONE 21-point Gauss-Kronrod pass over x*pdf(x)
(quad(epsrel=1e-2, epsabs=inf) accepts the first estimate). Across the kink of a Triangle density the error is
proportional to |x|, so for |a|/(b-a) >= ~200 the trapezoidal weight (m1 - m0*x1)/(x2-x1) leaves [0, m0] and
compute_weights raises AssertionError('calculated negative weight'); for smaller offsets the weights are silently wrong.

run: cd /var/tmp && MPLBACKEND=Agg /venv/bin/python /verif/notes/findings/C15_first_moment_triangle.py
"""
import contextlib, io
import numpy as np
from sparseSpACE.Function import FunctionCustom
from sparseSpACE.GridOperation import UncertaintyQuantification
from sparseSpACE.Grid import GlobalTrapezoidalGridWeighted

f = FunctionCustom(lambda x: 1.0)


def exact(a, mid, b, pts):
    """weights from exact moments of the triangle density (piecewise linear pdf)"""
    L = b - a
    pdf = lambda x: 2 * (x - a) / (L * (mid - a)) if x <= mid else 2 * (b - x) / (L * (b - mid))

    def piece(y1, y2, x1):      # int_{y1}^{y2} (1, x - x1) * pdf, pdf linear on [y1, y2]
        h, p1, p2 = y2 - y1, pdf(y1), pdf(y2)
        m0 = 0.5 * h * (p1 + p2)
        m1 = p1 * h * h / 2 + (p2 - p1) * h * h / 3 + (y1 - x1) * m0
        return m0, m1
    w = np.zeros(len(pts))
    for i in range(len(pts) - 1):
        x1, x2 = pts[i], pts[i + 1]
        cuts = [x1] + ([mid] if x1 < mid < x2 else []) + [x2]
        m0 = m1 = 0.0
        for y1, y2 in zip(cuts, cuts[1:]):
            q0, q1 = piece(y1, y2, x1)
            m0, m1 = m0 + q0, m1 + q1
        w[i] += m0 - m1 / (x2 - x1)
        w[i + 1] += m1 / (x2 - x1)
    return w


for off in (0.0, 20.0, 2000.0):
    a, mid, b = off, off + 0.25, off + 1.0
    pts = [a, off + 0.3876275643042, b]
    op = UncertaintyQuantification(f, [("Triangle", mid)], np.array([a]), np.array([b]), print_level=100, log_level=100)
    grid = GlobalTrapezoidalGridWeighted(np.array([a]), np.array([b]), op, boundary=True)
    try:
        with contextlib.redirect_stdout(io.StringIO()):
            grid.set_grid([pts], [[0, 1, 0]])
        got = [float(x) for x in grid.weights[0]]
    except AssertionError as e:
        got = "AssertionError: %s" % e
    print("Triangle(%g, %g, %g) grid %s" % (a, mid, b, pts))
    print("   library :", got)
    print("   exact   :", [float(x) for x in exact(a, mid, b, pts)])

# the same defect in a plain adaptive run at a moderate offset: Triangle(10, 10.01, 10.5), lmin=2, lmax=4
from sparseSpACE.spatiallyAdaptiveSingleDimension2 import SpatiallyAdaptiveSingleDimensions2
from sparseSpACE.ErrorCalculator import ErrorCalculatorSingleDimVolumeGuided
import math
a, b = np.array([10.0]), np.array([10.5])
model = FunctionCustom(lambda x: [math.sin(x[0])], output_dim=1)
op = UncertaintyQuantification(model, [("Triangle", 10.01)], a, b, print_level=100, log_level=100)
grid = GlobalTrapezoidalGridWeighted(a, b, op, boundary=False)
op.set_grid(grid)
op.set_expectation_variance_Function()
sa = SpatiallyAdaptiveSingleDimensions2(a, b, operation=op, norm=2, grid_surplusses=op.get_grid(), print_level=100, log_level=100)
try:
    with contextlib.redirect_stdout(io.StringIO()):
        sa.performSpatiallyAdaptiv(2, 4, ErrorCalculatorSingleDimVolumeGuided(), tol=0, max_evaluations=40, print_output=False)
    print("adaptive run Triangle(10, 10.01, 10.5): E, Var =", op.calculate_expectation_and_variance(sa))
except AssertionError as e:
    print("adaptive run Triangle(10, 10.01, 10.5), performSpatiallyAdaptiv(2, 4): AssertionError:", e)
