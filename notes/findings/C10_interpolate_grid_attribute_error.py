"""C10 finding F-C10-a: BasisGrid.interpolate_grid / GlobalBasisGrid.interpolate_grid always raise AttributeError.

Both methods read `self.splines[d]`, an attribute neither class has (the 1D basis functions live in
`self.grids[d].splines` for the local grids and in `self.basis[d]` for the global grids).  The global variant is what
SpatiallyAdaptiveSingleDimensions2.interpolate_grid_component -> StandardCombi.interpolate_grid (plotting of the
interpolant) calls for GlobalLagrangeGrid / GlobalBSplineGrid.
Behind the AttributeError there is a second defect: the loop `for j in range(np.shape(surplusses)[0]):
intermediate_result *= ...` multiplies the whole surplus vector once per output component, i.e. basis value ** output_length
(wrong for vector-valued functions).  The proposed patch (C10_interpolate_grid_attribute_error.diff) repairs both.

run: cd /tmp && MPLBACKEND=Agg /venv/bin/python /verif/notes/findings/C10_interpolate_grid_attribute_error.py
"""
import numpy as np
from sparseSpACE.Grid import GlobalLagrangeGrid, LagrangeGrid
from sparseSpACE.Function import FunctionLinear
from sparseSpACE.ComponentGridInfo import ComponentGridInfo

f = FunctionLinear([1.0, 2.0])
pts = [[0.0, 0.25, 0.5, 1.0], [0.0, 0.5, 1.0]]
lev = [[0, 2, 1, 0], [0, 1, 0]]
g = GlobalLagrangeGrid([0.0, 0.0], [1.0, 1.0], boundary=True, p=2)
g.set_grid(pts, lev)
g.integrate(f, [2, 1], [0.0, 0.0], [1.0, 1.0])
cg = ComponentGridInfo([2, 1], 1)
print("interpolate at the 12 grid points  :", g.interpolate([(x, y) for x in pts[0] for y in pts[1]], cg).ravel())
print("expected f = (1*x)*(2*y)            :", np.array([f((x, y))[0] for x in pts[0] for y in pts[1]]))
try:
    print("interpolate_grid                   :", g.interpolate_grid(pts, cg).ravel())
except AttributeError as e:
    print("GlobalLagrangeGrid.interpolate_grid: AttributeError:", e, "  (expected: the same 12 values)")

gl = LagrangeGrid(np.array([0.0, 0.0]), np.array([1.0, 1.0]), boundary=True, p=2)
s, e_, lv = np.array([0.0, 0.0]), np.array([1.0, 1.0]), [2, 1]
gl.integrate(f, lv, s, e_)
try:
    print(gl.interpolate_grid([list(c) for c in gl.coordinate_array], s, e_, lv).ravel())
except AttributeError as e:
    print("LagrangeGrid.interpolate_grid      : AttributeError:", e, "  (expected: 2xy on the 5x3 grid)")
