"""F-C11b: ExtrapolationGrid.set_grid / BalancedExtrapolationGrid.set_grid keep the caller's lists by reference.

Run:  cd /tmp && /venv/bin/python /verif/notes/findings/C11_set_grid_keeps_callers_list.py

Both set_grid methods do `self.grid = grid; self.grid_levels = grid_levels`.  The slices / tree nodes copy the
coordinates, so ExtrapolationGrid.get_weights() is fixed once set_grid returned, but three public answers are later
read from the stored list, i.e. from whatever the caller's list contains at that moment:

  * ExtrapolationGrid.integrate(f): `value += self.weights[i] * f(self.grid[i])` and
    `assert len(self.weights) == len(self.grid)`,
  * ExtrapolationGrid.get_grid() / get_grid_levels() (the list the weights are supposed to belong to),
  * BalancedExtrapolationGrid.get_weights(): `for grid_point in self.grid: weights.append(table[-1][-1][grid_point])`
    (a defaultdict: unknown points get weight 0).

A caller that keeps one pair of work lists (inserts the next refinement point in place, or refills the buffers for
the next grid object) therefore changes the answers of the earlier object.  With
force_balanced_refinement_tree=True ExtrapolationGrid stores the library's own list and is not affected.

Proposed fix (notes/findings/C11_set_grid_keeps_callers_list.diff): store `list(grid)` / `list(grid_levels)`.
"""
import contextlib
import io

from sparseSpACE.Extrapolation import ExtrapolationGrid, BalancedExtrapolationGrid
from sparseSpACE.Function import Polynomial1d

f = Polynomial1d([1, 2])            # 1 + 2x, integral over [0,1] = 2

# --- ExtrapolationGrid: the adaptive driver inserts the next point into ITS list --------------------------------
grid, levels = [0.0, 0.5, 0.625, 0.75, 1.0], [0, 1, 3, 2, 0]
eg = ExtrapolationGrid()
eg.set_grid(grid, levels)
w = eg.get_weights()
print("ExtrapolationGrid: sum(w) = %r, integrate(1+2x) = %r (expected 1.0, 2.0)" % (sum(w), eg.integrate(f)))

eg = ExtrapolationGrid()
eg.set_grid(grid, levels)
grid.insert(1, 0.25)                # caller's own list: next refinement point
levels.insert(1, 2)
print("after the caller inserted 0.25 into its list: get_weights() still has %d weights, sum %r (fine)" % (len(eg.get_weights()), sum(eg.get_weights())))
print("   get_grid() now returns %s  (is the caller's list: %s) -> %d points for %d weights"
      % (eg.get_grid(), eg.get_grid() is grid, len(eg.get_grid()), len(eg.get_weights())))
try:
    print("   integrate(1+2x) =", eg.integrate(f))
except AssertionError as e:
    print("   integrate(1+2x) raises AssertionError: %s   (expected 2.0)" % e)

# --- the caller refills one buffer (same length) for the next grid object ------------------------------------------
grid, levels = [0.0, 0.5, 0.625, 0.75, 1.0], [0, 1, 3, 2, 0]
eg = ExtrapolationGrid()
eg.set_grid(grid, levels)
grid[:] = [0.0, 0.25, 0.375, 0.5, 1.0]
levels[:] = [0, 2, 3, 1, 0]
print("after the caller refilled its buffer with another 5-point grid: integrate(1+2x) = %r (expected 2.0)" % eg.integrate(f))

# --- BalancedExtrapolationGrid.get_weights iterates over the caller's list --------------------------------------------
grid, levels = [0.0, 0.25, 0.5, 0.75, 1.0], [0, 2, 1, 2, 0]
bg = BalancedExtrapolationGrid()
bg.set_grid(grid, levels)
print("BalancedExtrapolationGrid: weights %s sum %r" % ([float(x) for x in bg.get_weights()], float(sum(bg.get_weights()))))
grid.insert(1, 0.125)
levels.insert(1, 3)
wb = [float(x) for x in bg.get_weights()]
print("after the caller inserted 0.125 into its list: %d weights %s (expected the 5 weights above)" % (len(wb), wb))
del grid[1:4]
wb = [float(x) for x in bg.get_weights()]
print("after the caller removed three points from its list: %d weights %s, sum %r (expected 1.0)" % (len(wb), wb, sum(wb)))
