"""F-C08-b  BSplineGrid(boundary=False) is unusable on every sub-box that has an end which is not on the global
boundary: that end point is returned as a grid point (and counted by levelToNumPoints) but it has weight 0.0 and no
basis function (BSplineGrid1D.compute_1D_quad_weights starts at level 1 when boundary is off, so the two level-0
functions are never built, although only the ones on the *global* boundary may be dropped).  integrate() then raises
TypeError: 'NoneType' object is not callable.  On an interior sub-box, where the flag should make no difference,
boundary=True integrates constants exactly.

run:  cd /verif/.work && /venv/bin/python /verif/notes/findings/C08_bspline_boundary_off_subbox.py
"""
import numpy as np
from sparseSpACE.Grid import BSplineGrid
from sparseSpACE.Function import FunctionCustom

a, b = np.array([0.0]), np.array([1.0])
one = FunctionCustom(lambda x: 1.0)
for start, end in (([0.25], [0.5]), ([0.0], [0.5])):
    for boundary in (True, False):
        g = BSplineGrid(a, b, boundary=boundary, p=3)
        s, e = np.array(start), np.array(end)
        g.setCurrentArea(s, e, [1])
        p, w = g.get_points_and_weights()
        print("area [%s,%s] level 1 boundary=%s: points %s weights %s basis %s" % (
            start[0], end[0], boundary, [float(x[0]) for x in p], np.asarray(w).tolist(),
            [type(g.get_basis(0, i)).__name__ for i in range(len(p))]))
        try:
            print("     integrate(1) =", g.integrate(one, [1], s, e), " expected (boundary on or interior box):", e[0] - s[0])
        except Exception as ex:
            print("     integrate(1) raises %s: %s" % (type(ex).__name__, ex))
