"""C09 observations outside the asserted domain (NOT counted as violations by checks/c09.py).

Run:  cd /verif/.work && /venv/bin/python /verif/notes/findings/C09_hierarchical_boundary_off_observations.py

1. GlobalLagrangeGrid(boundary=False, modified_basis=True): set_grid raises IndexError on every grid (the level-1 knot
   list is [midpoint] only and LagrangeBasisRestrictedModified reads knots[index + 1]). No caller in the repository
   constructs this combination.
2. GlobalLagrangeGrid(boundary=False) (unmodified; GlobalLagrangeGridWeighted(boundary=False) is used by
   UQ/PredatorPrey/AllStepsCalculateErrors.py): the level-1 basis function is supported on the single point
   [midpoint, midpoint], its weight is 0, so on the 3-point grid every function integrates to 0.
3. GlobalBSplineGrid(boundary=False, modified_basis=True): constants are exact on every tree (asserted by the check);
   linear functions are exact only for p in {1,3} when both level-2 points exist (p=1: dyadic trees only), and
   hardly ever for p=5.
"""
import numpy as np
from sparseSpACE.Grid import GlobalLagrangeGrid, GlobalBSplineGrid
from sparseSpACE.Function import FunctionCustom

pts, lev = [2.0, 2.25, 2.5], [0, 1, 0]
try:
    g = GlobalLagrangeGrid([2.0], [2.5], boundary=False, modified_basis=True, p=2)
    g.set_grid([pts], [lev])
    print("1. no exception")
except IndexError as e:
    print("1. GlobalLagrangeGrid(boundary=False, modified_basis=True).set_grid(%s, %s) -> IndexError: %s" % (pts, lev, e))

g = GlobalLagrangeGrid([2.0], [2.5], boundary=False, p=2)
g.set_grid([pts], [lev])
print("2. GlobalLagrangeGrid(boundary=False) on %s: weights %s, integral of 1 = %s (b-a = 0.5)"
      % (pts, list(g.weights[0]), g.integrate(FunctionCustom(lambda t: 1.0), [1], [2.0], [2.5])))

pts, lev = [0.0, 0.125, 0.25, 0.5, 0.75, 1.0], [0, 3, 2, 1, 2, 0]
for p in (1, 3, 5):
    g = GlobalBSplineGrid([0.0], [1.0], boundary=False, modified_basis=True, p=p)
    g.set_grid([pts], [lev])
    i0 = g.integrate(FunctionCustom(lambda t: 1.0), [3], [0.0], [1.0])[0]
    i1 = g.integrate(FunctionCustom(lambda t: float(t[0])), [3], [0.0], [1.0])[0]
    print("3. GlobalBSplineGrid(boundary=False, modified, p=%d) on %s: int 1 = %.15g (1), int x = %.15g (0.5)" % (p, pts, i0, i1))
