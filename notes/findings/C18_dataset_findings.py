"""C18 -- minimal reproductions of the DataSet defects seen by checks/c18.py on the unchanged tree.
Run:  cd /tmp && MPLBACKEND=Agg /venv/bin/python /verif/notes/findings/C18_dataset_findings.py
Each block prints observed vs expected.
"""
import numpy as np
from sparseSpACE.DEMachineLearning import DataSet


def mk(X, y):
    return DataSet((np.array(X, dtype=float), np.array(y, dtype=np.int64)), print_level=100, log_level=100)


print("F-C18-a  revert_scaling() of a piece that lacks the parent's minimum sample")
ds = mk([[0], [1], [2], [3]], [0, 1, 0, 1])
ds.scale_range((0, 1))
a, b = ds.split_pieces(0.5)
b.revert_scaling()
print("   observed", b[0].ravel().tolist(), " expected [2.0, 3.0]")

print("F-C18-b  _scaling_factor ndarray shared with derived sets / copies and updated in place")
ds = mk([[0], [1], [2], [3]], [0, 1, 0, 1])
ds.scale_range((0, 1))
c = ds.copy()
ds.scale_factor(2.0)
print("   copy's factor after ds.scale_factor(2.0): observed", c.get_scaling_factor(), " expected [0.333...]")
c.revert_scaling()
print("   copy reverted: observed", c[0].ravel().tolist(), " expected [0.0, 1.0, 2.0, 3.0]")

print("F-C18-c  concatenate never refuses different scalings (compares self with the result it just built)")
a = mk([[0], [1], [2]], [0, 1, 0])
b = mk([[10], [14]], [1, 1])
a.scale_range((0, 1))
for x, y, t in ((a, b, "scaled+unscaled"), (b, a, "unscaled+scaled")):
    try:
        r = x.concatenate(y)
        print("   %s: accepted, samples %s, is_scaled=%s   expected ValueError" % (t, r[0].ravel().tolist(), r.is_scaled()))
    except ValueError as e:
        print("   %s: refused (%s)" % (t, e))
print("   a.same_scaling(b) =", a.same_scaling(b))

print("F-C18-d  same range and factor, different original min/max: accepted, cannot be reverted")
a = mk([[0], [1], [2]], [0, 1, 0])
b = mk([[10], [11], [12]], [1, 1, 0])
a.scale_range((0, 1))
b.scale_range((0, 1))
r = a.concatenate(b)
r.revert_scaling()
print("   observed after revert", r[0].ravel().tolist(), " expected [0,1,2,10,11,12] (or a refusal)")

print("F-C18-e  same_scaling indexes an array-valued range with [1]: IndexError for 1-D data after shift_value/scale_factor")
ds = mk([[0], [1], [2]], [0, 1, 0])
ds.shift_value(1.0)
for name, f in (("ds.concatenate(ds)", lambda: ds.concatenate(ds)), ("ds.remove_samples([0, 1])", lambda: ds.remove_samples([0, 1]))):
    try:
        f()
        print("   %s worked" % name)
    except IndexError as e:
        print("   %s -> IndexError: %s   expected: works" % (name, e))

print("F-C18-f  copy() shares the label array; scale_factor keeps it; move_boundaries_to_front then permutes the copy's labels only")
ds = mk([[0.0], [0.25], [-0.25], [0.5], [-0.5], [0.75]], [10, 11, 12, 13, 14, 15])
c = ds.copy()
ds.scale_factor(2.0)
ds.move_boundaries_to_front()
print("   copy observed", list(zip(c[0].ravel().tolist(), c[1].tolist())))
print("   copy expected", list(zip([0.0, 0.25, -0.25, 0.5, -0.5, 0.75], [10, 11, 12, 13, 14, 15])))

print("F-C18-g  failing call on an emptied DataSet modifies it; concatenate then fails")
ds = mk([[0.0, 1.0]], [0])
ds.scale_range((0, 1))
removed = ds.remove_samples([0])
print("   before: shape", ds[0].shape, "original_min", ds.get_original_min())
try:
    ds.scale_factor(2.0, override_scaling=True)
except ValueError as e:
    print("   scale_factor raised:", e)
print("   after : shape", ds[0].shape, "original_min", ds.get_original_min(), "  expected: unchanged")
try:
    ds.concatenate(removed)
    print("   concatenate worked")
except ValueError as e:
    print("   concatenate(ds, removed) ->", str(e)[:80], "  expected: the removed sample back")
