"""F-C17 — DensityEstimation.find_data_in_domain drops the sample with the largest coordinate of a dimension.

The reuse path of calculate_B_dimension_wise (reuse_old_values=True, grid with >= 200 points, second or later
evaluation) collects the samples inside the support of a hat with find_data_in_domain.  Its slice end
`min(upper + 1, len(sorted_data[d]) - 1)` is exclusive, so when the sample with the largest coordinate of
dimension d lies inside the support (upper == len-1) it is cut off.  The right-hand side, the surpluses and the
density then differ from the run with reuse switched off.

Run:  cd /var/tmp && MPLBACKEND=Agg /venv/bin/python /verif/notes/findings/C17_reuse_drops_max_sample.py
"""
import contextlib
import io

import numpy as np

from sparseSpACE.GridOperation import DensityEstimation
from sparseSpACE.Grid import GlobalTrapezoidalGrid
from sparseSpACE.spatiallyAdaptiveSingleDimension2 import SpatiallyAdaptiveSingleDimensions2
from sparseSpACE.ErrorCalculator import ErrorCalculatorSingleDimVolumeGuided

# --- 1. the function itself: three samples, ask for everything in the unit square -----------------------------
data = np.array([[0.2, 0.3], [0.5, 0.9], [0.8, 0.6]])
op = DensityEstimation(data, 2, reuse_old_values=True, pre_scaled_data=True, print_level=100, log_level=100)
op.sorted_data = [np.argsort(data[:, d]) for d in range(2)]          # as initialize_evaluation_dimension_wise does
got = sorted(int(i) for i in op.find_data_in_domain([(0.1, 0.95), (0.1, 0.95)]))
print("find_data_in_domain([(0.1,0.95)]*2): observed %s   expected [0, 1, 2]" % got)

# --- 2. end to end: same data, same (library-estimated) refinement, reuse off vs on ----------------------------
rng = np.random.default_rng(0)
data = rng.uniform(0.02, 0.98, size=(40, 2))


def run(reuse):
    a, b = np.zeros(2), np.ones(2)
    grid = GlobalTrapezoidalGrid(a=a, b=b, modified_basis=False, boundary=False)
    op = DensityEstimation(data.copy(), 2, grid=grid, lambd=0.01, reuse_old_values=reuse, pre_scaled_data=True,
                           print_level=100, log_level=100)
    sa = SpatiallyAdaptiveSingleDimensions2(a, b, operation=op, margin=0.5, rebalancing=False, print_level=100,
                                            log_level=100)
    snaps = []
    orig = sa.evaluate_operation

    def hook():
        r = orig()
        snaps.append({tuple(c.levelvector): np.array(op.surpluses[tuple(c.levelvector)]) for c in sa.scheme})
        return r
    sa.evaluate_operation = hook
    with contextlib.redirect_stdout(io.StringIO()):
        sa.performSpatiallyAdaptiv(2, 5, ErrorCalculatorSingleDimVolumeGuided(), 0.0, max_evaluations=700,
                                   print_output=False)
    return snaps


off, on = run(False), run(True)
for k, (x, y) in enumerate(zip(off, on)):
    same = set(x) == set(y) and all(x[l].shape == y[l].shape for l in x)
    d = max(float(np.max(np.abs(x[l] - y[l]))) for l in x) if same else float("nan")
    print("evaluation %d: grids %s  max |surplus(reuse off) - surplus(reuse on)| = %.3e   expected <= 1e-9"
          % (k, sorted(len(v) for v in x.values()), d))
