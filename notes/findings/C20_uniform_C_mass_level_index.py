"""F-C20b: Regression.build_C_matrix uses levelvec[k] instead of levelvec[m] in the mass factors.

Run:  cd /var/tmp && /venv/bin/python /verif/notes/findings/C20_uniform_C_mass_level_index.py

C = sum_k kron_m (Stiff_k if m == k else Mass_m) is the Gram matrix of the gradients of the d-linear hats.  For h_m = 2^-l_m:
Stiff = tridiag(-1/h, 2/h, -1/h), Mass = tridiag(h/6, 2h/3, h/6).  In the loop over the stiffness dimension k the
code computes the mass entries of dimension m as 1/(2**(levelvec[k]-1)*3) and 1/(2**(levelvec[k]-1)*12), i.e. with the
mesh width of dimension k (GridOperation.py lines 2928, 2935).  Wrong on every anisotropic level vector.
The repository's own test test_calculate_C_matrix pins the wrong numbers (2.66666667, -0.3333).
"""
import contextlib, io
import numpy as np
from sparseSpACE.GridOperation import Regression

with contextlib.redirect_stdout(io.StringIO()):
    r = Regression(np.array([[0.3, 0.3]]), np.array([1.0]), 0.1, 'C')
lv = [1, 2]
r.grid.numPoints = 2 ** np.asarray(lv) - 1
with contextlib.redirect_stdout(io.StringIO()):
    C = r.build_C_matrix(lv)


def mass(l):
    n, h = 2 ** l - 1, 2.0 ** -l
    return 2 * h / 3 * np.eye(n) + h / 6 * (np.eye(n, k=1) + np.eye(n, k=-1))


def stiff(l):
    n, h = 2 ** l - 1, 2.0 ** -l
    return 2 / h * np.eye(n) - 1 / h * (np.eye(n, k=1) + np.eye(n, k=-1))


ref = np.kron(stiff(1), mass(2)) + np.kron(mass(1), stiff(2))
print("observed build_C_matrix([1,2]):\n", C)
print("gradient Gram matrix:\n", ref)
print("C[0][0]: observed %.6f expected %.6f   C[0][1]: observed %.6f expected %.6f" % (C[0, 0], ref[0, 0], C[0, 1], ref[0, 1]))
