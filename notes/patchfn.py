import numpy as np
from sparseSpACE import Function as F
_orig=F.Function.__call__
def call(self, coordinates):
    if len(coordinates)==0:
        return np.zeros((0,self.output_length()))
    return _orig(self, coordinates)
F.Function.__call__=call
