import numpy as np, itertools, traceback
import patchfn
from sparseSpACE.StandardCombi import *
from sparseSpACE.Function import *
from sparseSpACE.GridOperation import *
Q=100
rng=np.random.default_rng(7)
def hat1d(k,i,t):
    if k==0: return 1-t if i==0 else t
    return max(0.0,1-abs(t*2**k-i))
def hat_int(k): return 0.5 if k==0 else 2.0**-k
bad=0;n=0
for trial in range(60):
    dim=int(rng.integers(1,4)); lmin=int(rng.integers(1,3)); lmax=lmin+int(rng.integers(0,3)); boundary=bool(rng.integers(0,2))
    a=np.array([float(x) for x in rng.choice([0.0,-1.0,2.0],dim)]); b=a+np.array([float(x) for x in rng.choice([1.0,3.0,0.5],dim)])
    ks=range(0 if boundary else 1,lmax+1)
    B=[]
    for kv in itertools.product(ks,repeat=dim):
        if sum(max(k,lmin) for k in kv)<=lmax+(dim-1)*lmin:
            for iv in itertools.product(*[([0,1] if k==0 else list(range(1,2**k,2))) for k in kv]): B.append((kv,iv))
    coefs=rng.normal(size=len(B))
    def fun(x):
        t=[(x[d]-a[d])/(b[d]-a[d]) for d in range(dim)]
        return [float(np.sin(5*sum(x))), sum(c*np.prod([hat1d(kv[d],iv[d],t[d]) for d in range(dim)]) for c,(kv,iv) in zip(coefs,B))]
    vol=np.prod(b-a); exact=vol*sum(c*np.prod([hat_int(k) for k in kv]) for c,(kv,iv) in zip(coefs,B))
    f=FunctionCustom(fun,output_dim=2)
    op=Integration(f,grid=TrapezoidalGrid(a,b,boundary=boundary),dim=dim,print_level=Q,log_level=Q)
    sc=StandardCombi(a,b,operation=op,print_level=Q,log_level=Q)
    n+=1
    try:
        scheme,err,res=sc.perform_operation(lmin,lmax)
        msgs=[]
        if abs(res[1]-exact)>1e-11*vol*10: msgs.append("integral %g"%abs(res[1]-exact))
        # union of points, coefficient sum
        dct={}
        for cg in sc.scheme:
            pts=sc.get_points_component_grid(cg.levelvector)
            if len(pts)!=sc.get_num_points_component_grid(cg.levelvector,False): msgs.append("count")
            for p in pts: dct[p]=dct.get(p,0)+cg.coefficient
        if any(v!=1 for v in dct.values()): msgs.append("coefsum")
        # expected sparse grid points
        exp=set()
        for kv,iv in B:
            exp.add(tuple(a[d]+(b[d]-a[d])*(iv[d]/2**kv[d] if kv[d]>0 else float(iv[d])) for d in range(dim)))
        if set(dct.keys())!=exp: msgs.append("pointset %d vs %d"%(len(dct),len(exp)))
        P=list(dct.keys())
        if P:
            vals=sc(P); tv=np.array([fun(p) for p in P])
            if np.max(np.abs(vals-tv))>1e-10: msgs.append("interp at grid pts %g"%np.max(np.abs(vals-tv)))
            R=[tuple(a+(b-a)*rng.random(dim)) for _ in range(5)]
            vals=sc(R)[:,1]; tv=np.array([fun(p)[1] for p in R])
            if np.max(np.abs(vals-tv))>1e-10: msgs.append("interp space fn %g"%np.max(np.abs(vals-tv)))
        if msgs: bad+=1; print("BAD",dict(dim=dim,lmin=lmin,lmax=lmax,boundary=boundary),msgs)
    except Exception as e:
        tb=traceback.extract_tb(e.__traceback__)[-1]; bad+=1
        print("EXC",dict(dim=dim,lmin=lmin,lmax=lmax,boundary=boundary),type(e).__name__,str(e)[:80],tb.filename.split('/')[-1],tb.lineno)
print("n",n,"bad",bad)
