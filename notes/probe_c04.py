import numpy as np, itertools, sys, traceback, math
from sparseSpACE.spatiallyAdaptiveSingleDimension2 import *
from sparseSpACE.Function import *
from sparseSpACE.ErrorCalculator import *
from sparseSpACE.GridOperation import *
Q=100
class RandErr(ErrorCalculator):
    def __init__(self, rng, mode):
        super().__init__(log_level=Q, print_level=Q); self.rng=rng; self.mode=mode
    def calc_error(self, obj, norm, volume_weights=None):
        if self.mode==0: return float(self.rng.choice([0.0,0.0,1.0,0.5,0.95]))
        if self.mode==1: return float(self.rng.random()**4)
        return 1.0 if self.rng.random()<0.1 else 0.0
def hat1d(k,i,t):
    # t in [0,1]; k=0: i in {0,1} boundary fns; k>=1: i odd in 1..2^k-1
    if k==0: return 1-t if i==0 else t
    return max(0.0,1-abs(t*2**k-i))
def hat_int(k): return 0.5 if k==0 else 2.0**-k
def basis(dim,lmin,lmax,boundary):
    out=[]
    ks=range(0 if boundary else 1,lmax+1)
    for kv in itertools.product(ks,repeat=dim):
        lv=[max(k,lmin) for k in kv]
        if sum(lv)<=lmax+(dim-1)*lmin:
            idx=[([0,1] if k==0 else list(range(1,2**k,2))) for k in kv]
            for iv in itertools.product(*idx):
                out.append((kv,iv))
    return out
if __name__=="__main__":
    nbad=0;nexc=0;n=0
    for seed in range(int(sys.argv[1]),int(sys.argv[2])):
        rng=np.random.default_rng(seed)
        dim=int(rng.integers(1,4)); lmin=int(rng.integers(1,3)); lmax=lmin+int(rng.integers(1,3))
        version=int(rng.choice([2,3,6,7,8])); rebal=bool(rng.integers(0,2)); boundary=bool(rng.integers(0,2))
        mode=int(rng.integers(0,3)); margin=float(rng.choice([0.9,0.5,1.0,0.0]))
        a=np.array([float(x) for x in rng.choice([0.0,-1.0,2.0],dim)]); b=a+np.array([float(x) for x in rng.choice([1.0,3.0,0.5],dim)])
        B=basis(dim,lmin,lmax,boundary)
        sel=[B[i] for i in rng.choice(len(B),size=min(len(B),12),replace=False)]
        coefs=rng.normal(size=len(B))
        def fun(x, a=a,b=b,sel=sel,B=B,coefs=coefs,dim=dim):
            t=[(x[d]-a[d])/(b[d]-a[d]) for d in range(dim)]
            vals=[float(np.sin(5*sum(x))+x[0]*x[-1])]
            for kv,iv in sel:
                vals.append(np.prod([hat1d(kv[d],iv[d],t[d]) for d in range(dim)]))
            vals.append(sum(c*np.prod([hat1d(kv[d],iv[d],t[d]) for d in range(dim)]) for c,(kv,iv) in zip(coefs,B)))
            return vals
        vol=np.prod(b-a)
        exact=[vol*np.prod([hat_int(k) for k in kv]) for kv,iv in sel]+[vol*sum(c*np.prod([hat_int(k) for k in kv]) for c,(kv,iv) in zip(coefs,B))]
        f=FunctionCustom(fun,output_dim=len(sel)+2)
        grid=GlobalTrapezoidalGrid(a,b,boundary=boundary)
        op=Integration(f,grid=grid,dim=dim,reference_solution=None,print_level=Q,log_level=Q)
        cfg=dict(dim=dim,lmin=lmin,lmax=lmax,version=version,rebal=rebal,boundary=boundary,mode=mode,margin=margin)
        sa=SpatiallyAdaptiveSingleDimensions2(a,b,operation=op,version=version,rebalancing=rebal,margin=margin,print_level=Q, log_level=Q)
        state={'bad':None,'steps':0}
        origev=sa.evaluate_operation
        evalpts=[tuple(a+(b-a)*rng.random(dim)) for _ in range(5)]
        def evhook():
            r=origev()
            res=np.array(sa.operation.get_result())[1:]
            err=np.max(np.abs(res-np.array(exact))/vol)
            ivals=sa(evalpts)[:,1:]
            tv=np.array([fun(p)[1:] for p in evalpts])
            ierr=np.max(np.abs(ivals-tv))
            if (err>1e-11 or ierr>1e-11) and state['bad'] is None: state['bad']=(state['steps'],err,ierr)
            state['steps']+=1
            return r
        sa.evaluate_operation=evhook
        maxev=int(rng.integers(20,200 if dim==3 else 500))
        n+=1
        try:
            sa.performSpatiallyAdaptiv(lmin,lmax,RandErr(rng,mode),tol=-1,max_evaluations=maxev,print_output=False)
        except Exception as e:
            nexc+=1
            tb=traceback.extract_tb(e.__traceback__)[-1]
            print("EXC",seed,cfg,type(e).__name__,str(e)[:80],tb.filename.split('/')[-1],tb.lineno); continue
        if state['bad']:
            nbad+=1; print("BAD",seed,cfg,state['bad'])
    print("n",n,"bad",nbad,"exc",nexc)
