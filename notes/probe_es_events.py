"""exploration: how often do generated extend-split histories contain, inside ONE refinement step, a multi-dimension
single-dim split followed by an lmax-raising extend?  (python notes/probe_es_events.py [mode])"""
import sys, collections
sys.path[:0] = ["/verif", "/repo"]
import numpy as np
from hypothesis import given, settings, strategies as st, seed, HealthCheck
from vlib import drive
import contextlib, io
with contextlib.redirect_stdout(io.StringIO()):
    from sparseSpACE.RefinementObject import RefinementObjectExtendSplit as R
only_mode = int(sys.argv[1]) if len(sys.argv) > 1 else None
stats = collections.Counter()
orig = R.refine
cur = []
def refine(self):
    r = orig(self)
    cur.append(("extend+lmax" if r[1] is not None else "extend") if len(r[0]) == 1 else "split%d" % len(r[0]))
    return r
R.refine = refine

@seed(1)
@settings(max_examples=int(sys.argv[2]) if len(sys.argv) > 2 else 200, deadline=None, database=None, suppress_health_check=list(HealthCheck))
@given(drive.st_es_case(versions=(0,)))
def t(case):
    if only_mode is not None:
        case["mode"] = only_mode
    case["ssd"] = True; case["estimator"] = "tape"; case["auto"] = False; case["legs"] = None; case["rerun"] = None
    case["fseed"] = case["fseed"] - case["fseed"] % 3    # symmetric integrand
    f = drive.vector_function([drive.case_function(case)])
    sa, op = drive.build_es(case, f)
    steps = []
    def before(k):
        cur.clear()
    def after(k):
        steps.append(list(cur))
    try:
        drive.run_history(sa, case, before_refine=before, after_refine=after)
    except Exception as e:
        stats["exc:" + type(e).__name__] += 1
    stats["cases"] += 1
    hit = False
    for s in steps:
        multi = [i for i, x in enumerate(s) if x.startswith("split") and int(x[5:]) >= 4]
        ext = [i for i, x in enumerate(s) if x == "extend+lmax"]
        if multi and ext:
            stats["step:multi-split-and-lmax-extend"] += 1
            if min(multi) < max(ext):
                hit = True
        if len(set(s)) > 1:
            stats["step:mixed-kinds"] += 1
    stats["case-hit"] += hit
    stats["steps"] += len(steps)
t()
print(dict(stats))
