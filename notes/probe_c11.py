import numpy as np, math, traceback, io, contextlib
from sparseSpACE.Extrapolation import *
def gen_tree(rng,a,b,nsplit,balanced=False):
    pts=[a,(a+b)/2,b]; lev=[0,1,0]
    for _ in range(nsplit):
        if balanced:
            # pick a leaf node (inner point whose both neighbours have lower level)->add both children
            cands=[i for i in range(1,len(pts)-1) if lev[i-1]<lev[i] and lev[i+1]<lev[i]]
            i=int(rng.choice(cands)); l=lev[i]+1
            mr=0.5*(pts[i]+pts[i+1]); ml=0.5*(pts[i-1]+pts[i])
            pts.insert(i+1,mr); lev.insert(i+1,l); pts.insert(i,ml); lev.insert(i,l)
        else:
            i=int(rng.integers(0,len(pts)-1))
            m=0.5*(pts[i]+pts[i+1]); l=max(lev[i],lev[i+1])+1
            pts.insert(i+1,m); lev.insert(i+1,l)
    return pts,lev
rng=np.random.default_rng(3)
stats={}
def rec(k,ok,info=None):
    s=stats.setdefault(k,[0,0,None]); s[0]+=1
    if not ok:
        s[1]+=1
        if s[2] is None: s[2]=info
for trial in range(200):
    a=float(rng.choice([0.0,-1.0,2.0])); b=a+float(rng.choice([1.0,4.0,0.5]))
    pts,lev=gen_tree(rng,a,b,int(rng.integers(0,14)))
    for sg in SliceGrouping:
      for sv in [SliceVersion.ROMBERG_DEFAULT,SliceVersion.TRAPEZOID]:
        for cv in [SliceContainerVersion.ROMBERG_DEFAULT,SliceContainerVersion.SIMPSON_ROMBERG]:
            k=(sg.name,sv.name,cv.name)
            try:
                g=ExtrapolationGrid(slice_grouping=sg,slice_version=sv,container_version=cv)
                g.set_grid(list(pts),list(lev)); w=np.array(g.get_weights()); x=np.array(pts)
                rec(k+('len',),len(w)==len(pts))
                rec(k+('sum',),abs(w.sum()-(b-a))<1e-10*(b-a),(pts,lev,w.sum()))
                ref=3*(b*b-a*a)/2+(b-a)
                rec(k+('lin',),abs(np.dot(w,3*x+1)-ref)<1e-10*(abs(ref)+1),(pts,lev))
            except Exception as e:
                tb=traceback.extract_tb(e.__traceback__)[-1]
                rec(k+('EXC',),False,(pts,lev,type(e).__name__,str(e)[:40],tb.lineno))
    # balanced
    pb,lb=gen_tree(rng,a,b,int(rng.integers(0,8)),balanced=True)
    try:
        g=BalancedExtrapolationGrid(); g.set_grid(list(pb),list(lb)); w=np.array(g.get_weights()); x=np.array(pb)
        rec(('bal','sum'),abs(w.sum()-(b-a))<1e-10*(b-a),(pb,lb,w.sum()))
        ref=3*(b*b-a*a)/2+(b-a)
        rec(('bal','lin'),abs(np.dot(w,3*x+1)-ref)<1e-10*(abs(ref)+1),(pb,lb))
    except Exception as e:
        tb=traceback.extract_tb(e.__traceback__)[-1]
        rec(('bal','EXC'),False,(pb,lb,type(e).__name__,str(e)[:40],tb.lineno))
    # binary tree
    try:
        with contextlib.redirect_stdout(io.StringIO()):
            t=GridBinaryTree(); t.init_tree(list(pts),list(lev)); t.force_full_tree_invariant(); g2=t.get_grid(); l2=t.get_grid_levels()
        rec(('tree','superset'),set(pts)<=set(g2),(pts,lev,g2))
        rec(('tree','sorted'),g2==sorted(g2))
        # every inner point 0 or 2 children
        ok=True
        for i in range(1,len(g2)-1):
            L=i-1>=1 and l2[i-1]>l2[i]; R=i+1<=len(g2)-2 and l2[i+1]>l2[i]
            # children = next deeper level directly; approximate: has deeper neighbour on left/right
            if L!=R: ok=False
        rec(('tree','0or2'),ok,(pts,lev,g2,l2))
    except Exception as e:
        tb=traceback.extract_tb(e.__traceback__)[-1]
        rec(('tree','EXC'),False,(pts,lev,type(e).__name__,str(e)[:40],tb.lineno))
# complete grids degree
for m in range(1,6):
    a,b=0.0,1.0
    n=2**m; pts=[a+(b-a)*i/n for i in range(n+1)]; lev=[0]*(n+1)
    def setl(i1,i2,l):
        if i1+1>=i2: return
        i=(i1+i2)//2; lev[i]=l; setl(i1,i,l+1); setl(i,i2,l+1)
    setl(0,n,1)
    for sg in SliceGrouping:
        for cv in [SliceContainerVersion.ROMBERG_DEFAULT,SliceContainerVersion.SIMPSON_ROMBERG]:
            g=ExtrapolationGrid(slice_grouping=sg,slice_version=SliceVersion.ROMBERG_DEFAULT,container_version=cv); g.set_grid(list(pts),list(lev)); w=np.array(g.get_weights()); x=np.array(pts)
            deg=-1
            for k in range(0,2*m+6):
                if abs(np.dot(w,x**k)-1/(k+1))<1e-11: deg=k
                else: break
            print('complete m',m,sg.name,cv.name,'exact degree',deg,'expected',2*m+1)
    g=BalancedExtrapolationGrid(); g.set_grid(list(pts),list(lev)); w=np.array(g.get_weights()); x=np.array(pts)
    deg=-1
    for k in range(0,2*m+6):
        if abs(np.dot(w,x**k)-1/(k+1))<1e-11: deg=k
        else: break
    print('balanced m',m,'degree',deg,'expected',2*m-1)
for k in sorted(stats,key=str):
    s=stats[k]; print(k,s[0],'fail',s[1],'' if not s[1] else str(s[2])[:250])
