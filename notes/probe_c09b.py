import numpy as np, math
from sparseSpACE.Grid import *
from sparseSpACE.Function import *
def gen_tree(rng,a,b,nsplit,depth0):
    # complete tree of depth0 first
    n=2**depth0
    pts=[a+(b-a)*i/n for i in range(n+1)]
    lev=[0]*(n+1)
    def setl(i1,i2,l):
        if i1+1>=i2: return
        i=(i1+i2)//2; lev[i]=l; setl(i1,i,l+1); setl(i,i2,l+1)
    setl(0,n,1)
    for _ in range(nsplit):
        i=int(rng.integers(0,len(pts)-1))
        m=0.5*(pts[i]+pts[i+1]); l=max(lev[i],lev[i+1])+1
        pts.insert(i+1,m); lev.insert(i+1,l)
    return pts,lev
rng=np.random.default_rng(2)
res={}
for trial in range(200):
    a=float(rng.choice([0.0,-1.0,2.0])); b=a+float(rng.choice([1.0,3.0,0.5]))
    for cls,nm,ps in [(GlobalLagrangeGrid,'glag',[1,2,3,4,5]),(GlobalBSplineGrid,'gbs',[1,3,5])]:
        for p in ps:
            m=math.ceil(math.log2(p)) if p>1 else 0
            pts,lev=gen_tree(rng,a,b,int(rng.integers(0,12)),max(m,1))
            g=cls([a],[b],boundary=True,p=p); g.set_grid([pts],[lev])
            ok=True
            for deg in range(p+1):
                f=FunctionCustom(lambda t,deg=deg: float(t[0]**deg))
                val=g.integrate(f,[max(lev)],[a],[b])[0]; ref=(b**(deg+1)-a**(deg+1))/(deg+1)
                if abs(val-ref)>1e-8*(abs(ref)+1): ok=False; bad=(deg,pts,lev,val,ref)
            r=res.setdefault((nm,p),[0,0,None]); r[0]+=1
            if not ok:
                r[1]+=1
                if r[2] is None: r[2]=bad
for k,v in sorted(res.items()): print(k,v[0],v[1],str(v[2])[:200])
# high order boundary False const failure detail
pts=[0.0, 0.75, 0.9375, 1.125, 1.5, 3.0]; lev=[0,2,4,3,1,0]
for split in [False,True]:
    g=GlobalHighOrderGrid([0.0],[3.0],boundary=False,max_degree=2,split_up=split); g.set_grid([pts],[lev]); print(split,g.weights[0],sum(g.weights[0]))
g=GlobalHighOrderGrid([2.0],[3.0],boundary=False,max_degree=2,split_up=False); p2=[2.0,2.06,2.11,2.19,2.5,3.0]; g.set_grid([p2],[[0,4,3,2,1,0]]); print(g.weights[0],sum(g.weights[0]))
print(g.get_1D_weights_and_order(p2,2.0,3.0,None))
