import numpy as np, itertools, sys, traceback, os
if os.environ.get("PATCH"): import patchfn
from sparseSpACE.Grid import *
from sparseSpACE.Function import *
rng=np.random.default_rng(0)
def polyint(k,s,e): return (e**(k+1)-s**(k+1))/(k+1)
fams={
 'trap':(lambda a,b,bd: TrapezoidalGrid(a,b,boundary=bd), lambda n:1),
 'simpson':(lambda a,b,bd: SimpsonGrid(a,b,boundary=bd), lambda n:3 if n>=3 else 1),
 'cc':(lambda a,b,bd: ClenshawCurtisGrid(a,b,boundary=bd), lambda n:n-1),
 'leja':(lambda a,b,bd: LejaGrid(a,b,boundary=bd), lambda n:n-1),
 'gl':(lambda a,b,bd: GaussLegendreGrid(a,b), lambda n:2*n-1),
 'lag2':(lambda a,b,bd: LagrangeGrid(a,b,boundary=bd,p=2), lambda n:min(2,n-1)),
 'lag3':(lambda a,b,bd: LagrangeGrid(a,b,boundary=bd,p=3), lambda n:min(3,n-1)),
 'bs3':(lambda a,b,bd: BSplineGrid(a,b,boundary=bd,p=3), lambda n:min(3,n-1)),
 'bs1':(lambda a,b,bd: BSplineGrid(a,b,boundary=bd,p=1), lambda n:min(1,n-1)),
}
res={}
for name,(mk,deg) in fams.items():
  for bd in ([True,False] if name!='gl' else [False]):
    nfail=0;nexc=0;n=0;ex=None;fl=None
    for trial in range(40):
        dim=int(rng.integers(1,3))
        a=np.array([float(x) for x in rng.choice([0.0,-1.0,2.0],dim)]); b=a+np.array([float(x) for x in rng.choice([1.0,3.0,0.5],dim)])
        # sub-box from dyadic splitting
        s=a.copy();e=b.copy()
        for d in range(dim):
            for _ in range(int(rng.integers(0,3))):
                m=(s[d]+e[d])/2
                if rng.random()<0.5: e[d]=m
                else: s[d]=m
        lv=[int(rng.integers(0 if bd else 1,4)) for _ in range(dim)]
        n+=1
        try:
            g=mk(a,b,bd)
            g.setCurrentArea(s,e,lv)
            pts,w=g.get_points_and_weights()
            npts=np.prod(g.levelToNumPoints(lv))
            msgs=[]
            if len(pts)!=npts or len(w)!=npts: msgs.append("count %d %d %d"%(len(pts),len(w),npts))
            for p in pts:
                if any(p[d]<s[d]-1e-12 or p[d]>e[d]+1e-12 for d in range(dim)): msgs.append("outside")
            if bd or name=='gl':
                n1=[len(c) for c in g.coordinate_array]
                if abs(sum(w)-np.prod(e-s))>1e-10*np.prod(e-s): msgs.append("wsum %g vs %g"%(sum(w),np.prod(e-s)))
                # polynomial exactness via integrate with monomials (per dim degrees)
                degs=[max(0,deg(nn)) for nn in n1]
                for kv in itertools.product(*[range(0,min(dg,5)+1) for dg in degs]):
                    f=FunctionCustom(lambda x,kv=kv: float(np.prod([x[d]**kv[d] for d in range(dim)])))
                    val=g.integrate(f,lv,s,e)
                    exv=np.prod([polyint(kv[d],s[d],e[d]) for d in range(dim)])
                    scale=np.prod([max(abs(s[d]),abs(e[d]),1)**kv[d]*(e[d]-s[d]) for d in range(dim)])
                    if abs(val[0]-exv)>1e-9*scale: msgs.append("poly %s err %g"%(kv,abs(val[0]-exv)/scale)); break
            if msgs:
                nfail+=1
                if fl is None: fl=(dict(dim=dim,a=a.tolist(),b=b.tolist(),s=s.tolist(),e=e.tolist(),lv=lv),msgs[:2])
        except Exception as ex_:
            nexc+=1
            if ex is None:
                tb=traceback.extract_tb(ex_.__traceback__)[-1]
                ex=(dict(dim=dim,a=a.tolist(),b=b.tolist(),s=s.tolist(),e=e.tolist(),lv=lv),type(ex_).__name__,str(ex_)[:60],tb.filename.split('/')[-1],tb.lineno)
    print(name,'boundary',bd,'n',n,'fail',nfail,'exc',nexc); 
    if fl: print('   FAIL',fl)
    if ex: print('   EXC',ex)
