import numpy as np, itertools, sys, traceback, os
from sparseSpACE.Grid import *
from sparseSpACE.Function import *
def gen_tree(rng,a,b,nsplit,weighted=False):
    pts=[a,b]; lev=[0,0]
    # start: level-1 midpoint always
    for _ in range(nsplit):
        i=int(rng.integers(0,len(pts)-1))
        if weighted: m=pts[i]+(pts[i+1]-pts[i])*float(rng.uniform(0.2,0.8))
        else: m=0.5*(pts[i]+pts[i+1])
        l=max(lev[i],lev[i+1])+1
        pts.insert(i+1,m); lev.insert(i+1,l)
    return pts,lev
def piecewise_linear_integral(pts,vals):
    return sum(0.5*(vals[i]+vals[i+1])*(pts[i+1]-pts[i]) for i in range(len(pts)-1))
rng=np.random.default_rng(1)
stats={}
def rec(k,ok,info=None):
    s=stats.setdefault(k,[0,0,None]); s[0]+=1
    if not ok:
        s[1]+=1
        if s[2] is None: s[2]=info
for trial in range(300):
    a=float(rng.choice([0.0,-1.0,2.0])); b=a+float(rng.choice([1.0,3.0,0.5]))
    n=int(rng.integers(1,25)); weighted=bool(rng.integers(0,2))
    pts,lev=gen_tree(rng,a,b,n,weighted)
    for bd,mod in [(True,False),(False,False),(False,True)]:
        try:
            g=GlobalTrapezoidalGrid([a],[b],boundary=bd,modified_basis=mod)
            g.set_grid([pts],[lev])
            w=np.array(g.weights[0],dtype=float); x=np.array(g.coordinate_array[0],dtype=float)
            vals=rng.normal(size=len(pts))
            if not mod:
                v=vals.copy()
                if not bd: v[0]=v[-1]=0
                ref=piecewise_linear_integral(pts,v)
                got=float(np.dot(w,v if bd else v[1:-1]))
                rec(('trap',bd,mod,'pwl'),abs(ref-got)<1e-12*(b-a)*10,(pts,lev))
                rec(('trap',bd,mod,'nonneg'),np.all(w>=0),(pts,lev))
            if bd or mod:
                # linear exactness
                got=float(np.dot(w,3*x+1)); ref=3*(b*b-a*a)/2+(b-a)
                rec(('trap',bd,mod,'linear'),abs(got-ref)<1e-11*(abs(ref)+1),(pts,lev,got,ref))
        except Exception as e:
            tb=traceback.extract_tb(e.__traceback__)[-1]
            rec(('trap',bd,mod,'EXC'),False,(pts,lev,type(e).__name__,str(e)[:50],tb.lineno))
    # high order
    for bd in [True,False]:
        for maxdeg in [2,5]:
          for split in [False,True]:
            try:
                g=GlobalHighOrderGrid([a],[b],boundary=bd,max_degree=maxdeg,split_up=split)
                g.set_grid([pts],[lev])
                w=np.array(g.weights[0],dtype=float); x=np.array(g.coordinate_array[0],dtype=float)
                if len(x)==0: continue
                got0=float(np.sum(w)); 
                rec(('ho',bd,maxdeg,split,'const'),abs(got0-(b-a))<1e-10*(b-a),(pts,lev,got0))
                if bd:
                    got=float(np.dot(w,3*x+1)); ref=3*(b*b-a*a)/2+(b-a)
                    rec(('ho',bd,maxdeg,split,'linear'),abs(got-ref)<1e-9*(abs(ref)+1),(pts,lev,got,ref))
            except Exception as e:
                tb=traceback.extract_tb(e.__traceback__)[-1]
                rec(('ho',bd,maxdeg,split,'EXC'),False,(pts,lev,type(e).__name__,str(e)[:50],tb.filename.split('/')[-1],tb.lineno))
    # hierarchical
    for cls,nm,ps in [(GlobalLagrangeGrid,'glag',[1,2,3]),(GlobalBSplineGrid,'gbs',[1,3])]:
        if weighted and cls is GlobalBSplineGrid: continue
        for p in ps:
          for bd in [True,False]:
            try:
                g=cls([a],[b],boundary=bd,p=p)
                g.set_grid([pts],[lev])
                x=np.array(g.coordinate_array[0],dtype=float)
                if len(x)==0: continue
                for deg in range(0,(min(p,len(x)-1) if bd else 0)+1):
                    if not bd: break
                    f=FunctionCustom(lambda t,deg=deg: float(t[0]**deg))
                    val=g.integrate(f,[max(lev)],[a],[b])[0]
                    ref=(b**(deg+1)-a**(deg+1))/(deg+1)
                    rec((nm,p,bd,'deg%d'%deg),abs(val-ref)<1e-9*(abs(ref)+1),(pts,lev,val,ref))
                # interpolation reproduces nodal values
                vals=rng.normal(size=len(x))
                dct={float(xx):vv for xx,vv in zip(x,vals)}
                f=FunctionCustom(lambda t: dct[float(t[0])])
                g.integrate(f,[max(lev)],[a],[b])
                from sparseSpACE.ComponentGridInfo import ComponentGridInfo
                iv=g.interpolate([(float(xx),) for xx in x],ComponentGridInfo([max(lev)],1))
                rec((nm,p,bd,'interp'),np.max(np.abs(iv[:,0]-vals))<1e-8,(pts,lev,float(np.max(np.abs(iv[:,0]-vals)))))
            except Exception as e:
                tb=traceback.extract_tb(e.__traceback__)[-1]
                rec((nm,p,bd,'EXC'),False,(pts,lev,type(e).__name__,str(e)[:50],tb.filename.split('/')[-1],tb.lineno))
for k in sorted(stats,key=str):
    s=stats[k]
    print(k,s[0],'fail',s[1], '' if s[1]==0 else str(s[2])[:300])
