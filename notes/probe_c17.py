import numpy as np, traceback, time, sys, io, contextlib
import patchfn
from sparseSpACE.spatiallyAdaptiveSingleDimension2 import *
from sparseSpACE.GridOperation import *
from sparseSpACE.ErrorCalculator import *
Q=100
def run(data,classes,reuse,lmin,lmax,maxev,lambd=0.01):
    dim=data.shape[1]
    a=np.zeros(dim); b=np.ones(dim)
    grid=GlobalTrapezoidalGrid(a=a,b=b,modified_basis=False,boundary=False)
    op=DensityEstimation(data.copy(),dim,grid=grid,masslumping=False,lambd=lambd,classes=None if classes is None else classes.copy(),reuse_old_values=reuse,numeric_calculation=False,print_output=False,pre_scaled_data=True,log_level=Q,print_level=Q)
    sa=SpatiallyAdaptiveSingleDimensions2(a,b,operation=op,margin=0.5,rebalancing=False,print_level=Q,log_level=Q)
    snaps=[]
    orig=sa.evaluate_operation
    def hook():
        r=orig(); snaps.append({k:np.array(v).copy() for k,v in op.surpluses.items()}); return r
    sa.evaluate_operation=hook
    with contextlib.redirect_stdout(io.StringIO()):
        sa.performSpatiallyAdaptiv(lmin,lmax,ErrorCalculatorSingleDimVolumeGuided(),0.0,max_evaluations=maxev,print_output=False)
    return snaps,sa
rng=np.random.default_rng(int(sys.argv[1]) if len(sys.argv)>1 else 0)
data=rng.uniform(0.02,0.98,size=(40,2))
t=time.time()
s0,sa0=run(data,None,False,3,5,1200)
print("noreuse evals",len(s0),"time",time.time()-t, [len(v) for v in s0[-1].values()])
t=time.time()
s1,sa1=run(data,None,True,3,5,1200)
print("reuse evals",len(s1),"time",time.time()-t)
for i,(x,y) in enumerate(zip(s0,s1)):
    if set(x)!=set(y): print("step",i,"scheme differs"); break
    m=max(np.max(np.abs(x[k]-y[k])) if x[k].shape==y[k].shape else 1e9 for k in x)
    print("step",i,"max surplus diff",m)
