import numpy as np, itertools, sys, traceback, math
from sparseSpACE.spatiallyAdaptiveSingleDimension2 import *
from sparseSpACE.Function import *
from sparseSpACE.ErrorCalculator import *
from sparseSpACE.GridOperation import *
Q=100
class RandErr(ErrorCalculator):
    def __init__(self, rng, mode):
        super().__init__(log_level=Q, print_level=Q); self.rng=rng; self.mode=mode
    def calc_error(self, obj, norm, volume_weights=None):
        if self.mode==0: return float(self.rng.choice([0.0,0.0,1.0,0.5,0.95]))
        if self.mode==1: return float(self.rng.random()**4)
        return 1.0 if self.rng.random()<0.1 else 0.0

def tree_ok(levels):
    # levels list incl endpoints; endpoints 0; for inner point, nearest lower-level left & right: max == level-1
    if levels[0]!=0 or levels[-1]!=0: return "ends"
    for i in range(1,len(levels)-1):
        l=levels[i]
        L=None
        for j in range(i-1,-1,-1):
            if levels[j]<l: L=levels[j];break
        R=None
        for j in range(i+1,len(levels)):
            if levels[j]<l: R=levels[j];break
        if L is None or R is None: return "noparent %d"%i
        if max(L,R)!=l-1: return "parent level at %d: %s"%(i,levels)
    return None

def check(sa, boundary, dim):
    msgs=[]
    # C06
    for d in range(dim):
        objs=sa.refinement.get_refinement_container_for_dim(d).get_objects()
        if objs[0].start!=sa.a[d] or objs[-1].end!=sa.b[d]: msgs.append("tiling ends")
        for o,n in zip(objs,objs[1:]):
            if o.end!=n.start: msgs.append("gap")
            if o.levels[1]!=n.levels[0]: msgs.append("level mismatch")
        levels=[objs[0].levels[0]]+[o.levels[1] for o in objs]
        t=tree_ok(levels)
        if t: msgs.append("tree:"+t)
        for o in objs:
            if o.coarsening_level!=sa.lmax[d]-max(o.levels) or o.coarsening_level<0: msgs.append("coarsening")
        if sa.lmax[d]<max(levels): msgs.append("lmax")
    # C03
    dct={}
    per_level={}
    for cg in sa.scheme:
        coords,levels,_=sa.get_point_coord_for_each_dim(cg.levelvector)
        for d,(c,l) in enumerate(zip(coords,levels)):
            if list(c)!=sorted(set(c)): msgs.append("unsorted/dup")
            if c[0]!=sa.a[d] or c[-1]!=sa.b[d]: msgs.append("endpoints")
            key=(d,cg.levelvector[d])
            if key in per_level and per_level[key]!=tuple(c): msgs.append("not only dep on (d,l): %s"%(key,))
            per_level[key]=tuple(c)
        if not boundary: coords=[c[1:-1] for c in coords]
        for p in itertools.product(*coords):
            dct[p]=dct.get(p,0)+cg.coefficient
    for (d,l),c in per_level.items():
        if (d,l+1) in per_level and not set(c)<=set(per_level[(d,l+1)]): msgs.append("not monotone")
    bad=[(p,v) for p,v in dct.items() if v!=1]
    if bad: msgs.append("coeffsum %s"%bad[:2])
    # interpolation reproduces f at all combined grid points
    pts=list(dct.keys())
    if pts:
        vals=sa(pts)
        fv=np.array([sa.operation.f(p) for p in pts])
        err=np.max(np.abs(vals-fv))
        if err>1e-9: msgs.append("interp err %g"%err)
    return msgs

if __name__=="__main__":
    nbad=0; nexc=0; n=0; totsteps=0
    lo,hi=int(sys.argv[1]),int(sys.argv[2])
    for seed in range(lo,hi):
        rng=np.random.default_rng(seed)
        dim=int(rng.integers(1,4)); lmin=int(rng.integers(1,3)); lmax=lmin+int(rng.integers(1,3))
        version=int(rng.choice([2,3,6,7,8])); rebal=bool(rng.integers(0,2)); boundary=bool(rng.integers(0,2))
        mode=int(rng.integers(0,3)); margin=float(rng.choice([0.9,0.5,1.0,0.0]))
        a=np.array([float(x) for x in rng.choice([0.0,-1.0,2.0],dim)]); b=a+np.array([float(x) for x in rng.choice([1.0,3.0,0.5],dim)])
        grid=GlobalTrapezoidalGrid(a,b,boundary=boundary)
        f=FunctionCustom(lambda x: float(np.sin(3*sum(x))+x[0]*x[-1]+2))
        op=Integration(f,grid=grid,dim=dim,reference_solution=np.array([1.0]))
        cfg=dict(dim=dim,lmin=lmin,lmax=lmax,version=version,rebal=rebal,boundary=boundary,mode=mode,margin=margin)
        sa=SpatiallyAdaptiveSingleDimensions2(a,b,operation=op,version=version,rebalancing=rebal,margin=margin,print_level=Q, log_level=Q)
        steps=[0]
        orig=sa.refine
        state={'bad':None}
        def hook():
            orig()
            steps[0]+=1
        sa.refine=hook
        origev=sa.evaluate_operation
        def evhook():
            r=origev()
            m=check(sa,boundary,dim)
            if m and state['bad'] is None: state['bad']=(steps[0],m[:3])
            return r
        sa.evaluate_operation=evhook
        maxev=int(rng.integers(20,300 if dim==3 else 600))
        n+=1
        try:
            sa.performSpatiallyAdaptiv(lmin,lmax,RandErr(rng,mode),tol=-1,max_evaluations=maxev,print_output=False)
        except Exception as e:
            nexc+=1
            tb=traceback.extract_tb(e.__traceback__)[-1]
            print("EXC",seed,cfg,"step",steps[0],type(e).__name__,str(e)[:80],tb.filename.split('/')[-1],tb.lineno)
            continue
        totsteps+=steps[0]
        if state['bad']:
            nbad+=1
            print("BAD",seed,cfg,state['bad'])
    print("n",n,"bad",nbad,"exc",nexc,"steps",totsteps)
