import numpy as np, sys, traceback, os, io, contextlib
import patchfn
from sparseSpACE.spatiallyAdaptiveSingleDimension2 import *
from sparseSpACE.spatiallyAdaptiveExtendSplit import *
from sparseSpACE.Function import *
from sparseSpACE.ErrorCalculator import *
from sparseSpACE.GridOperation import *
Q=100
def mk(strategy,dim,boundary,version,rebal):
    a=np.zeros(dim); b=np.ones(dim)
    f=GenzCornerPeak([1.0+d for d in range(dim)])
    ref=f.getAnalyticSolutionIntegral(a,b)
    if strategy=='dw':
        grid=GlobalTrapezoidalGrid(a,b,boundary=boundary)
        op=Integration(f,grid=grid,dim=dim,reference_solution=np.array([ref]),print_level=Q,log_level=Q)
        sa=SpatiallyAdaptiveSingleDimensions2(a,b,operation=op,version=version,rebalancing=rebal,print_level=Q,log_level=Q)
        err=ErrorCalculatorSingleDimVolumeGuided()
    else:
        grid=TrapezoidalGrid(a,b,boundary=boundary)
        op=Integration(f,grid=grid,dim=dim,reference_solution=np.array([ref]),print_level=Q,log_level=Q)
        sa=SpatiallyAdaptiveExtendScheme(a,b,version=version,operation=op)
        sa.log_util.set_print_level(Q); sa.log_util.set_log_level(Q)
        err=ErrorCalculatorExtendSplit()
    return sa,err,f
for strategy in ['dw','es']:
  for re in [False,True]:
    with contextlib.redirect_stdout(io.StringIO()):
        sa,err,f=mk(strategy,2,True,6 if strategy=='dw' else 0,False)
        r=sa.performSpatiallyAdaptiv(1,2,err,tol=-1,max_evaluations=150,print_output=False,reevaluate_at_end=re)
        res=np.array(r[3]).copy(); neval=r[4]
        fin,ne=sa.evaluate_final_combi()
    # independent weighted sum
    tot=0
    if strategy=='dw':
        for cg in sa.scheme:
            pts,w=sa.get_points_and_weights_component_grid(cg.levelvector)
            tot+=cg.coefficient*sum(wi*f.eval(p) for p,wi in zip(pts,w))
        P,W=sa.get_points_and_weights()
        pw=sum(wi*f.eval(p) for p,wi in zip(P,W))
    else:
        for o in sa.refinement.get_objects(): o.levelvec_dict={}
        for o in sa.refinement.get_objects():
            for cg in sa.scheme:
                lv,do=sa.coarsen_grid(cg.levelvector,o)
                if do:
                    sa.grid.setCurrentArea(o.start,o.end,lv)
                    pts,w=sa.grid.get_points_and_weights()
                    tot+=cg.coefficient*sum(wi*f.eval(p) for p,wi in zip(pts,w))
        pw=None
    print(strategy,'reeval',re,'reported',res,'neval',neval,'numpoints',r[6][-1],'evaluate_final_combi',fin,ne,'independent',tot,'pw',pw)
