import numpy as np, sys, traceback, os, io, contextlib
if os.environ.get("PATCH"): import patchfn
from sparseSpACE.spatiallyAdaptiveSingleDimension2 import *
from sparseSpACE.spatiallyAdaptiveExtendSplit import *
from sparseSpACE.Function import *
from sparseSpACE.ErrorCalculator import *
from sparseSpACE.GridOperation import *
Q=100
def mk(strategy,dim,boundary,version,rebal):
    a=np.zeros(dim); b=np.ones(dim)
    f=GenzCornerPeak([1.0+d for d in range(dim)])
    ref=f.getAnalyticSolutionIntegral(a,b)
    if strategy=='dw':
        grid=GlobalTrapezoidalGrid(a,b,boundary=boundary)
        op=Integration(f,grid=grid,dim=dim,reference_solution=np.array([ref]),print_level=Q,log_level=Q)
        sa=SpatiallyAdaptiveSingleDimensions2(a,b,operation=op,version=version,rebalancing=rebal,print_level=Q,log_level=Q)
        err=ErrorCalculatorSingleDimVolumeGuided()
    else:
        grid=TrapezoidalGrid(a,b,boundary=boundary)
        op=Integration(f,grid=grid,dim=dim,reference_solution=np.array([ref]),print_level=Q,log_level=Q)
        sa=SpatiallyAdaptiveExtendScheme(a,b,version=version,operation=op)
        sa.log_util.set_print_level(Q); sa.log_util.set_log_level(Q)
        err=ErrorCalculatorExtendSplit()
    return sa,err
def snapshot(sa,strategy):
    if strategy=='dw':
        ref=[[(o.start,o.end,tuple(o.levels),o.coarsening_level) for o in sa.refinement.get_refinement_container_for_dim(d).get_objects()] for d in range(sa.dim)]
    else:
        ref=sorted((tuple(o.start),tuple(o.end),o.coarseningValue,o.needExtendScheme) for o in sa.refinement.get_objects())
    sch=sorted((tuple(int(x) for x in c.levelvector),c.coefficient) for c in sa.scheme)
    return ref,sch,tuple(sa.lmax)
rng=np.random.default_rng(0)
for trial in range(int(sys.argv[1])):
    strategy=str(rng.choice(['dw','es'])); dim=int(rng.integers(2,4)); boundary=True if strategy=='es' else bool(rng.integers(0,2))
    version=int(rng.choice([2,3,6,7,8])) if strategy=='dw' else int(rng.choice([0,1,2])); rebal=bool(rng.integers(0,2))
    K2=int(rng.integers(60,400)); 
    cfg=dict(strategy=strategy,dim=dim,boundary=boundary,version=version,rebal=rebal,K2=K2)
    try:
      with contextlib.redirect_stdout(io.StringIO()):
        sa,err=mk(strategy,dim,boundary,version,rebal)
        r=sa.performSpatiallyAdaptiv(1,2,err,tol=-1,max_evaluations=K2,print_output=False)
        full=(snapshot(sa,strategy),np.array(r[3]),r[6][-1],list(r[6]))
        nums=full[3]
        # interruption at each evaluation index
        bad=None
        for k in range(len(nums)-1):
            K1=nums[k]-1  # stops at first eval with n > K1 i.e. at index <=k
            sa2,err2=mk(strategy,dim,boundary,version,rebal)
            sa2.performSpatiallyAdaptiv(1,2,err2,tol=-1,max_evaluations=K1,print_output=False)
            if rng.random()<0.5:
                sa2.save_to_file('/tmp/w/c14.pkl'); sa2=StandardCombi.restore_from_file('/tmp/w/c14.pkl')
                mode='saved'
            else: mode='direct'
            r2=sa2.continue_adaptive_refinement(tol=-1,max_evaluations=K2)
            s2=snapshot(sa2,strategy)
            if s2!=full[0] or not np.allclose(r2[3],full[1],rtol=1e-12,atol=1e-14) or r2[6][-1]!=full[2]:
                bad=(k,mode,s2==full[0],float(r2[3][0]),float(full[1][0]),r2[6][-1],full[2]); break
      print("BAD" if bad else "ok",cfg,len(nums),bad if bad else '')
    except Exception as e:
        tb=traceback.extract_tb(e.__traceback__)[-1]
        print("EXC",cfg,type(e).__name__,str(e)[:100],tb.filename.split('/')[-1],tb.lineno)
