import numpy as np, itertools, sys, traceback, math, io, contextlib, os
if os.environ.get("PATCH"): import patchfn
from sparseSpACE.spatiallyAdaptiveExtendSplit import *
from sparseSpACE.Function import *
from sparseSpACE.ErrorCalculator import *
from sparseSpACE.GridOperation import *
Q=100
class RandErr(ErrorCalculator):
    def __init__(self, rng, mode):
        super().__init__(log_level=Q, print_level=Q); self.rng=rng; self.mode=mode
    def calc_error(self, obj, norm, volume_weights=None):
        if self.mode==0: return float(self.rng.choice([0.0,0.0,1.0,0.5,0.95]))
        if self.mode==1: return float(self.rng.random()**4)
        return 1.0 if self.rng.random()<0.1 else 0.0
def check(sa,dim,a,b,rng):
    msgs=[]
    objs=sa.refinement.get_objects()
    vol=sum(np.prod(np.array(o.end)-np.array(o.start)) for o in objs)
    if abs(vol-np.prod(b-a))>1e-12*np.prod(b-a): msgs.append("volume %g"%vol)
    for o in objs:
        if o.coarseningValue<0: msgs.append("neg coarsening")
        if any(np.array(o.end)<=np.array(o.start)): msgs.append("degenerate")
    # disjoint interiors: random points in exactly one open box
    for _ in range(20):
        p=a+(b-a)*rng.random(dim)
        c=sum(1 for o in objs if all(o.start[d]<p[d]<o.end[d] for d in range(dim)))
        if c!=1: msgs.append("cover count %d"%c)
    # per-area coefficient sums
    for o in objs:
        o.levelvec_dict={}
        dct={}
        for cg in sa.scheme:
            lv,do=sa.coarsen_grid(cg.levelvector,o)
            if do:
                sa.grid.setCurrentArea(o.start,o.end,lv)
                for p in sa.grid.getPoints():
                    dct[p]=dct.get(p,0)+cg.coefficient
        bad=[(p,v) for p,v in dct.items() if v!=1]
        if bad: msgs.append("coeffsum %s in area %s %s cv=%d"%(bad[:2],list(o.start),list(o.end),o.coarseningValue)); break
    for o in objs: o.levelvec_dict={}
    return msgs
if __name__=="__main__":
    nbad=0;nexc=0;n=0
    for seed in range(int(sys.argv[1]),int(sys.argv[2])):
        rng=np.random.default_rng(seed)
        dim=int(rng.integers(2,4)); lmin=1; lmax=int(rng.integers(2,4))
        version=int(rng.choice([0,1,2])); nref=int(rng.integers(0,3)); boundary=bool(rng.integers(0,4)>0)
        mode=int(rng.integers(0,3))
        a=np.array([float(x) for x in rng.choice([0.0,-1.0,2.0],dim)]); b=a+np.array([float(x) for x in rng.choice([1.0,3.0,0.5],dim)])
        cs=rng.normal(size=(2**dim))
        def fun(x,cs=cs,dim=dim):
            ml=sum(c*np.prod([x[d] if (i>>d)&1 else 1.0 for d in range(dim)]) for i,c in enumerate(cs))
            return [float(np.sin(5*sum(x))+x[0]*x[-1]), ml]
        # exact integral of multilinear
        ex=sum(c*np.prod([ (b[d]**2-a[d]**2)/2 if (i>>d)&1 else (b[d]-a[d]) for d in range(dim)]) for i,c in enumerate(cs))
        f=FunctionCustom(fun,output_dim=2)
        grid=TrapezoidalGrid(a,b,boundary=boundary)
        op=Integration(f,grid=grid,dim=dim,reference_solution=None,print_level=Q,log_level=Q)
        cfg=dict(dim=dim,lmax=lmax,version=version,nref=nref,boundary=boundary,mode=mode)
        auto=bool(rng.integers(0,2)); ssd=bool(rng.integers(0,2)); cfg.update(auto=auto,ssd=ssd); sa=SpatiallyAdaptiveExtendScheme(a,b,number_of_refinements_before_extend=nref,version=version,operation=op,automatic_extend_split=auto,split_single_dim=ssd)
        sa.log_util.set_print_level(Q); sa.log_util.set_log_level(Q)
        state={'bad':None,'steps':0}
        origev=sa.evaluate_operation
        def evhook():
            r=origev()
            m=check(sa,dim,a,b,rng)
            res=sa.operation.get_result()
            if boundary:
                err=abs(res[1]-ex)/np.prod(b-a)
                if err>1e-11: m.append("multilinear err %g"%err)
            # recompute from scratch
            areas_sum=sum(o.value for o in sa.refinement.get_objects())
            if np.max(np.abs(areas_sum-res))>1e-10*(1+np.max(np.abs(res))): m.append("sum areas != result")
            if m and state['bad'] is None: state['bad']=(state['steps'],m[:3])
            state['steps']+=1
            return r
        sa.evaluate_operation=evhook
        maxev=int(rng.integers(20,400))
        n+=1
        try:
            with contextlib.redirect_stdout(io.StringIO()):
                sa.performSpatiallyAdaptiv(lmin,lmax,(RandErr(rng,mode) if mode<2 else ErrorCalculatorExtendSplit()),tol=-1,max_evaluations=maxev,print_output=False)
        except Exception as e:
            nexc+=1
            tb=traceback.extract_tb(e.__traceback__)[-1]
            print("EXC",seed,cfg,"steps",state['steps'],type(e).__name__,str(e)[:80],tb.filename.split('/')[-1],tb.lineno); continue
        if state['bad']:
            nbad+=1; print("BAD",seed,cfg,state['bad'])
    print("n",n,"bad",nbad,"exc",nexc)
