import numpy as np, sys, traceback, os, io, contextlib
import patchfn
from probe_c14 import mk, snapshot
import probe_c14
