import numpy as np, itertools, sys, random
from sparseSpACE.spatiallyAdaptiveSingleDimension2 import *
from sparseSpACE.Function import *
from sparseSpACE.ErrorCalculator import *
from sparseSpACE.GridOperation import *

class RandErr(ErrorCalculator):
    def __init__(self, rng):
        super().__init__(); self.rng=rng
    def calc_error(self, obj, norm, volume_weights=None):
        return float(self.rng.choice([0.0,0.0,1.0,0.5,0.95]))

def run(dim, lmin, lmax, version, rebal, boundary, steps, seed):
    rng=np.random.default_rng(seed)
    a=np.zeros(dim); b=np.ones(dim)
    grid=GlobalTrapezoidalGrid(a,b,boundary=boundary)
    f=FunctionCustom(lambda x: float(np.sin(3*sum(x))+x[0]*x[-1]))
    op=Integration(f,grid=grid,dim=dim,reference_solution=np.array([1.0]))
    sa=SpatiallyAdaptiveSingleDimensions2(a,b,operation=op,version=version,rebalancing=rebal,log_level=log_levels.NONE if hasattr(log_levels,'NONE') else 0, print_level=print_levels.NONE)
    checks=[]
    orig=sa.refine
    def hook():
        orig()
        check(sa, boundary)
    sa.refine=hook
    sa.performSpatiallyAdaptiv(lmin,lmax,RandErr(rng),tol=-1,max_evaluations=10**9,print_output=False) if False else None
    return sa

def check(sa, boundary):
    # coefficient sum at each point of combined grid ==1
    d={}
    for cg in sa.scheme:
        coords,levels,_=sa.get_point_coord_for_each_dim(cg.levelvector)
        for c,l in zip(coords,levels):
            assert list(c)==sorted(c)
            assert len(c)==len(l)
        if not boundary:
            coords=[c[1:-1] for c in coords]
        for p in itertools.product(*coords):
            d[p]=d.get(p,0)+cg.coefficient
    bad={p:v for p,v in d.items() if v!=1}
    return bad

if __name__=="__main__":
    import traceback
    nbad=0; nexc=0; n=0
    for seed in range(int(sys.argv[1])):
        rng=np.random.default_rng(seed)
        dim=int(rng.integers(1,4)); lmin=int(rng.integers(1,3)); lmax=lmin+int(rng.integers(1,3))
        version=int(rng.choice([2,3,6,7,8])); rebal=bool(rng.integers(0,2)); boundary=bool(rng.integers(0,2))
        a=np.zeros(dim); b=np.ones(dim)
        grid=GlobalTrapezoidalGrid(a,b,boundary=boundary)
        f=FunctionCustom(lambda x: float(np.sin(3*sum(x))+x[0]*x[-1]))
        op=Integration(f,grid=grid,dim=dim,reference_solution=np.array([1.0]))
        sa=SpatiallyAdaptiveSingleDimensions2(a,b,operation=op,version=version,rebalancing=rebal,print_level=print_levels.NONE, log_level=log_levels.NONE)
        steps=[0]
        orig=sa.refine
        state={'bad':None}
        def hook():
            orig()
            steps[0]+=1
            bad=check(sa,boundary)
            if bad and state['bad'] is None: state['bad']=(steps[0],list(bad.items())[:3])
        sa.refine=hook
        maxev=int(rng.integers(20,400))
        n+=1
        try:
            sa.performSpatiallyAdaptiv(lmin,lmax,RandErr(rng),tol=-1,max_evaluations=maxev,print_output=False)
        except Exception as e:
            nexc+=1
            tb=traceback.extract_tb(e.__traceback__)[-1]
            print("EXC",seed,dict(dim=dim,lmin=lmin,lmax=lmax,version=version,rebal=rebal,boundary=boundary),type(e).__name__,str(e)[:80],tb.filename.split('/')[-1],tb.lineno)
            continue
        if state['bad']:
            nbad+=1
            print("BAD",seed,dict(dim=dim,lmin=lmin,lmax=lmax,version=version,rebal=rebal,boundary=boundary),state['bad'])
    print("n",n,"bad",nbad,"exc",nexc)
