"""C20 — Regression solves the regularised least-squares problem on every component grid.

Oracles are written from the definition and never call the code path under test:

* basis: d-linear hat functions without boundary points on a tensor grid given by sorted 1-D node lists
  ``0 = x_0 < x_1 < ... < x_N < x_{N+1} = 1`` (uniform: x_j = j 2^-l); basis function (i_0,..,i_{d-1}) is the product
  of the 1-D hats, numbered with dimension 0 slowest (itertools.product order, the library's convention);
* design matrix  A[s, i] = phi_i(x_s)  at the (scaled) training points;
* gradient Gram matrix  M = sum_k kron_m (Stiff_k if m == k else Mass_m)  with the exact 1-D mass and stiffness
  matrices of the piecewise linear hats;
* normal equations  lambda == 0:  A^T A alpha == A^T y ;   lambda > 0: (A^T A / m + lambda M) alpha == A^T y / m ,
  M = identity ('I') or the Gram matrix ('C') — the *reference* matrix, not the one the library built;
* coefficient optimisation (Opticom): coefficients sum to one.

Known defects of the smoothing matrices are recognised by *cause*: the observed matrix (or the matrix with which the
observed surpluses satisfy the normal equations) is compared with the reference matrix with exactly that index
substitution applied.  Anything that matches neither the reference nor a named substitution is reported under a
different signature (``.../gram/mismatch``, ``.../normal-eq/residual``).
"""
import contextlib
import io
import itertools
import random
import traceback

import numpy as np
from hypothesis import strategies as st

from vlib.core import Outcome, Sub

PROPERTY = "C20"
RULE = ("Five sub-checks. uniform_direct: level vector (d 1-3, levels 1-3, <=64 basis functions (thorough: 150)), 5-40 samples, lambda "
        "in {0,1e-6,1e-4,0.1,1}, matrix C/I; Regression(data, targets, lambda, matrix) with default arguments, then "
        "build_A_matrix / build_C_matrix / solve_regression(_smooth) on that level vector (the protocol of the "
        "repository's tests). dimwise_direct: the same on non-uniform tensor grids (per dimension a sorted subset of "
        "k/16 containing 0 and 1) through build_A_matrix_dimension_wise / build_C_matrix_dimension_wise / "
        "solve_regression_dimension_wise(_smooth). train: ONE Regression object and a sequence of 1-3 calls: train(pct, lmin, lmax, noisy) with drawn arguments, "
        "in a good share the same percentage and a growing maximum level (schemes share level vectors) with noisy_data in half "
        "the calls, or train() calls followed by train_spatially_adaptive() calls; numpy's global RNG is re-seeded before each "
        "call from (case rng, call index). After EVERY call all clauses are evaluated on what the object reports now (scaling to "
        "[0.05,0.95], split keeps (x,y) pairs, design matrix and normal equations with the reference matrix for every component "
        "grid of the returned scheme against the current training data/targets and get_result()). train_sa: train_spatially_adaptive(pct, margin, tol, max_evaluations); one quarter small cases (6-60 drawn samples, "
        "<=30 evaluations), three quarters bulk cases (2-D, some 3-D, 100-300 seeded uniform samples, 40-100 evaluations, thorough "
        "200, oscillating / corner-step / corner-peak targets, mostly lambda=0 or matrix I). EVERY call of "
        "calculate_operation_dimension_wise is observed through an instance-level wrapper and the surpluses the operation holds "
        "for that level vector when the call returns are checked against the grid passed to that call. opticom: "
        "train or train_spatially_adaptive on generic targets, then optimize_coefficients[_spatially_adaptive] with a "
        "drawn sequence of options 1-3, sum of coefficients after each. Sample coordinates are drawn in the scaled space "
        "(lattice values k/16, the range ends 0.05/0.95, or arbitrary floats; optionally pinned so that lattice values "
        "hit grid nodes exactly) and mapped through a drawn affine map per dimension. Units: in every sub that trains, the targets are y' = s*(y+o) with s in {1e-12,...,1e9} "
        "(the library never rescales targets; all residuals are relative, i.e. scale free) and the features x = a + b*t with b "
        "in {1e-9,...,1e9} and offsets up to 3e5 (the library rescales them). One uniform_direct case in 20 and one train case "
        "in 16 has a component grid with more than 100 points (105-225; lmin=1,lmax=6 / lmin=lmax=4 / [7] / [4,3] / [3,3,2] ...), "
        "and fixed cases of that kind with targets of size 1e-9 and 1e-12 run first on shard 0. Sample count: one uniform_direct case "
        "in 20 and one train case in 16 has MANY samples relative to the grid (seeded uniform points, 600-40000 samples, m*N*d "
        "between 3e5 and 2e6, counts drawn freely or as multiples of 256 / powers of two; matrix I, or C on 1-D / isotropic grids "
        "with <= 64 points; all lambdas), again with fixed cases first on shard 0. Non-trivial = d>=2, an anisotropic "
        "grid (level vector / node lists differ between dimensions), lambda>0 and matrix 'C' (for opticom: d>=2, >=3 "
        "component grids and >=2 options applied). Distinct = distinct case dict.")
ASSUMPTIONS = [
    "only the boundary-free default grid is used (Regression asserts `not self.grid.boundary`; 'TODO currently only running without boundary points')",
    "percentage_of_testdata in {0.1..0.5} and >=5 samples (the values the tutorials use; sklearn rejects empty splits)",
    "basis functions are numbered with dimension 0 slowest (get_cross_product order) — a convention, fixed by the design-matrix clause",
    "normal-equation residuals are measured relative to ||L||_F ||alpha|| + ||r|| (backward error), 1e-8; rank-deficient systems allowed",
    "opticom: targets are generic (smooth function + seeded noise) so that no component grid has zero validation error and "
    "the optimal coefficients do not sum to zero (the formulas divide by both); 'sum to one' is judged with the tolerance "
    "1e-9 + 1e-12 * sum|c_i| (the normalisation of huge cancelling coefficients of an ill-conditioned Opticom system rounds "
    "proportionally to their magnitude)",
    "train_sa: the refinement decisions come from the library's own ErrorCalculatorSingleDimVolumeGuided (train_spatially_adaptive "
    "creates it internally); the non-uniform grids it does not reach are covered by dimwise_direct",
    "targets are mostly >= -1: a target below -1 is rejected at construction (F-C20h), such cases (about one in ten) only "
    "exercise that clause; all tutorial data sets have targets >= 0",
    "train sequences: a train() call AFTER train_spatially_adaptive() on the same object is not generated (it raises "
    "AttributeError on the unchanged tree: the spatially adaptive call leaves its GlobalTrapezoidalGrid and dimension_wise=True "
    "behind); run_train recognises it by cause once GENERATE_TRAIN_AFTER_SA is switched on",
    "the scaling clause allows 1e-12 + 32 eps max|x| / (max x - min x) per dimension: any floating-point evaluation of the affine "
    "map on coordinates with a large offset loses that much (sklearn: x*scale+min, reference: (x-min)*scale+lo); the design "
    "matrix is then compared at the scaled points the operation holds",
    "matrix 'C' on grids > 150 points and 3-D level ranges with grids > 100 points are not generated in the quick tier "
    "(build_C_matrix needs ~40 microseconds per pair of basis functions: 3-40 s per case)",
    "uniform_direct / dimwise_direct follow the protocol of test/test_Regression.py (training set := scaled data set, "
    "grid.numPoints set by the caller, methods called directly)",
]

LAMBDAS = [0.0, 1e-6, 1e-4, 0.1, 1.0]
TOL_MAT = 1e-9      # relative to max|entry| of the reference; rounding seen: 1e-15; smallest defect entries: O(0.1)
TOL_A = 1e-12       # absolute, hat values are in [0,1]; rounding seen: 2e-16
TOL_NE = 1e-8       # backward-error style residual; rounding seen on the unchanged tree: <=2e-14; mutants/defects: >=1e-4
TOL_SUM = 1e-9

CAUSE_B = "mass-factor-uses-level-of-stiffness-dimension"          # F-C20b
CAUSE_C = "mass-factor-uses-coordinates-of-stiffness-dimension"    # F-C20c
CAUSE_D = "touching-supports-treated-as-overlapping-neighbours"    # F-C20d
CAUSE_G = "neighbour-mass-integral-multiplied-twice"               # F-C20g
CAUSE_F = "sample-within-rounding-below-node-counted-on-both-sides"  # F-C20f


# ----------------------------------------------------------------------------------------------------------------
# reference model
# ----------------------------------------------------------------------------------------------------------------
def uniform_nodes(level):
    n = 2 ** int(level)
    return [j / n for j in range(n + 1)]


def hat_matrix_1d(nodes, xs, side_by_rounded_value=False):
    """B[s, j-1] = value at xs[s] of the hat centred at interior node j (support [nodes[j-1], nodes[j+1]]).

    side_by_rounded_value=True applies substitution F-C20f: the rising/falling side is not selected by the sign of
    x - p but by comparing the rounded branch value with 1 (`> 1` on the right, `>= 1` on the left), so a sample within
    rounding distance below a node keeps both branches (value 1 + (x-l)/(p-l) ~ 2)."""
    xs = np.asarray(xs, dtype=float)
    B = np.zeros((len(xs), len(nodes) - 2))
    for j in range(1, len(nodes) - 1):
        l, p, r = nodes[j - 1], nodes[j], nodes[j + 1]
        if side_by_rounded_value:
            v1 = 1.0 - (xs - p) / (r - p)
            v2 = 1.0 - (p - xs) / (p - l)
            B[:, j - 1] = np.where((v1 >= 0) & (v1 <= 1), v1, 0.0) + np.where((v2 >= 0) & (v2 < 1), v2, 0.0)
        else:
            B[:, j - 1] = np.where((xs > l) & (xs <= p), (xs - l) / (p - l), 0.0) + np.where((xs > p) & (xs < r), (r - xs) / (r - p), 0.0)
    return B


def design_matrix(node_lists, points, side_by_rounded_value=False):
    points = np.asarray(points, dtype=float)
    A = np.ones((len(points), 1))
    for k, nodes in enumerate(node_lists):
        B = hat_matrix_1d(nodes, points[:, k], side_by_rounded_value)
        A = (A[:, :, None] * B[:, None, :]).reshape(len(points), -1)
    return A


def design_candidates(kind, node_lists, points):
    ref = design_matrix(node_lists, points)
    res = [((), ref)]
    if kind == "dimwise":
        sub = design_matrix(node_lists, points, side_by_rounded_value=True)
        if float(np.max(np.abs(sub - ref), initial=0.0)) > TOL_A:
            res.append(((CAUSE_F,), sub))
    return res


def mass_1d(nodes, touching=False, squared=False):
    n = len(nodes) - 2
    M = np.zeros((n, n))
    for j in range(1, n + 1):
        M[j - 1, j - 1] = (nodes[j + 1] - nodes[j - 1]) / 3.0
        if j < n:
            M[j - 1, j] = M[j, j - 1] = (nodes[j + 1] - nodes[j]) / 6.0
        if touching and j + 1 < n:      # substitution F-C20d: hats two nodes apart treated as neighbours of width dist
            M[j - 1, j + 1] = M[j + 1, j - 1] = (nodes[j + 2] - nodes[j]) / 6.0
    if squared:                         # substitution F-C20g: the neighbour integral is multiplied in twice
        off = ~np.eye(n, dtype=bool)
        M[off] = M[off] ** 2
    return M


def stiff_1d(nodes, touching=False):
    n = len(nodes) - 2
    S = np.zeros((n, n))
    for j in range(1, n + 1):
        S[j - 1, j - 1] = 1.0 / (nodes[j] - nodes[j - 1]) + 1.0 / (nodes[j + 1] - nodes[j])
        if j < n:
            S[j - 1, j] = S[j, j - 1] = -1.0 / (nodes[j + 1] - nodes[j])
        if touching and j + 1 < n:
            S[j - 1, j + 1] = S[j + 1, j - 1] = -1.0 / (nodes[j + 2] - nodes[j])
    return S


def _kron_all(mats):
    R = np.ones((1, 1))
    for m in mats:
        R = np.kron(R, m)
    return R


def gram_model(node_lists, coords_of_k=False, touching=False, squared=False):
    """Gradient Gram matrix sum_k kron_m (Stiff_k if m == k else Mass_m) of the tensor hat basis (all flags False), or
    the same with named index substitutions applied:
      touching     (F-C20d) hats whose supports only touch (two nodes apart) are treated as overlapping neighbours;
      squared      (F-C20g) the mass integral of two neighbouring hats enters twice (squared);
      coords_of_k  (F-C20c) in term k every mass factor is evaluated with the coordinates of dimension k:
                   C[i,j] = sum_k Stiff_k[i_k,j_k] * Mass_k[i_k,j_k]^(d-1)."""
    d = len(node_lists)
    mass = [mass_1d(n, touching, squared) for n in node_lists]
    stiff = [stiff_1d(n, touching) for n in node_lists]
    if not coords_of_k:
        return sum(_kron_all([stiff[k] if m == k else mass[m] for m in range(d)]) for k in range(d))
    idx = np.array(list(itertools.product(*[range(len(n) - 2) for n in node_lists])), dtype=int).reshape(-1, d)
    total = np.zeros((len(idx), len(idx)))
    for k in range(d):
        ii = np.ix_(idx[:, k], idx[:, k])
        total += stiff[k][ii] * mass[k][ii] ** (d - 1)
    return total


def gram_reference(node_lists):
    return gram_model(node_lists)


def gram_uniform_sub_b(levelvec):
    """Substitution F-C20b: in term k the mass factor of dimension m is built with mesh width 2^-l_k instead of 2^-l_m."""
    d = len(levelvec)
    total = 0
    for k in range(d):
        hk = 2.0 ** -int(levelvec[k])
        mats = []
        for m in range(d):
            n = 2 ** int(levelvec[m]) - 1
            if m == k:
                mats.append(stiff_1d(uniform_nodes(levelvec[k])))
            else:
                mats.append(2 * hk / 3 * np.eye(n) + hk / 6 * (np.eye(n, k=1) + np.eye(n, k=-1)))
        total = total + _kron_all(mats)
    return total


def gram_candidates(kind, grid):
    """[(causes, matrix)] ordered by number of substitutions; grid = level vector (uniform) or node lists (dimwise).
    Candidates equal to an earlier one are dropped, so a cause is only ever named when it is observable on this grid."""
    if kind == "uniform":
        nodes = [uniform_nodes(l) for l in grid]
        raw = [((), gram_reference(nodes)), ((CAUSE_B,), gram_uniform_sub_b(grid))]
    else:
        raw = []
        for flags in sorted(itertools.product((False, True), repeat=3), key=lambda f: (sum(f), f)):
            c, t, g = flags
            causes = tuple(x for x, on in ((CAUSE_C, c), (CAUSE_D, t), (CAUSE_G, g)) if on)
            raw.append((causes, gram_model(grid, coords_of_k=c, touching=t, squared=g)))
    res = []
    for causes, M in raw:
        if not any(close(M, M2) for _, M2 in res):
            res.append((causes, M))
    return res


def close(a, b, rel=TOL_MAT):
    a = np.asarray(a, dtype=float)
    b = np.asarray(b, dtype=float)
    if a.shape != b.shape:
        return False
    if not np.all(np.isfinite(a)):
        return False
    return float(np.max(np.abs(a - b), initial=0.0)) <= rel * max(1.0, float(np.max(np.abs(b), initial=0.0)))


def ne_residual(A, y, alpha, lam, M):
    """relative residual of the stated normal equations (backward-error normalisation)."""
    m = len(y)
    if lam == 0:
        L = A.T @ A
        r = A.T @ y
    else:
        L = A.T @ A / m + lam * M
        r = A.T @ y / m
    scale = np.linalg.norm(L) * np.linalg.norm(alpha) + np.linalg.norm(r)
    if scale == 0:
        return 0.0
    return float(np.linalg.norm(L @ alpha - r) / scale)


def ref_scale(X, lo=0.05, hi=0.95):
    """MinMax scaling to [lo, hi] per column from the definition (constant column -> lo, sklearn's convention)."""
    X = np.asarray(X, dtype=float)
    mn, mx = X.min(axis=0), X.max(axis=0)
    rng = np.where(mx > mn, mx - mn, 1.0)
    return lo + (X - mn) * ((hi - lo) / rng)


# ----------------------------------------------------------------------------------------------------------------
# clause checkers
# ----------------------------------------------------------------------------------------------------------------
def check_gram(out, sub, kind, grid, C, tag):
    """smoothing matrix == reference Gram matrix, symmetric, PSD.  Returns the list of causes that explain C."""
    cands = gram_candidates(kind, grid)
    ref = cands[0][1]
    C = np.asarray(C, dtype=float)
    if C.shape != ref.shape:
        out.bad("%s/gram/shape" % sub, "%s shape %s, expected %s" % (tag, C.shape, ref.shape))
        return None
    explained = None
    for causes, M in cands:
        if close(C, M):
            explained = causes
            break
    dev = float(np.max(np.abs(C - ref), initial=0.0))
    out.info["max_gram_dev"] = max(out.info.get("max_gram_dev", 0.0), dev)
    if explained == ():
        pass
    elif explained:
        ij = np.unravel_index(int(np.argmax(np.abs(C - ref))), C.shape)
        for c in explained:
            out.bad("%s/gram/%s" % (sub, c), "%s: smoothing matrix differs from the gradient Gram matrix (max dev %.4g at %s: "
                    "got %.6g, expected %.6g) and equals the reference with substitution(s) %s"
                    % (tag, dev, tuple(int(x) for x in ij), C[ij], ref[ij], "+".join(explained)))
    else:
        ij = np.unravel_index(int(np.argmax(np.abs(C - ref))), C.shape)
        out.bad("%s/gram/mismatch" % sub, "%s: smoothing matrix differs from the gradient Gram matrix, max dev %.4g at %s: got "
                "%.6g, expected %.6g; no named substitution reproduces it" % (tag, dev, tuple(int(x) for x in ij), C[ij], ref[ij]))
    if not explained:      # reference-equal or unexplained: the remaining clauses are judged on their own
        if float(np.max(np.abs(C - C.T), initial=0.0)) > TOL_MAT * max(1.0, float(np.max(np.abs(ref)))):
            out.bad("%s/gram/not-symmetric" % sub, tag)
        else:
            w = np.linalg.eigvalsh((C + C.T) / 2)
            if w.min() < -1e-10 * max(1.0, float(w.max())):
                out.bad("%s/gram/not-psd" % sub, "%s: smallest eigenvalue %.4g" % (tag, w.min()))
    return explained


def check_solution(out, sub, kind, grid, A_cands, y, alpha, lam, matrix, tag):
    """alpha satisfies the stated normal equations built from the reference design matrix and reference smoothing matrix.
    On failure the named substitutions are tried (fewest first); the causes of the first combination with which the
    surpluses do satisfy the equations are reported, otherwise an unexplained residual."""
    A_ref = A_cands[0][1]
    alpha = np.asarray(alpha, dtype=float)
    if alpha.shape != (A_ref.shape[1],):
        out.bad("%s/surplus/shape" % sub, "%s: surplus vector has shape %s, grid has %d basis functions" % (tag, alpha.shape, A_ref.shape[1]))
        return
    if not np.all(np.isfinite(alpha)):
        out.bad("%s/surplus/not-finite" % sub, tag)
        return
    y = np.asarray(y, dtype=float)
    if lam == 0:
        clause, M_cands = "residual-least-squares", [((), None)]
    elif matrix == "I":
        clause, M_cands = "residual-identity", [((), np.eye(A_ref.shape[1]))]
    else:
        clause, M_cands = "residual-gram", gram_candidates(kind, grid)
    combos = sorted(((ca + cm, A, M) for ca, A in A_cands for cm, M in M_cands), key=lambda t: len(t[0]))
    res_ref = None
    for causes, A, M in combos:
        res = ne_residual(A, y, alpha, lam, M)
        if res_ref is None:
            res_ref = res
        if res <= TOL_NE:
            if not causes:
                out.info["max_ne_residual"] = max(out.info.get("max_ne_residual", 0.0), res)
            for c in causes:
                out.bad("%s/normal-eq/%s" % (sub, c), "%s: lambda=%g matrix=%s: relative residual of the stated normal equations %.3g; "
                        "the surpluses solve the system with the substitution(s) %s applied (residual %.3g)"
                        % (tag, lam, matrix, res_ref, "+".join(causes), res))
            return
    out.bad("%s/normal-eq/%s" % (sub, clause), "%s: lambda=%g matrix=%s: relative residual %.3g; no named substitution explains the "
            "surpluses" % (tag, lam, matrix, res_ref))


def check_design(out, sub, A, A_cands, tag):
    A_ref = A_cands[0][1]
    A = np.asarray(A, dtype=float)
    if A.shape != A_ref.shape:
        out.bad("%s/design-matrix/shape" % sub, "%s: %s, expected %s" % (tag, A.shape, A_ref.shape))
        return
    dev = float(np.max(np.abs(A - A_ref), initial=0.0)) if np.all(np.isfinite(A)) else float("inf")
    out.info["max_design_dev"] = max(out.info.get("max_design_dev", 0.0), dev)
    if dev <= TOL_A:
        return
    ij = np.unravel_index(int(np.argmax(np.abs(A - A_ref))), A.shape)
    for causes, Ac in A_cands[1:]:
        if float(np.max(np.abs(A - Ac), initial=0.0)) <= TOL_A:
            for c in causes:
                out.bad("%s/design-matrix/%s" % (sub, c), "%s: max dev %.3g at (sample %d, basis %d): got %.6g, basis value %.6g"
                        % (tag, dev, ij[0], ij[1], A[ij], A_ref[ij]))
            return
    out.bad("%s/design-matrix/mismatch" % sub, "%s: max dev %.3g at (sample %d, basis %d): got %.6g, expected %.6g"
            % (tag, dev, ij[0], ij[1], A[ij], A_ref[ij]))


# ----------------------------------------------------------------------------------------------------------------
# drivers
# ----------------------------------------------------------------------------------------------------------------
TARGET_MODES = ["osc", "osc", "osc", "osc2", "osc2", "corner-peak", "corner-peak", "corner-peak", "corner-step", "step-x", "peak"]


TARGET_SCALES = [1e-12, 1e-9, 1e-6, 1e-3, 1.0, 1e3, 1e6, 1e9]


def build_data(case):
    """raw samples and targets of a case; targets are y' = yscale * (y + yoff) (the library never rescales targets, so every
    clause must hold for every target magnitude), samples x = a + b * t with per-dimension units a, b (the library rescales)"""
    X, y = _build_data_unit(case)
    return X, float(case.get("yscale", 1.0)) * (y + float(case.get("yoff", 0.0)))


def _build_data_unit(case):
    d = case["d"]
    if "gen" in case:
        # bulk data (100-300 samples): uniform points and a target family chosen so that the error-driven refinement of
        # train_spatially_adaptive becomes one-sided / uneven between the dimensions; everything is seeded by case["rng"]
        g = case["gen"]
        rng = np.random.default_rng(case["rng"])
        T = rng.random((g["n"], d))
        corner = np.array(g["corner"], dtype=float)
        r = np.linalg.norm(T - corner, axis=1)
        mode = g["mode"]
        if mode == "osc":
            y = np.sin(3.0 * T @ np.arange(1, d + 1)) + T[:, 0] ** 2
        elif mode == "osc2":
            y = np.sin(rng.uniform(2, 9) * T[:, 0] + rng.uniform(0, 3)) * np.cos(rng.uniform(2, 9) * T[:, -1])
        elif mode == "corner-step":
            y = 2.0 * (r < g["width"]) + 0.1 * T[:, 0]
        elif mode == "corner-peak":
            y = 3.0 * np.exp(-(r / g["width"]) ** 2) + 0.1 * T[:, 0]
        elif mode == "step-x":
            y = 1.0 * (T[:, 0] < g["width"])
        else:
            c = rng.random(d)
            y = 3.0 * np.exp(-np.sum((T - c) ** 2, axis=1) / g["width"] ** 2)
        y = np.maximum(y + g.get("offset", 0.0), -1.0)            # targets stay >= -1 (F-C20h)
        aff = np.array(case["aff"], dtype=float).reshape(d, 2)
        return aff[:, 0] + aff[:, 1] * T, y
    T = np.array(case["pts"], dtype=float).reshape(-1, d)
    if case.get("pin"):
        T[0, :] = 0.05
        T[1, :] = 0.95
    aff = np.array(case["aff"], dtype=float).reshape(d, 2)
    X = aff[:, 0] + aff[:, 1] * T
    if "y" in case:
        y = np.array(case["y"], dtype=float)
    else:   # generic targets: smooth function of the scaled coordinates + seeded noise
        rng = np.random.default_rng(case["rng"])
        w = rng.uniform(0.5, 2.0, size=d)
        y = np.sin(3.0 * T @ w) + (T ** 2) @ w + 0.3 * np.clip(rng.standard_normal(len(T)), -3, 3) + 2.0
    return X, y


def make_regression(X, y, case, out, sub):
    """Regression(data, targets, lambda, matrix) with default arguments (only the chatter levels are raised unless the
    case says all_defaults).  Returns None when construction fails for the recognised cause F-C20h."""
    from sparseSpACE.GridOperation import Regression
    try:
        with contextlib.redirect_stdout(io.StringIO()):
            if case.get("all_defaults"):
                return Regression(X, y, case["lam"], case["matrix"])
            return Regression(X, y, case["lam"], case["matrix"], print_level=100, log_level=100)
    except ValueError as e:
        # F-C20h, recognised by cause: DataSet validates the targets as class labels (>= -1)
        fr = [f for f in traceback.extract_tb(e.__traceback__) if "/sparseSpACE/" in f.filename.replace("\\", "/")]
        if (str(e).startswith("Invalid raw_data parameter") and fr and fr[-1].name == "_initialize" and np.ndim(y) == 1
                and len(X) == len(y) and float(np.min(y)) < -1.0):
            out.bad("%s/construct/target-below-minus-one-rejected-as-class-label" % sub, "min target %r: %s" % (float(np.min(y)), e))
            out.cls("construction-rejected")
            return None
        raise


def check_scaling(out, sub, op, X, y):
    """construction with the default range: data mapped affinely to [0.05, 0.95] per dimension, targets untouched.
    Tolerance: 1e-12 plus the unavoidable cancellation of any affine map evaluated in floating point on coordinates with a
    large offset, 32 eps max|x| / range per dimension (sklearn evaluates x*scale + min, the reference (x-min)*scale+lo)."""
    X = np.asarray(X, dtype=float)
    ref = ref_scale(X)
    got = np.asarray(op.data, dtype=float)
    span = X.max(axis=0) - X.min(axis=0)
    tol = 1e-12 + 32 * np.finfo(float).eps * np.abs(X).max(axis=0) / np.where(span > 0, span, 1.0)
    if got.shape != ref.shape or not np.all(np.isfinite(got)) or not np.all(np.abs(got - ref) <= tol):
        out.bad("%s/scaling/data-not-in-default-range" % sub, "min %s max %s" % (got.min(axis=0), got.max(axis=0)))
        return False
    if not np.array_equal(np.asarray(op.target_values, dtype=float), y):
        out.bad("%s/scaling/targets-changed" % sub, "")
        return False
    return True


def scale_classes(out, case, sizes=(), m=0):
    """class counters for the target magnitude, the component-grid sizes reached and the size m*N*d of the hat evaluation
    (training samples x grid points x dimension) of the largest grid"""
    s_ = float(case.get("yscale", 1.0))
    out.cls("target-scale=%g" % s_)
    if case.get("yoff"):
        out.cls("target-offset")
    big = max(sizes) if len(sizes) else 0
    if big > 100:
        out.cls("grid>100")
        if s_ <= 1e-6:
            out.cls("grid>100&target-scale<=1e-6")
    if big > 200:
        out.cls("grid>200")
    work = int(m) * int(big) * int(case["d"])
    out.info["max_m_N_d"] = max(out.info.get("max_m_N_d", 0), work)
    if work > 2 ** 18:
        out.cls("m*N*d>2^18", "m*N*d>2^18, m %s a multiple of 256" % ("is" if m % 256 == 0 else "is not"))
    if work > 2 ** 20:
        out.cls("m*N*d>2^20")
    if any(abs(np.log10(abs(b))) >= 3 or abs(a) >= 1e3 for a, b in case.get("aff", [])):
        out.cls("unusual-feature-units")


def check_pairs(out, sub, op, noisy):
    """training/validation/test parts consist of (x, y) pairs of the scaled data set; training and test are disjoint
    and cover the data set together with the validation part (multiset)."""
    pool = {}
    for x, t in zip(np.asarray(op.data), np.asarray(op.target_values)):
        pool.setdefault((tuple(np.round(x, 12)), None if noisy else float(t)), []).append(1)
    ntr = len(op.training_data)
    parts = [(op.training_data, op.training_target_values), (op.validation_data[ntr:], op.validation_target_values[ntr:]),
             (op.test_data, op.test_target_values)]
    if len(op.training_data) != len(op.training_target_values):
        out.bad("%s/pairs/length" % sub, "")
        return
    if not np.array_equal(np.asarray(op.validation_data[:ntr]), np.asarray(op.training_data)):
        out.bad("%s/pairs/validation-prefix" % sub, "")
    count = 0
    for k, (xs, ts) in enumerate(parts):
        for x, t in zip(np.asarray(xs), np.asarray(ts)):
            key = (tuple(np.round(x, 12)), None if noisy else float(t))
            if not pool.get(key):
                out.bad("%s/pairs/sample-target-pair-not-in-data-set" % sub, "part %d x=%s y=%s" % (k, x, t))
                return
            pool[key].pop()
            count += 1
    if count != len(op.data):
        out.bad("%s/pairs/split-loses-samples" % sub, "%d of %d" % (count, len(op.data)))


def _finish(out):
    """one violation per signature and case (the first message is kept)"""
    seen, res = set(), []
    for sig, msg in out.violations:
        if sig not in seen:
            seen.add(sig)
            res.append((sig, msg))
    out.violations = res
    return out


def nodes_of(case_nodes):
    return [[0.0] + [k / 16.0 for k in ks] + [1.0] for ks in case_nodes]


def run_uniform_direct(case):
    out = Outcome()
    sub = "uniform_direct"
    X, y = build_data(case)
    lv = [int(l) for l in case["lv"]]
    op = make_regression(X, y, case, out, sub)
    if op is None:
        return _finish(out)
    check_scaling(out, sub, op, X, y)
    # protocol of test_Regression.py: training set := the (scaled) data, numPoints set for the level vector
    op.training_data = op.data
    op.training_target_values = op.target_values
    op.grid.numPoints = 2 ** np.asarray(lv, dtype=int) - 1
    nodes = [uniform_nodes(l) for l in lv]
    # the scaled points the operation holds (verified against the definition by check_scaling above)
    A_cands = design_candidates("uniform", nodes, np.asarray(op.data, dtype=float))
    A_ref = A_cands[0][1]
    tag = "lv=%s" % lv
    npts = A_ref.shape[1]
    with contextlib.redirect_stdout(io.StringIO()):
        A = op.build_A_matrix(lv)
        # build_C_matrix costs ~40 microseconds per pair of basis functions: on grids > 100 points only where it is used
        C = op.build_C_matrix(lv) if (npts <= 100 or case["matrix"] == "C") else None
        alpha = op.solve_regression(lv) if case["lam"] == 0 else op.solve_regression_smooth(lv)
    check_design(out, sub, A, A_cands, tag)
    causes = check_gram(out, sub, "uniform", lv, C, tag) if C is not None else None
    check_solution(out, sub, "uniform", lv, A_cands, y, alpha, case["lam"], case["matrix"], tag)
    aniso = len(set(lv)) > 1
    out.nontrivial = case["d"] >= 2 and aniso and case["lam"] > 0 and case["matrix"] == "C"
    out.cls("d=%d" % case["d"], "matrix=%s" % case["matrix"], "lambda=0" if case["lam"] == 0 else "lambda>0",
            "anisotropic" if aniso else "isotropic")
    if A_ref.shape[1] > A_ref.shape[0]:
        out.cls("more-basis-functions-than-samples")
    if causes:
        out.cls("gram-known-defect")
    scale_classes(out, case, [npts], len(y))
    out.info.update(max_basis=A_ref.shape[1], max_dim=case["d"])
    return _finish(out)


def run_dimwise_direct(case):
    from sparseSpACE.ComponentGridInfo import ComponentGridInfo
    out = Outcome()
    sub = "dimwise_direct"
    X, y = build_data(case)
    nodes = nodes_of(case["nodes"])
    op = make_regression(X, y, case, out, sub)
    if op is None:
        return _finish(out)
    check_scaling(out, sub, op, X, y)
    op.training_data = op.data
    op.training_target_values = op.target_values
    levels = [[0] * len(n) for n in nodes]          # the level lists are not read by the three methods
    cg = ComponentGridInfo(tuple(1 for _ in nodes), 1)
    A_cands = design_candidates("dimwise", nodes, np.asarray(op.data, dtype=float))
    A_ref = A_cands[0][1]
    tag = "nodes=%s" % [[round(v, 4) for v in n] for n in nodes]
    with contextlib.redirect_stdout(io.StringIO()):
        A = op.build_A_matrix_dimension_wise(nodes, levels)
        C = op.build_C_matrix_dimension_wise(nodes, levels)
        if case["lam"] == 0:
            alpha = op.solve_regression_dimension_wise(nodes, levels, cg)
        else:
            alpha = op.solve_regression_dimension_wise_smooth(nodes, levels, cg)
    check_design(out, sub, A, A_cands, tag)
    causes = check_gram(out, sub, "dimwise", nodes, C, tag)
    check_solution(out, sub, "dimwise", nodes, A_cands, y, alpha, case["lam"], case["matrix"], tag)
    aniso = len(set(tuple(n) for n in nodes)) > 1
    nonuni = any(len(set(np.round(np.diff(n), 12))) > 1 for n in nodes)
    out.nontrivial = case["d"] >= 2 and aniso and nonuni and case["lam"] > 0 and case["matrix"] == "C"
    out.cls("d=%d" % case["d"], "matrix=%s" % case["matrix"], "lambda=0" if case["lam"] == 0 else "lambda>0",
            "non-uniform" if nonuni else "uniform")
    if any(len(n) >= 5 for n in nodes):
        out.cls("has-touching-supports")
    if len(A_cands) > 1:
        out.cls("sample-within-rounding-below-node")
    if causes:
        out.cls("gram-known-defect")
    scale_classes(out, case, [A_ref.shape[1]], len(y))
    out.info.update(max_basis=A_ref.shape[1], max_dim=case["d"])
    return _finish(out)


# a train() after train_spatially_adaptive() on the same object raises AttributeError on the unchanged tree (train_spatially_
# adaptive replaces self.grid by a GlobalTrapezoidalGrid and sets dimension_wise; train() resets neither).  run_train can
# execute and recognise such a sequence (signature train/sequence/train-after-spatially-adaptive-keeps-dimension-wise-grid),
# but it is only generated once this flag is switched on (it is a separate finding that has to be listed first).
GENERATE_TRAIN_AFTER_SA = False


def _seed_call(case, index):
    """global RNGs (noisy_data draws from numpy's) are re-seeded before every call from (case rng, call index)"""
    seed = (int(case.get("rng", 0)) * 1000003 + 7919 * (index + 1)) % (2 ** 32)
    np.random.seed(seed)
    random.seed(seed)


def _calls_of(case):
    if "calls" in case:
        return case["calls"]
    return [dict(kind="train", pct=case["pct"], lmin=case["lmin"], lmax=case["lmax"], noisy=case["noisy"])]


def _check_train_state(out, sub, op, combi, lam, matrix, tag0):
    """all clauses of one train() call, evaluated on what the object reports NOW: training data / targets, scheme, get_result()"""
    Xt = np.asarray(op.training_data, dtype=float)
    yt = np.asarray(op.training_target_values, dtype=float)
    aniso = False
    nb = 0
    result = op.get_result()
    for g in combi.scheme:
        lv = [int(v) for v in g.levelvector]
        aniso = aniso or len(set(lv)) > 1
        tag = "%slv=%s" % (tag0, lv)
        key = tuple(lv)
        if key not in result:
            out.bad("%s/surplus/missing" % sub, tag)
            continue
        nodes = [uniform_nodes(l) for l in lv]
        A_cands = design_candidates("uniform", nodes, Xt)
        nb = max(nb, A_cands[0][1].shape[1])
        op.grid.numPoints = 2 ** np.asarray(lv, dtype=int) - 1
        with contextlib.redirect_stdout(io.StringIO()):
            A = op.build_A_matrix(lv)
        check_design(out, sub, A, A_cands, tag)
        check_solution(out, sub, "uniform", lv, A_cands, yt, result[key], lam, matrix, tag)
    s0 = sum(float(g.coefficient) for g in combi.scheme)
    if abs(s0 - 1.0) > TOL_SUM:
        out.bad("%s/scheme/combination-coefficients-do-not-sum-to-one" % sub, "%ssum=%r" % (tag0, s0))
    return dict(aniso=aniso, nb=nb, grids=len(combi.scheme), ntrain=len(yt))


def run_train(case):
    """one Regression object, a sequence of 1-3 train() / train_spatially_adaptive() calls; after EVERY call all clauses are
    evaluated against the object's current public state"""
    out = Outcome()
    sub = "train"
    X, y = build_data(case)
    op = make_regression(X, y, case, out, sub)
    if op is None:
        return _finish(out)
    ok = check_scaling(out, sub, op, X, y)
    lam, matrix = case["lam"], case["matrix"]
    calls = _calls_of(case)
    sa_solves = []
    observed = False
    aniso = False
    nb = grids = ntrain = 0
    seq = []
    prev = None
    for i, call in enumerate(calls):
        tag0 = "call %d/%d %s: " % (i + 1, len(calls), {k: v for k, v in call.items()})
        _seed_call(case, i)
        noisy = bool(call["noisy"])
        if call["kind"] == "train":
            seq.append("T")
            try:
                with contextlib.redirect_stdout(io.StringIO()):
                    combi = op.train(call["pct"], call["lmin"], call["lmax"], noisy)
            except AttributeError as e:
                fr = [f for f in traceback.extract_tb(e.__traceback__) if "/sparseSpACE/" in f.filename.replace("\\", "/")]
                if "S" in seq and getattr(op, "dimension_wise", False) and fr and fr[-1].name == "setCurrentArea":
                    out.bad("%s/sequence/train-after-spatially-adaptive-keeps-dimension-wise-grid" % sub, "%s%s" % (tag0, e))
                    out.cls("train-after-sa-crashed")
                    break
                raise
            if ok:
                check_pairs(out, sub, op, noisy)
            st_ = _check_train_state(out, sub, op, combi, lam, matrix, tag0)
            if (prev is not None and prev["kind"] == "train" and prev["pct"] == call["pct"] and prev["lmin"] == call["lmin"]
                    and call["lmax"] > prev["lmax"]):
                out.cls("second-train-same-percentage-larger-lmax")
                if noisy or prev["noisy"]:
                    out.cls("second-train-same-percentage-larger-lmax-noisy")
        else:
            seq.append("S")
            if not observed:
                _observe_sa(op, sa_solves)
                observed = True
            del sa_solves[:]
            with contextlib.redirect_stdout(io.StringIO()):
                sa = op.train_spatially_adaptive(call["pct"], call["margin"], call["tol"], call["maxev"], False, noisy)
            if ok:
                check_pairs(out, sub, op, noisy)
            st_ = _check_sa_state(out, sub, op, sa, sa_solves, lam, matrix, tag0)
        aniso = aniso or st_["aniso"]
        nb, grids, ntrain = max(nb, st_["nb"]), max(grids, st_["grids"]), max(ntrain, st_["ntrain"])
        if noisy:
            out.cls("noisy")
        prev = call
        if out.violations:
            break
    out.nontrivial = case["d"] >= 2 and aniso and ((lam > 0 and matrix == "C") or len(calls) >= 2)
    out.cls("d=%d" % case["d"], "matrix=%s" % matrix, "lambda=0" if lam == 0 else "lambda>0",
            "calls-per-object=%d" % len(calls), "sequence=" + "".join(seq), "grids=%d" % min(grids, 6))
    if not any(c["noisy"] for c in calls):
        out.cls("exact-targets")
    scale_classes(out, case, [nb], ntrain)
    out.info.update(max_basis=nb, max_dim=case["d"], max_grids=grids, max_train=ntrain, max_calls_per_object=len(calls))
    return _finish(out)


def _observe_sa(op, calls):
    """instance-level wrapper: record, for EVERY call, the grid that was passed to that call and the surpluses the operation
    holds for that level vector when the call returns (get_result() is the surpluses dict the combination reads)."""
    orig = op.calculate_operation_dimension_wise

    def wrapped(gridPointCoordsAsStripes, grid_point_levels, component_grid):
        r = orig(gridPointCoordsAsStripes, grid_point_levels, component_grid)
        key = tuple(int(v) for v in component_grid.levelvector)
        stored = op.get_result().get(key)
        calls.append(dict(nodes=tuple(tuple(float(v) for v in s) for s in gridPointCoordsAsStripes), lv=key,
                          alpha=None if stored is None else np.array(stored, dtype=float),
                          X=np.array(op.training_data, dtype=float), y=np.array(op.training_target_values, dtype=float)))
        return r
    op.calculate_operation_dimension_wise = wrapped


def _check_sa_state(out, sub, op, sa, calls, lam, matrix, tag0=""):
    """all clauses of one train_spatially_adaptive() call from the solves observed during that call and the final state"""
    if not calls:
        out.bad("%s/observer/no-component-grid-evaluated" % sub, tag0)
        return dict(aniso=False, nonuni=False, nb=0, grids=len(sa.scheme), ntrain=len(op.training_target_values), solves=0,
                    distinct=0, level=0, same_shape_new_coords=False)
    # (a) EVERY observed solve: the surpluses stored for the level vector when the call returns satisfy the normal equations
    #     on the grid (stripes) passed to THAT call.  Results are memoised on (grid, surpluses, data), so a re-evaluation of
    #     an unchanged grid costs nothing, while a stale vector on a changed grid is a new key and is checked.
    memo = {}
    design_cache = {}
    last_nodes = {}
    aniso = nonuni = same_shape_new_coords = False
    nb = 0
    for i, c in enumerate(calls):
        nodes, lv = c["nodes"], c["lv"]
        tag = "%ssolve %d of %d lv=%s nodes=%s" % (tag0, i + 1, len(calls), list(lv), [[round(v, 6) for v in n] for n in nodes])
        prev = last_nodes.get(lv)
        if prev is not None and prev != nodes and tuple(map(len, prev)) == tuple(map(len, nodes)):
            same_shape_new_coords = True
        last_nodes[lv] = nodes
        if c["alpha"] is None:
            out.bad("%s/surplus/missing" % sub, tag)
            continue
        if any(n[0] != 0.0 or n[-1] != 1.0 or any(b <= a for a, b in zip(n, n[1:])) or len(n) < 3 for n in nodes):
            out.bad("%s/grid/stripes-not-sorted-with-boundary" % sub, tag)
            continue
        key = (nodes, c["alpha"].tobytes(), c["X"].shape, c["y"].tobytes())
        if key in memo:
            continue
        memo[key] = True
        if nodes not in design_cache:
            design_cache[nodes] = design_candidates("dimwise", [list(n) for n in nodes], c["X"])
        A_cands = design_cache[nodes]
        nb = max(nb, A_cands[0][1].shape[1])
        aniso = aniso or len(set(nodes)) > 1
        nonuni = nonuni or any(len(set(np.round(np.diff(n), 12))) > 1 for n in nodes)
        check_solution(out, sub, "dimwise", [list(n) for n in nodes], A_cands, c["y"], c["alpha"], lam, matrix, tag)
    # (b) the matrices the library builds, on the largest distinct grids (cost bound: 6 grids, C only up to 40 points)
    distinct = sorted(design_cache, key=lambda n: -int(np.prod([len(x) - 2 for x in n])))
    for nodes in distinct[:6]:
        nl = [list(n) for n in nodes]
        tag = "%snodes=%s" % (tag0, [[round(v, 6) for v in n] for n in nl])
        with contextlib.redirect_stdout(io.StringIO()):
            A = op.build_A_matrix_dimension_wise(nl, None)
        check_design(out, sub, A, design_cache[nodes], tag)
        if lam > 0 and matrix == "C" and design_cache[nodes][0][1].shape[1] <= 40:
            with contextlib.redirect_stdout(io.StringIO()):
                C = op.build_C_matrix_dimension_wise(nl, None)
            check_gram(out, sub, "dimwise", nl, C, tag)
    # (c) final state: every scheme member has surpluses, and they are the ones recorded at its last solve
    last_alpha = {}
    for c in calls:
        last_alpha[c["lv"]] = c["alpha"]
    for g in sa.scheme:
        lv = tuple(int(v) for v in g.levelvector)
        stored = op.get_result().get(lv)
        if stored is None:
            out.bad("%s/surplus/missing" % sub, "final scheme member lv=%s" % (lv,))
        elif lv in last_alpha and last_alpha[lv] is not None and not np.array_equal(np.asarray(stored, dtype=float), last_alpha[lv]):
            out.bad("%s/surplus/changed-after-last-solve" % sub, "lv=%s" % (lv,))
    return dict(aniso=aniso, nonuni=nonuni, nb=nb, grids=len(sa.scheme), ntrain=len(calls[0]["y"]), solves=len(calls),
                distinct=len(design_cache), level=max(max(c["lv"]) for c in calls), same_shape_new_coords=same_shape_new_coords)


def run_train_sa(case):
    out = Outcome()
    sub = "train_sa"
    X, y = build_data(case)
    op = make_regression(X, y, case, out, sub)
    if op is None:
        return _finish(out)
    ok = check_scaling(out, sub, op, X, y)
    calls = []
    _observe_sa(op, calls)
    _seed_call(case, 0)
    with contextlib.redirect_stdout(io.StringIO()):
        sa = op.train_spatially_adaptive(case["pct"], case["margin"], case["tol"], case["maxev"], False, bool(case["noisy"]))
    if ok:
        check_pairs(out, sub, op, bool(case["noisy"]))
    lam, matrix = case["lam"], case["matrix"]
    r = _check_sa_state(out, sub, op, sa, calls, lam, matrix)
    if not calls:
        return _finish(out)
    out.nontrivial = case["d"] >= 2 and r["aniso"] and r["nonuni"] and ((lam > 0 and matrix == "C") or r["solves"] >= 20)
    out.cls("d=%d" % case["d"], "matrix=%s" % matrix, "lambda=0" if lam == 0 else "lambda>0",
            "non-uniform-grid" if r["nonuni"] else "uniform-grids-only",
            "solves<20" if r["solves"] < 20 else ("solves 20-49" if r["solves"] < 50 else "solves>=50"))
    if "gen" in case:
        out.cls("bulk-data", "target=" + case["gen"]["mode"])
    if r["same_shape_new_coords"]:
        out.cls("same-shape-different-coordinates-for-a-levelvector")
    if r["level"] >= 4:
        out.cls("level>=4-reached")
    scale_classes(out, case, [r["nb"]])
    out.info.update(max_basis=r["nb"], max_dim=case["d"], max_solves_per_case=r["solves"], max_distinct_grids=r["distinct"],
                    max_level=r["level"], max_train=r["ntrain"])
    return _finish(out)


OPTICOM_CRASH_SITES = {"optimize_coefficients_minimize_whole_error", "build_matrix_opticom",
                       "optimize_coefficients_minimize_whole_error_spatially_adaptive", "build_matrix_opticom_spatially_adaptive"}


def run_opticom(case):
    out = Outcome()
    sub = "opticom"
    X, y = build_data(case)
    op = make_regression(X, y, case, out, sub)
    if op is None:
        return _finish(out)
    with contextlib.redirect_stdout(io.StringIO()):
        if case["sa"]:
            combi = op.train_spatially_adaptive(case["pct"], case["margin"], case["tol"], case["maxev"], False, False)
        else:
            combi = op.train(case["pct"], case["lmin"], case["lmax"], False)
    rounds = [case["options"]]
    if case.get("second") and not case["sa"]:
        rounds.append(case["second"]["options"])
    applied = 0
    for rnd, options in enumerate(rounds):
        if rnd == 1:
            # same object trained again (same percentage, larger maximum level), then optimised again
            _seed_call(case, rnd)
            with contextlib.redirect_stdout(io.StringIO()):
                combi = op.train(case["pct"], case["lmin"], case["second"]["lmax"], False)
            out.cls("second-training-round")
        s0 = sum(float(g.coefficient) for g in combi.scheme)
        if abs(s0 - 1.0) > TOL_SUM:
            out.bad("%s/sum/combination-coefficients-before-optimisation" % sub, "round %d sum=%r" % (rnd + 1, s0))
        for option in options:
            tag = "%s option %d (lambda=%g, %d grids)" % ("spatially adaptive" if case["sa"] else "standard", option, case["lam"], len(combi.scheme))
            try:
                with contextlib.redirect_stdout(io.StringIO()):
                    if case["sa"]:
                        op.optimize_coefficients_spatially_adaptive(combi, option)
                    else:
                        op.optimize_coefficients(combi, option)
            except ValueError as e:
                # F-C20e is recognised by its cause: a size-1 array assigned to a scalar cell of the Opticom matrix
                fr = [f for f in traceback.extract_tb(e.__traceback__) if "/sparseSpACE/" in f.filename.replace("\\", "/")]
                if ("setting an array element with a sequence" in str(e) and fr and fr[-1].name in OPTICOM_CRASH_SITES
                        and (fr[-1].line or "").startswith("matrix[")):
                    out.bad("%s/crash/size-1-array-stored-into-scalar-cell:%s" % (sub, fr[-1].name), "%s: %s at %s:%d `%s`"
                            % (tag, e, fr[-1].filename.split("/")[-1], fr[-1].lineno, fr[-1].line))
                    out.cls("option-%d-crashed" % option)
                    continue
                raise
            applied += 1
            coeffs = np.array([np.asarray(g.coefficient, dtype=float).reshape(-1)[0] if np.size(g.coefficient) == 1 else np.nan
                               for g in combi.scheme])
            s = float(np.sum(coeffs))
            out.cls("option-%d-applied" % option)
            if not np.all(np.isfinite(coeffs)):
                out.bad("%s/sum/coefficients-not-finite" % sub, "%s: %s" % (tag, coeffs[:6]))
            elif abs(s - 1.0) > TOL_SUM + 1e-12 * float(np.sum(np.abs(coeffs))):
                # rounding of the normalisation c_i / sum(c) is proportional to sum|c_i| (ill-conditioned Opticom systems give
                # coefficients of size 1e8 that cancel); seen on the unchanged tree: <= 5e-17 * sum|c_i|
                out.bad("%s/sum/not-one" % sub, "%s: sum=%r, sum|c_i|=%.3g" % (tag, s, float(np.sum(np.abs(coeffs)))))
            if np.isfinite(s):
                out.info["max_sum_dev_rel"] = max(out.info.get("max_sum_dev_rel", 0.0), abs(s - 1.0) / max(1.0, float(np.sum(np.abs(coeffs)))))
    out.nontrivial = case["d"] >= 2 and len(combi.scheme) >= 3 and applied >= 2
    out.cls("d=%d" % case["d"], "sa" if case["sa"] else "standard", "lambda=0" if case["lam"] == 0 else "lambda>0")
    scale_classes(out, case, [] if case["sa"] else [int(np.prod(2 ** np.asarray(g.levelvector, dtype=int) - 1)) for g in combi.scheme])
    out.info.update(max_grids=len(combi.scheme), max_dim=case["d"])
    return _finish(out)


# ----------------------------------------------------------------------------------------------------------------
# strategies
# ----------------------------------------------------------------------------------------------------------------
LATTICE = [0.05, 0.95] + [k / 16.0 for k in range(1, 16)]


def _decode(code):
    """coordinate in the scaled space: half of the codes are lattice values (k/16 and the range ends), half arbitrary"""
    if code < 500:
        return LATTICE[code % len(LATTICE)]
    return round(0.05 + 0.9 * (code - 500) / 499.0, 6)


FEATURE_OFFSETS = [0.0, 0.0, -1.0, 2.5, 10.0, 1e4, -3e5]
FEATURE_UNITS = [1.0, 1.0, 0.5, 4.0, 100.0, 1e-9, 1e-6, 1e-3, 1e5, 1e9]


def _units(draw, d, lo=-8, few_small=False):
    """units of the features (the library rescales them: results must be invariant) and of the targets (never rescaled)"""
    aff = [[draw(st.sampled_from(FEATURE_OFFSETS)), draw(st.sampled_from(FEATURE_UNITS))] for _ in range(d)]
    scales = [1.0, 1.0, 1.0, 1.0, 1e3, 1e6, 1e-3] if few_small else [1.0, 1.0, 1.0] + TARGET_SCALES
    yscale = draw(st.sampled_from(scales))
    yoff = draw(st.sampled_from([0.0, 0.0, 0.0, 1.0, 100.0]))
    if yscale > 1 and lo >= -8:
        yoff = max(yoff, 1.0)       # unit targets are >= -1: keep the scaled ones >= 0 (targets below -1 are F-C20h)
    return dict(aff=aff, yscale=yscale, yoff=yoff)


@st.composite
def _data(draw, d, nmin=5, nmax=40, targets=True):
    n = draw(st.integers(nmin, nmax))
    codes = draw(st.lists(st.integers(0, 999), min_size=n * d, max_size=n * d))
    pts = [[_decode(codes[i * d + k]) for k in range(d)] for i in range(n)]
    res = dict(d=d, pts=pts, pin=draw(st.booleans()))
    lo = -8
    if targets:
        # one case in ten may have targets below -1 (rejected at construction, F-C20h); the callers only use targets >= 0
        lo = draw(st.sampled_from([-8] * 9 + [-80]))
        res["y"] = [v / 8.0 for v in draw(st.lists(st.integers(lo, 400), min_size=n, max_size=n))]
    res.update(_units(draw, d, lo))
    return res


def _lam_matrix(draw):
    return dict(lam=draw(st.sampled_from(LAMBDAS)), matrix=draw(st.sampled_from(["C", "C", "I"])))


def _many_samples(draw, d, lo, hi):
    """bulk data set (seeded uniform points, one of the target families) with MANY samples relative to the grid; the count is a
    drawn integer or a multiple of a power of two"""
    n = draw(st.one_of(st.integers(lo, hi), st.integers(-(-lo // 256), hi // 256).map(lambda k: 256 * k),
                       st.sampled_from([v for v in (512, 1024, 2048, 4096, 8192, 16384, 32768) if lo <= v <= hi] or [lo])))
    gen = dict(n=n, mode=draw(st.sampled_from(TARGET_MODES)), corner=[draw(st.integers(0, 1)) for _ in range(d)],
               width=draw(st.sampled_from([0.15, 0.25, 0.35, 0.5])), offset=draw(st.sampled_from([0.0, 0.0, 2.0])))
    return dict(d=d, gen=gen, **_units(draw, d))


# (level vector, sample range): m * N * d between 3e5 and 2e6, i.e. 2-8 blocks of a 2**18-entry hat evaluation
MANY_DIRECT = [([4, 4], 600, 3000), ([3, 5], 650, 2000), ([5, 3], 650, 2000), ([6], 4200, 12000), ([7], 2100, 9000), ([3, 3], 2700, 12000),
               ([2, 2], 15000, 40000), ([3, 3, 2], 600, 4500), ([2, 2, 2], 3300, 12000), ([4, 3], 1300, 5000)]
# (d, lmin, lmax, range of the data-set size): the training part is (1-pct)*0.85 of it
MANY_TRAIN = [(2, 4, 4, 900, 4500), (2, 3, 5, 1000, 2000), (1, 6, 6, 6500, 16000), (1, 7, 7, 3200, 14000), (2, 3, 3, 4200, 12000),
              (2, 1, 6, 2000, 4500), (3, 2, 4, 950, 2500), (1, 1, 6, 6500, 14000)]

BIG_LEVELVECTORS = [[7], [4, 3], [3, 4], [3, 3, 2], [2, 3, 3], [4, 4], [5, 3]]      # 127, 105, 105, 147, 147, 225, 217 points


def uniform_direct_strategy(tier):
    @st.composite
    def s(draw):
        pick = draw(st.integers(0, 19))
        if pick == 1:        # one case in twenty: many samples relative to the grid (m*N*d in 3e5 .. 2e6)
            lv, lo, hi = draw(st.sampled_from(MANY_DIRECT))
            lv = list(lv)
            npts = int(np.prod([2 ** l - 1 for l in lv]))
            case = _many_samples(draw, len(lv), lo, hi)
            # 'C' only where the library's matrix equals the Gram matrix (1-D / isotropic) and is cheap to build (<= 64 points)
            c_ok = len(set(lv)) == 1 and npts <= 64
            case.update(lam=draw(st.sampled_from([1e-6, 1e-4, 0.1, 1.0, 0.0])),
                        matrix=draw(st.sampled_from(["I", "I", "C"])) if c_ok else "I")
            case.update(lv=lv, rng=draw(st.integers(0, 2 ** 20)))
            return case
        if pick == 0:        # one case in twenty: a component grid with more than 100 points
            lv = list(draw(st.sampled_from(BIG_LEVELVECTORS)))
            d = len(lv)
            case = draw(_data(d, 20, 60))
            case.update(lam=draw(st.sampled_from([1e-6, 1e-4, 0.1, 1.0, 0.0])),
                        matrix=draw(st.sampled_from(["I", "I", "I", "C"])) if int(np.prod([2 ** l - 1 for l in lv])) <= 150 else "I")
        else:
            d = draw(st.integers(1, 3))
            lv = [draw(st.integers(1, 3)) for _ in range(d)]
            while int(np.prod([2 ** l - 1 for l in lv])) > (64 if tier == "quick" else 100):
                lv[int(np.argmax(lv))] -= 1
            case = draw(_data(d))
            case.update(_lam_matrix(draw))
        case.update(lv=lv, rng=draw(st.integers(0, 2 ** 20)))
        return case
    return s()


def dimwise_direct_strategy(tier):
    @st.composite
    def s(draw):
        d = draw(st.integers(1, 3))
        cap = {1: 15, 2: 7, 3: 4}[d]
        nodes = []
        for _ in range(d):
            ks = draw(st.sets(st.integers(1, 15), min_size=1, max_size=cap))
            nodes.append(sorted(ks))
        case = draw(_data(d))
        case.update(_lam_matrix(draw))
        case.update(nodes=nodes, rng=draw(st.integers(0, 2 ** 20)))
        return case
    return s()


def train_strategy(tier):
    lhi = 3 if tier == "quick" else 4
    pcts = [0.1, 0.2, 0.3, 0.4, 0.5]

    @st.composite
    def s(draw):
        pick = draw(st.integers(0, 15))
        if pick == 1:
            # one case in sixteen: many samples relative to the largest component grid (m_train*N*d in 3e5 .. 2e6)
            d, lmin, lmax, lo, hi = draw(st.sampled_from(MANY_TRAIN))
            case = _many_samples(draw, d, lo, hi)
            case.update(lam=draw(st.sampled_from([1e-6, 1e-4, 0.1, 1.0, 0.0])), matrix=draw(st.sampled_from(["I", "I", "I", "C"])) if d == 1 and lmax <= 6 else "I")
            calls = [dict(kind="train", pct=draw(st.sampled_from([0.1, 0.2, 0.3])), lmin=lmin, lmax=lmax, noisy=draw(st.sampled_from([0, 0, 1])))]
            case.update(calls=calls, rng=draw(st.integers(0, 2 ** 20)))
            return case
        if pick == 0:
            # one case in sixteen: a level range whose scheme has a component grid with more than 100 points
            # (build_C_matrix costs ~40 microseconds per pair of basis functions: matrix 'C' only where the scheme stays
            # below ~2 s; 3-D level ranges with such grids cost 3-40 s and are left to uniform_direct's single grids)
            d, lmin, lmax, c_ok = draw(st.sampled_from([(2, 1, 6, True), (2, 4, 4, True), (2, 3, 5, False), (1, 7, 7, True),
                                                        (2, 1, 6, True), (2, 4, 4, False)]))
            case = draw(_data(d, 20, 60))
            case.update(lam=draw(st.sampled_from([1e-6, 1e-4, 0.1, 1.0, 0.0])),
                        matrix=draw(st.sampled_from(["I", "I", "I", "I", "C"])) if c_ok else "I")
            calls = [dict(kind="train", pct=draw(st.sampled_from(pcts)), lmin=lmin, lmax=lmax, noisy=draw(st.sampled_from([0, 0, 1])))]
            if draw(st.booleans()) and lmin < lmax:
                calls.insert(0, dict(calls[0], lmax=lmax - 1, noisy=draw(st.sampled_from([0, 1]))))
            case.update(calls=calls, rng=draw(st.integers(0, 2 ** 20)))
            return case
        d = draw(st.integers(1, 3))
        case = draw(_data(d, 5, 60))
        case.update(_lam_matrix(draw))
        ncalls = draw(st.sampled_from([1, 1, 2, 2, 2, 3, 3]))
        pattern = draw(st.sampled_from(["grow", "grow", "free", "mixed"])) if ncalls > 1 else "free"
        calls = []
        if pattern == "grow":
            # same percentage, same minimum level, growing maximum level (the schemes share level vectors); noisy in half the calls
            pct, lmin = draw(st.sampled_from(pcts)), draw(st.integers(1, 2))
            lmax = draw(st.integers(lmin, lhi - 1))
            for _ in range(ncalls):
                calls.append(dict(kind="train", pct=pct, lmin=lmin, lmax=min(lmax, lhi + 1), noisy=draw(st.sampled_from([0, 1]))))
                lmax += draw(st.sampled_from([1, 1, 1, 0]))
        else:
            for _ in range(ncalls):
                kind = "train" if pattern == "free" else draw(st.sampled_from(["train", "sa"]))
                if kind == "train":
                    lmin = draw(st.integers(1, 2))
                    calls.append(dict(kind="train", pct=draw(st.sampled_from(pcts)), lmin=lmin, lmax=draw(st.integers(lmin, lhi)),
                                      noisy=draw(st.sampled_from([0, 0, 1]))))
                else:
                    p = _sa_params(draw, tier)
                    calls.append(dict(kind="sa", pct=p["pct"], margin=p["margin"], tol=p["tol"], maxev=min(p["maxev"], 25),
                                      noisy=draw(st.sampled_from([0, 0, 1]))))
            if not GENERATE_TRAIN_AFTER_SA:      # see the comment at the flag: keep the spatially adaptive calls at the end
                calls.sort(key=lambda c: c["kind"] == "sa")
            if any(c["kind"] == "sa" for c in calls) and case["lam"] > 0 and case["matrix"] == "C":
                # the known smoothing-matrix defects of the dimension-wise variant are the business of train_sa/dimwise_direct
                case["matrix"] = "I"
        case.update(calls=calls, rng=draw(st.integers(0, 2 ** 20)))
        return case
    return s()


def _sa_params(draw, tier):
    return dict(pct=draw(st.sampled_from([0.1, 0.2, 0.3, 0.5])), margin=draw(st.sampled_from([0.1, 0.4, 0.5, 0.7, 0.9, 1.0])),
                tol=draw(st.sampled_from([1e-5, 1e-3, 0.0])), maxev=draw(st.integers(0, 30 if tier == "quick" else 60)))


def train_sa_strategy(tier):
    @st.composite
    def small(draw):
        d = draw(st.integers(1, 3))
        case = draw(_data(d, 6, 60))
        case.update(_lam_matrix(draw))
        case.update(_sa_params(draw, tier))
        case.update(noisy=draw(st.sampled_from([0, 0, 0, 1])), rng=draw(st.integers(0, 2 ** 20)))
        return case

    @st.composite
    def bulk(draw):
        # long refinement histories: 2-D (some 3-D), 100-300 samples, 40-100 evaluations (thorough: up to 200), uneven targets;
        # mostly lambda = 0 or the identity matrix, where no known smoothing-matrix defect hides a wrong solve
        d = draw(st.sampled_from([2, 2, 2, 3]))
        lam, matrix = draw(st.sampled_from([(0.0, "C"), (0.0, "I"), (0.0, "I"), (1e-4, "I"), (0.1, "I"), (1e-6, "I"), (1.0, "I"), (0.1, "C"), (1e-4, "C")]))
        hi = 100 if tier == "quick" else 200
        maxev = draw(st.integers(40, 60)) if (lam > 0 and matrix == "C") else draw(st.integers(50, hi))
        gen = dict(n=draw(st.integers(100, 300)), mode=draw(st.sampled_from(TARGET_MODES)),
                   corner=[draw(st.integers(0, 1)) for _ in range(d)], width=draw(st.sampled_from([0.15, 0.15, 0.25, 0.35, 0.5])),
                   offset=draw(st.sampled_from([0.0, 0.0, 0.0, 2.0])))
        units = _units(draw, d, few_small=True)     # tiny targets end the error-driven refinement at once (absolute tolerance)
        return dict(d=d, gen=gen, lam=lam, matrix=matrix, **units, pct=draw(st.sampled_from([0.1, 0.2, 0.3])),
                    margin=draw(st.sampled_from([0.5, 0.5, 0.7, 0.7, 0.9, 0.9, 1.0])), tol=draw(st.sampled_from([1e-5, 0.0])),
                    maxev=maxev, noisy=draw(st.sampled_from([0, 0, 0, 1])), rng=draw(st.integers(0, 2 ** 20)))
    return st.one_of(small(), bulk(), bulk(), bulk())


def opticom_strategy(tier):
    @st.composite
    def s(draw):
        d = draw(st.integers(1, 3))
        case = draw(_data(d, 8, 60, targets=False))
        case.update(_lam_matrix(draw))
        sa = draw(st.booleans())
        case.update(sa=sa, rng=draw(st.integers(0, 2 ** 20)),
                    options=draw(st.lists(st.sampled_from([1, 2, 3]), min_size=1, max_size=4)))
        if sa:
            case.update(_sa_params(draw, tier))
            case["maxev"] = min(case["maxev"], 20)
        else:
            lmin = draw(st.integers(1, 2))
            case.update(lmin=lmin, lmax=draw(st.integers(lmin, 3)), pct=draw(st.sampled_from([0.1, 0.2, 0.3, 0.5])))
            if draw(st.sampled_from([0, 0, 1])):
                case["second"] = dict(lmax=min(case["lmax"] + 1, 4), options=draw(st.lists(st.sampled_from([1, 2, 3]), min_size=1, max_size=2)))
        return case
    return s()


# ----------------------------------------------------------------------------------------------------------------
# deterministic cases (shard 0): default constructor arguments (regression for F-C20a) and the repository's test grids
# ----------------------------------------------------------------------------------------------------------------
_LATTICE9 = [[a, b] for a in (0.25, 0.5, 0.75) for b in (0.25, 0.5, 0.75)]
_IDENT2 = [[0.0, 1.0], [0.0, 1.0]]


def uniform_direct_fixed():
    base = dict(d=2, pts=_LATTICE9, aff=_IDENT2, pin=False, y=[1., 2., 3., 4., 5., 6., 7., 8., 9.], rng=0, all_defaults=True)
    pts = [[((7 * i) % 19 + 1) / 21.0, ((11 * i) % 23 + 1) / 25.0] for i in range(30)]
    big = dict(d=2, pts=pts, pin=False, y=[1.0 + (i % 7) / 2.0 for i in range(30)], rng=0, all_defaults=True)
    many = dict(aff=_IDENT2, yscale=1.0, yoff=0.0, rng=11, all_defaults=True)
    G = lambda n, d: dict(n=n, mode="osc", corner=[0] * d, width=0.35, offset=0.0)
    return [  # many samples relative to the grid: m*N*d = 4.5e5 (2-D, 15x15 points) and 3.2e5 (1-D, 63 points)
            dict(many, d=2, gen=G(1000, 2), lam=0.1, matrix="I", lv=[4, 4]),
            dict(many, d=1, aff=[[0.0, 1.0]], gen=G(5000, 1), lam=1e-4, matrix="C", lv=[6]),
            # component grids with more than 100 points, targets in small units, features in unusual units
            dict(big, aff=[[1e4, 1e-6], [0.0, 1e9]], yscale=1e-9, yoff=0.0, lam=0.1, matrix="I", lv=[4, 3]),
            dict(big, aff=_IDENT2, yscale=1e-12, yoff=1.0, lam=1e-4, matrix="C", lv=[4, 3]),
            dict(big, aff=_IDENT2, yscale=1e6, yoff=0.0, lam=1e-4, matrix="I", lv=[4, 4]),
            dict(base, lam=0.0, matrix="C", lv=[2, 2]), dict(base, lam=0.1, matrix="C", lv=[2, 2]),
            dict(base, lam=0.1, matrix="C", lv=[1, 2]), dict(base, lam=0.1, matrix="I", lv=[2, 1])]


def dimwise_direct_fixed():
    one = dict(d=1, pts=[[0.3], [0.1], [0.9], [0.5], [0.7]], aff=[[0.0, 1.0]], pin=False, y=[1., 0., 2., 1., 3.], rng=0,
               all_defaults=True)
    two = dict(d=2, pts=_LATTICE9, aff=_IDENT2, pin=False, y=[1., 2., 3., 4., 5., 6., 7., 8., 9.], rng=0, all_defaults=True)
    return [dict(one, lam=0.1, matrix="C", nodes=[[4, 8, 12]]), dict(one, lam=0.1, matrix="C", nodes=[[8, 12]]),
            dict(two, lam=0.1, matrix="C", nodes=[[8], [4, 8]]), dict(two, lam=0.1, matrix="C", nodes=[[4, 8, 12], [8]])]


def train_fixed():
    base = dict(d=2, pts=_LATTICE9, aff=_IDENT2, pin=False, y=[1., 2., 3., 4., 5., 6., 7., 8., 9.], rng=0, all_defaults=True,
                pct=0.2, noisy=0)
    pts = [[((7 * i) % 19 + 1) / 21.0, ((11 * i) % 23 + 1) / 25.0] for i in range(30)]
    seq = dict(d=2, pts=pts, aff=_IDENT2, pin=False, y=[1.0 + (i % 7) / 2.0 for i in range(30)], rng=3, all_defaults=True)
    T = lambda lmax, noisy, pct=0.2: dict(kind="train", pct=pct, lmin=1, lmax=lmax, noisy=noisy)
    S = lambda noisy: dict(kind="sa", pct=0.2, margin=0.7, tol=1e-5, maxev=15, noisy=noisy)
    return [  # many samples relative to the grid: 1500 samples, 1020 of them training samples, on the 15x15 grid (m*N*d = 4.6e5)
            dict(d=2, gen=dict(n=1500, mode="osc", corner=[0, 0], width=0.35, offset=0.0), aff=_IDENT2, yscale=1.0, yoff=0.0, rng=12,
                 all_defaults=True, lam=0.1, matrix="I", calls=[dict(kind="train", pct=0.2, lmin=4, lmax=4, noisy=0)]),
            # schemes with a component grid of more than 100 points ((3,4)/(4,3): 105, (4,4): 225), targets in small units
            dict(seq, yscale=1e-9, yoff=0.0, lam=0.1, matrix="I", calls=[T(6, 0)]),
            dict(seq, aff=[[-3e5, 1e5], [2.5, 1e-6]], yscale=1e-12, yoff=0.0, lam=1e-4, matrix="I",
                 calls=[dict(kind="train", pct=0.2, lmin=4, lmax=4, noisy=0)]),
            dict(base, lam=0.1, matrix="C", lmin=1, lmax=3), dict(base, lam=0.0, matrix="C", lmin=1, lmax=2),
            dict(d=1, pts=[[0.3]] * 4 + [[0.6]], aff=[[0.0, 1.0]], pin=False, y=[1., 1., 1., 1., 2.], rng=0, all_defaults=True,
                 pct=0.5, noisy=0, lam=0.1, matrix="C", lmin=1, lmax=3),
            # same object, same percentage, growing maximum level, fresh noise in the second call
            dict(seq, lam=0.0, matrix="C", calls=[T(2, 1), T(3, 1)]), dict(seq, lam=0.1, matrix="I", calls=[T(2, 0), T(3, 1), T(4, 1)]),
            dict(seq, lam=0.1, matrix="I", calls=[T(2, 1), T(3, 0, 0.3), S(1)]), dict(seq, lam=0.0, matrix="I", calls=[S(0), S(1)])]


def train_sa_fixed():
    base = dict(d=2, pts=_LATTICE9, aff=_IDENT2, pin=False, y=[1., 2., 3., 4., 5., 6., 7., 8., 9.], rng=0, all_defaults=True,
                pct=0.2, noisy=0, margin=0.5, tol=1e-5)
    bulk = dict(d=2, gen=dict(n=200, mode="osc", corner=[0, 0], width=0.35, offset=0.0), aff=_IDENT2, pct=0.2, margin=0.7,
                tol=1e-5, maxev=100, noisy=0, all_defaults=True)
    peak = dict(bulk, gen=dict(n=200, mode="corner-peak", corner=[0, 0], width=0.15, offset=0.0), margin=0.9)
    # the three bulk cases re-solve a level vector on a grid of unchanged shape but different coordinates (lmax raised mid-run)
    return [dict(base, lam=0.1, matrix="C", maxev=12), dict(base, lam=0.1, matrix="I", maxev=12),
            dict(base, lam=0.0, matrix="C", maxev=0), dict(bulk, lam=0.0, matrix="I", rng=1), dict(bulk, lam=0.0, matrix="C", rng=4),
            dict(peak, lam=0.0, matrix="I", rng=20)]


def opticom_fixed():
    pts = [[((7 * i) % 19 + 1) / 21.0, ((11 * i) % 23 + 1) / 25.0] for i in range(30)]
    base = dict(d=2, pts=pts, aff=_IDENT2, pin=False, rng=5, all_defaults=True, pct=0.2, options=[1, 2, 3])
    return [dict(base, sa=False, lam=0.1, matrix="C", lmin=1, lmax=3), dict(base, sa=False, lam=0.0, matrix="C", lmin=1, lmax=3),
            dict(base, sa=True, lam=0.1, matrix="C", margin=0.5, tol=1e-5, maxev=10)]


# ----------------------------------------------------------------------------------------------------------------
# oracle self test
# ----------------------------------------------------------------------------------------------------------------
def selftest():
    # 1-D closed forms, h = 1/4: Stiff = tridiag(-4, 8, -4), Mass = tridiag(1/24, 1/6, 1/24)
    n4 = uniform_nodes(2)
    assert np.allclose(stiff_1d(n4), [[8, -4, 0], [-4, 8, -4], [0, -4, 8]])
    assert np.allclose(mass_1d(n4), np.array([[4, 1, 0], [1, 4, 1], [0, 1, 4]]) / 24.0)
    # level vector (1,2): one hat of width 1 (mass 1/3, stiffness 4) times three hats of width 1/2 (h = 1/4)
    G = gram_reference([uniform_nodes(1), uniform_nodes(2)])
    assert np.allclose(G, 4 * mass_1d(n4) + stiff_1d(n4) / 3.0)
    assert abs(G[0, 0] - (4 / 6.0 + 8 / 3.0)) < 1e-14
    # the Gram matrix is the integral of grad phi_i . grad phi_j: compare with a composite midpoint rule on a non-uniform grid
    nodes = [[0.0, 0.25, 0.5, 1.0], [0.0, 0.5, 0.625, 1.0]]
    G = gram_reference(nodes)
    q = (np.arange(1600) + 0.5) / 1600.0
    eps = 1e-7

    def dhat(nl, x):
        return (hat_matrix_1d(nl, x + eps) - hat_matrix_1d(nl, x - eps)) / (2 * eps)
    B = [hat_matrix_1d(nl, q) for nl in nodes]
    D = [dhat(nl, q) for nl in nodes]
    M1 = [B[k].T @ B[k] / len(q) for k in range(2)]
    S1 = [D[k].T @ D[k] / len(q) for k in range(2)]
    Gq = np.kron(S1[0], M1[1]) + np.kron(M1[0], S1[1])
    assert np.max(np.abs(G - Gq)) < 2e-2 * np.max(np.abs(G)), np.max(np.abs(G - Gq))
    w = np.linalg.eigvalsh(G)
    assert w.min() > 0 and np.allclose(G, G.T)
    # design matrix: partition of the tent; values at nodes are Kronecker deltas
    A = design_matrix([n4], [[0.25], [0.5], [0.3], [0.0], [1.0]])
    assert np.allclose(A, [[1, 0, 0], [0, 1, 0], [0.8, 0.2, 0], [0, 0, 0], [0, 0, 0]])
    A2 = design_matrix([uniform_nodes(1), n4], [[0.25, 0.75]])
    assert np.allclose(A2, [[0, 0, 0.5]])
    # exact solve passes, corrupted objects are rejected
    rng = np.random.default_rng(3)
    Xs = rng.uniform(0.05, 0.95, size=(20, 2))
    ys = rng.standard_normal(20)
    nodes = [uniform_nodes(2), uniform_nodes(1)]
    A = design_matrix(nodes, Xs)
    M = gram_reference(nodes)
    alpha = np.linalg.solve(A.T @ A / 20 + 0.1 * M, A.T @ ys / 20)
    o = Outcome()
    check_solution(o, "t", "uniform", [2, 1], [((), A)], ys, alpha, 0.1, "C", "selftest")
    check_gram(o, "t", "uniform", [2, 1], M, "selftest")
    check_design(o, "t", A, [((), A)], "selftest")
    assert not o.violations, o.violations
    o = Outcome()
    check_solution(o, "t", "uniform", [2, 1], [((), A)], ys, np.linalg.solve(A.T @ A / 20 + 0.1 * M, A.T @ ys), 0.1, "C", "selftest")
    assert [s for s, _ in o.violations] == ["t/normal-eq/residual-gram"], o.violations
    o = Outcome()
    check_solution(o, "t", "uniform", [2, 1], [((), A)], ys, np.linalg.solve(A.T @ A / 20 + 0.1 * gram_uniform_sub_b([2, 1]), A.T @ ys / 20),
                   0.1, "C", "selftest")
    assert [s for s, _ in o.violations] == ["t/normal-eq/" + CAUSE_B], o.violations
    o = Outcome()
    Mbad = M.copy()
    Mbad[0, 1] += 0.01
    check_gram(o, "t", "uniform", [2, 1], Mbad, "selftest")
    assert {s for s, _ in o.violations} == {"t/gram/mismatch", "t/gram/not-symmetric"}, o.violations
    o = Outcome()
    check_gram(o, "t", "dimwise", [n4], gram_model([n4], touching=True), "selftest")
    assert [s for s, _ in o.violations] == ["t/gram/" + CAUSE_D], o.violations
    o = Outcome()
    check_design(o, "t", A.T.copy().reshape(A.shape), [((), A)], "selftest")
    assert o.violations
    assert np.allclose(ref_scale([[0.0, 5.0], [2.0, 5.0], [1.0, 5.0]]), [[0.05, 0.05], [0.95, 0.05], [0.5, 0.05]])


SUBS = [
    # quick: about 4.5 CPU-minutes in total single-threaded (25-30 s wall on 16 idle cores); the budgets only cut in on a loaded machine.
    # train_sa has the largest share: long 2-D refinement histories are the only way to reach a re-solve of a level vector on a
    # grid of unchanged shape but different coordinates (about 2-4 % of the bulk cases)
    Sub("uniform_direct", uniform_direct_strategy, run_uniform_direct, dict(quick=960, thorough=8000),
        budget_s=dict(quick=20, thorough=130), fixed_cases=uniform_direct_fixed),
    Sub("dimwise_direct", dimwise_direct_strategy, run_dimwise_direct, dict(quick=1280, thorough=16000),
        budget_s=dict(quick=15, thorough=100), fixed_cases=dimwise_direct_fixed),
    Sub("train", train_strategy, run_train, dict(quick=1120, thorough=12000),
        budget_s=dict(quick=18, thorough=110), fixed_cases=train_fixed),
    Sub("train_sa", train_sa_strategy, run_train_sa, dict(quick=1600, thorough=10000),
        budget_s=dict(quick=30, thorough=140), fixed_cases=train_sa_fixed),
    Sub("opticom", opticom_strategy, run_opticom, dict(quick=640, thorough=6000),
        budget_s=dict(quick=20, thorough=120), fixed_cases=opticom_fixed),
]
