"""C05 — the reported result is the combination of the component results."""
import numpy as np
from hypothesis import strategies as st

from vlib.core import Outcome, Sub
from vlib import drive

PROPERTY = "C05"
RULE = ("standard: StandardCombi on {Trapezoidal(boundary T/F), ClenshawCurtis, GaussLegendre, Simpson, Leja, Lagrange, BSpline} grids, d 1-3, "
        "1<=lmin<=lmax<=lmin+3, vector-valued arbitrary integrand; dimadaptive: DimAdaptiveCombi (maxv=2) with drawn tolerance and point "
        "limit; dw / es: dimension-wise (all versions, rebalancing, boundary; global trapezoidal, high-order, Romberg, Lagrange and B-spline grids) and extend-split (version 0) runs driven by a scripted "
        "decision tape and stopped cleanly by a drawn max_evaluations, by the tolerance rule (tolerance = an error value observed in a twin run; then continued with tol=-1) or (a fifth of the cases) by the documented max_time rule under a clock owned by the harness whose readings advance by a drawn tick tape; a third of all cases in every sub uses the box in other units (whole box or single dimensions scaled by 2^-30 .. 2^20, tolerances relative to the volume), standard trapezoidal grids also with integrator=old, with and without reevaluate_at_end. Oracle: the reported value "
        "equals sum_grids c * sum_i w_i f(p_i) recomputed from the public points and weights (per area for extend-split; "
        "grid.integrate per component for hierarchical grids), equals get_points_and_weights() applied to f (nodal grids), equals "
        "evaluate_final_combi(), and is unchanged by reevaluate_at_end. Non-trivial = (standard) d>=2 and lmax>lmin; (dimadaptive) at "
        "least one refinement; (dw/es) a stop after >=2 refinement steps of which one refined a strict subset. Distinct = distinct case dict.")
ASSUMPTIONS = [
    "tolerance 1e-10 * (min(1, box volume) + sum|w f|) per output component (sums of up to a few thousand terms)",
    "the independent recomputation uses only public getters (get_points_and_weights_component_grid, coarsen_grid, grid.integrate) and evaluates the integrand itself",
    "extend-split is checked in its default coarsening version 0 as stated in the property",
]


_VOL = [1.0]        # volume of the current case's box: the natural magnitude of an integral of an O(1) integrand


def _close(x, y, scale):
    x = np.asarray(x, dtype=float).ravel()
    y = np.asarray(y, dtype=float).ravel()
    return x.shape == y.shape and bool(np.all(np.abs(x - y) <= 1e-10 * (min(1.0, _VOL[0]) + scale)))


def _scale_class(case):
    s = case.get("boxscale")
    if not s:
        return "box-scale=unit"
    v = drive.box_volume(case)
    return "box-scale:volume%s" % ("<1e-8" if v < 1e-8 else (">1e8" if v > 1e8 else "-moderate"))


def _integrand(case):
    dim = case["dim"]
    _VOL[0] = drive.box_volume(case)
    a0, b0 = drive.unscaled_box(case)
    g1 = drive.scaled_function(drive.fit_to_box(drive.driver_function(dim, case["fseed"]), a0, b0), case)
    g2 = drive.scaled_function(drive.fit_to_box(drive.driver_function(dim, case["fseed"] + 17), a0, b0), case)
    comps = [g1, g2, lambda x: g1(x) * 0.25 - 2.0 * x[0]][: case.get("nout", 2)]
    return comps, drive.vector_function(comps)


def _wsum(comps, pts, w):
    tot = np.zeros(len(comps))
    mag = 0.0
    for p, wi in zip(pts, w):
        v = np.array([c(p) for c in comps])
        tot += wi * v
        mag += abs(wi) * float(np.max(np.abs(v)))
    return tot, mag


# ---------------------------------------------------------------------------------------------------------------
def make_local_grid(name, a, b, boundary, integrator="default"):
    from sparseSpACE import Grid as G
    if name == "trapezoidal":
        if integrator == "old":
            return G.TrapezoidalGrid(a, b, boundary=boundary, integrator="old")
        return G.TrapezoidalGrid(a, b, boundary=boundary)
    if name == "clenshawcurtis":
        return G.ClenshawCurtisGrid(a, b)
    if name == "gausslegendre":
        return G.GaussLegendreGrid(a, b)
    if name == "simpson":
        return G.SimpsonGrid(a, b)
    if name == "lagrange":
        return G.LagrangeGrid(a, b, p=2)
    if name == "bspline":
        return G.BSplineGrid(a, b, p=3)
    if name == "leja":
        return G.LejaGrid(a, b)
    if name.startswith("mixed"):
        # MixedGrid of 1D grids with per-dimension families / boundary flags ("mixed:tT,cT,tF": trapezoidal with boundary,
        # Clenshaw-Curtis, trapezoidal without boundary points, ...)
        parts = (name.split(":")[1].split(",") * len(a))[: len(a)]
        grids = []
        for d, q in enumerate(parts):
            fam, flag = q[0], q[1] == "T"
            if fam == "t":
                grids.append(G.TrapezoidalGrid1D(a=a[d], b=b[d], boundary=flag))
            elif fam == "c":
                grids.append(G.ClenshawCurtisGrid1D(a=a[d], b=b[d], boundary=True))
            else:
                grids.append(G.GaussLegendreGrid1D(a=a[d], b=b[d], boundary=True))
        return G.MixedGrid(a=a, b=b, grids=grids)
    raise ValueError(name)


def run_standard(case):
    from sparseSpACE.StandardCombi import StandardCombi
    from sparseSpACE.GridOperation import Integration
    out = Outcome()
    sub = "standard"
    dim = case["dim"]
    a, b = np.array(case["a"]), np.array(case["b"])
    comps, f = _integrand(case)
    grid = make_local_grid(case["grid"], a, b, case["boundary"], case.get("integrator", "default"))
    op = Integration(f, grid=grid, dim=dim, reference_solution=None, print_level=drive.Q, log_level=drive.Q)
    combi = StandardCombi(a, b, operation=op, print_level=drive.Q, log_level=drive.Q)
    with drive.quiet():
        scheme, _, result = combi.perform_operation(case["lmin"], case["lmax"])
    result = np.array(result, dtype=float)
    nodal = case["grid"] not in ("lagrange", "bspline")
    tot = np.zeros(len(comps))
    mag = 0.0
    for cg in scheme:
        if nodal:
            with drive.quiet():
                pts, w = combi.get_points_and_weights_component_grid(cg.levelvector)
            t, m = _wsum(comps, [tuple(float(x) for x in p) for p in pts], w)
        else:
            with drive.quiet():
                t = np.asarray(grid.integrate(f, cg.levelvector, a, b), dtype=float)
            m = float(np.max(np.abs(t)))
        tot += cg.coefficient * t
        mag += abs(cg.coefficient) * m
    if not _close(result, tot, mag):
        out.bad(sub + "/result-not-sum-of-components/" + case["grid"].split(":")[0], "reported %s independent %s" % (result, tot))
    if nodal:
        with drive.quiet():
            P, W = combi.get_points_and_weights()
        t, m = _wsum(comps, [tuple(float(x) for x in p) for p in P], W)
        if not _close(result, t, m):
            out.bad(sub + "/points-and-weights-do-not-reproduce-result/" + case["grid"].split(":")[0], "reported %s via weights %s" % (result, t))
    out.nontrivial = dim >= 2 and case["lmax"] > case["lmin"]
    out.cls("grid=" + case["grid"].split(":")[0], "d=%d" % dim, "integrator=" + case.get("integrator", "default"), _scale_class(case))
    return out


def run_dimadaptive(case):
    from sparseSpACE.DimAdaptiveCombi import DimAdaptiveCombi
    from sparseSpACE.GridOperation import Integration
    out = Outcome()
    sub = "dimadaptive"
    dim = case["dim"]
    a, b = np.array(case["a"]), np.array(case["b"])
    comps, f = _integrand(dict(case, nout=1))
    grid = make_local_grid(case["grid"], a, b, True)
    # a reference value is required by the driver; use a high-order tensor Gauss value of the integrand
    xs, ws = np.polynomial.legendre.leggauss(24)
    ref = 0.0
    import itertools
    for idx in itertools.product(range(24), repeat=dim):
        p = [a[d] + (b[d] - a[d]) * (xs[i] + 1) / 2 for d, i in enumerate(idx)]
        ref += np.prod([ws[i] * (b[d] - a[d]) / 2 for d, i in enumerate(idx)]) * comps[0](p)
    op = Integration(f, grid=grid, dim=dim, reference_solution=np.array([ref]), print_level=drive.Q, log_level=drive.Q)
    combi = DimAdaptiveCombi(a, b, operation=op)
    with drive.quiet():
        scheme, err, result, errors, numpts = combi.perform_combi(case["lmin"], 2, case["tol"], max_number_of_points=case["maxpts"])
    result = np.array(result, dtype=float).ravel()
    tot = np.zeros(1)
    mag = 0.0
    fresh = make_local_grid(case["grid"], a, b, True)
    for cg in scheme:
        with drive.quiet():
            t = np.asarray(fresh.integrate(f, cg.levelvector, a, b), dtype=float).ravel()
        tot += cg.coefficient * t
        mag += abs(cg.coefficient) * float(np.max(np.abs(t)))
    if not _close(result, tot, mag):
        out.bad(sub + "/result-not-sum-of-components/" + case["grid"], "reported %s independent %s (scheme of %d grids)" % (result, tot, len(scheme)))
    if not _close(err, np.abs(result - ref), mag):
        out.bad(sub + "/reported-difference-wrong", "%s vs %s" % (err, np.abs(result - ref)))
    out.nontrivial = len(errors) >= 1 and dim >= 2
    out.cls("grid=" + case["grid"], "refinements=%d" % min(len(errors), 5), _scale_class(case))
    out.info = dict(max_refinements=len(errors), max_grids=len(scheme))
    return out


# ---------------------------------------------------------------------------------------------------------------
def make_global_grid(case):
    """None -> default GlobalTrapezoidalGrid of drive.build_dw"""
    from sparseSpACE import Grid as G
    a, b = np.array(case["a"], dtype=float), np.array(case["b"], dtype=float)
    k = case.get("dwgrid", "trapezoidal")
    if k == "highorder":
        return G.GlobalHighOrderGrid(a, b, boundary=True, max_degree=case.get("max_degree", 3))
    if k == "romberg":
        return G.GlobalRombergGrid(a, b, boundary=True)
    if k == "lagrange":
        return G.GlobalLagrangeGrid(a, b, boundary=True, p=2)
    if k == "bspline":
        return G.GlobalBSplineGrid(a, b, boundary=True, p=3)
    return None


def _independent_dw_hierarchical(sa, case, f):
    """hierarchical global grids: the operation applied independently = integrate on a FRESH grid object per component grid"""
    tot = np.zeros(f.output_length())
    mag = 0.0
    for cg in sa.scheme:
        coords, levels, _ = sa.get_point_coord_for_each_dim(cg.levelvector)
        g = make_global_grid(case)
        with drive.quiet():
            g.set_grid(coords, levels)
            t = np.asarray(g.integrate(f, cg.levelvector, np.array(case["a"], dtype=float), np.array(case["b"], dtype=float)), dtype=float)
        tot += cg.coefficient * t
        mag += abs(cg.coefficient) * float(np.max(np.abs(t)))
    return tot, mag


def _independent_dw(sa, comps):
    tot = np.zeros(len(comps))
    mag = 0.0
    for cg in sa.scheme:
        with drive.quiet():
            pts, w = sa.get_points_and_weights_component_grid(cg.levelvector)
        t, m = _wsum(comps, [tuple(float(x) for x in p) for p in pts], w)
        tot += cg.coefficient * t
        mag += abs(cg.coefficient) * m
    return tot, mag


def _independent_es(sa, comps):
    tot = np.zeros(len(comps))
    mag = 0.0
    per_area = []
    for o in sa.refinement.get_objects():
        ta = np.zeros(len(comps))
        for cg in sa.scheme:
            lv, do = sa.coarsen_grid(cg.levelvector, o)
            if do:
                sa.grid.setCurrentArea(o.start, o.end, lv)
                pts, w = sa.grid.get_points_and_weights()
                t, m = _wsum(comps, [tuple(float(x) for x in p) for p in pts], w)
                ta += cg.coefficient * t
                mag += abs(cg.coefficient) * m
        per_area.append(ta)
        tot += ta
    return tot, mag, per_area


def _es_grid(case):
    """extend-split on other nodal grid families (None -> the default TrapezoidalGrid of drive.build_es)"""
    k = case.get("esgrid", "trapezoidal")
    if k == "trapezoidal":
        return None
    return make_local_grid(k, np.array(case["a"], dtype=float), np.array(case["b"], dtype=float), True)


def run_adaptive(case):
    out = Outcome()
    kind = case["kind"]
    sub = kind
    comps, f = _integrand(case)
    build = drive.build_dw if kind == "dw" else drive.build_es
    st_ = dict(steps=0, strict=0, before=None)

    def before_refine(k):
        st_["before"] = sum(len(drive.dw_objects(sa, d)) for d in range(sa.dim)) if kind == "dw" else len(sa.refinement.get_objects())

    def after_refine(k):
        st_["steps"] += 1
        after = sum(len(drive.dw_objects(sa, d)) for d in range(sa.dim)) if kind == "dw" else len(sa.refinement.get_objects())
        grow = after - st_["before"]
        full = st_["before"] if kind == "dw" else st_["before"] * (2 ** sa.dim - 1)
        if 0 < grow < full:
            st_["strict"] += 1

    hier = kind == "dw" and case.get("dwgrid") in ("lagrange", "bspline")
    if kind == "dw":
        if case.get("dwgrid", "trapezoidal") != "trapezoidal":
            case = dict(case, boundary=True)
        sa, op = build(case, f, grid=make_global_grid(case))
    else:
        sa, op = build(case, f, grid=_es_grid(case))
    case = dict(case, maxsteps=30)      # depth guard: targeted tapes would otherwise refine below double precision
    store = {} if case["fseed"] % 3 == 0 else None
    expected_store = {}

    def on_eval(k):
        if store is not None:
            with drive.quiet():
                expected_store[int(sa.get_total_num_points())] = np.array(sa.operation.get_result(), dtype=float)
    tol = -1
    if case.get("tolstop") is not None and case.get("extra") and not case.get("clock"):
        # first stop caused by the TOLERANCE rule (then continued with a tighter one): the tolerance is an error value observed
        # in a twin run without tolerance, so the run stops at the first evaluation whose error is at most that value
        sa0, op0 = (build(case, _integrand(case)[1], grid=make_global_grid(case)) if kind == "dw" else build(case, _integrand(case)[1], grid=_es_grid(case)))
        drive.run_history(sa0, case, clean_stop=True, reevaluate_at_end=False)
        E0 = [float(x) for x in sa0.error_array]
        if len(E0) >= 2 and all(np.isfinite(E0)):
            tol = E0[case["tolstop"] % (len(E0) - 1)] * (1 + 1e-9)
    res, _ = drive.run_history(sa, case, on_eval=on_eval, before_refine=before_refine, after_refine=after_refine, clean_stop=True, tol=tol,
                               reevaluate_at_end=False, **({} if store is None else dict(solutions_storage=store)))
    if tol != -1 and res is not None:
        out.cls("first-stop-by-" + ("tolerance" if int(res[6][-1]) <= int(case["maxev"]) else "point-limit"))
    if res is None:
        out.cls("ended-by-step-cap")    # no regular stop was reached within 30 steps: nothing is reported by the library
        return out
    def check_stop(res, stage):
        reported = np.array(res[3], dtype=float)
        tag = "%s %s stop after %d refinement steps (%d points)" % (kind, stage, st_["steps"], res[6][-1])
        if hier:
            tot, mag = _independent_dw_hierarchical(sa, case, _integrand(case)[1])
        elif kind == "dw":
            tot, mag = _independent_dw(sa, comps)
        else:
            tot, mag, per_area = _independent_es(sa, comps)
            vals = [np.asarray(o.value, dtype=float) for o in sa.refinement.get_objects()]
            if not _close(np.sum(vals, axis=0), reported, mag):
                out.bad(sub + "/result-not-sum-of-area-values", "%s: sum area.value %s reported %s" % (tag, np.sum(vals, axis=0), reported))
            for v, t, o in zip(vals, per_area, sa.refinement.get_objects()):
                if not _close(v, t, mag):
                    out.bad(sub + "/area-value-not-combination-of-its-grids", "%s area %s-%s: %s vs %s" % (tag, list(o.start), list(o.end), v, t))
                    break
        if not _close(reported, tot, mag):
            out.bad(sub + "/result-not-sum-of-components", "%s: reported %s independent %s" % (tag, reported, tot))
        if kind == "dw" and not hier:
            with drive.quiet():
                P, W = sa.get_points_and_weights()
            t, m = _wsum(comps, [tuple(float(x) for x in p) for p in P], W)
            if not _close(reported, t, m):
                out.bad(sub + "/points-and-weights-do-not-reproduce-result", "%s: reported %s via weights %s" % (tag, reported, t))
        return reported, tot, mag, tag

    reported, tot, mag, tag = check_stop(res, "first")
    # documented driver option solutions_storage: the result of every evaluation, keyed by the point count of that evaluation
    if store is not None:
        for key, val in expected_store.items():
            if key not in store or not _close(store[key], val, mag):
                out.bad(sub + "/solutions_storage/entry-is-not-the-result-of-its-evaluation", "%s: entry for %d points holds %s, the result of that evaluation was %s" % (
                    tag, key, store.get(key), val))
                break
        out.cls("solutions_storage-checked")
    if case.get("extra", 0) and not out.violations:
        # query at one stop, continue the SAME object with larger limits, query again: the publicly exposed points and
        # weights and the component sums must describe the NEW stop
        # depth guard as in the first stage: a targeted tape halves one interval per step and would refine below double
        # precision (the library's own start < mid < end assertion) if the continuation added 40-80 single-point steps
        orig_refine = sa.refine
        cont_steps = [0]

        def capped_refine():
            if st_["steps"] + cont_steps[0] >= 40:
                raise drive.StopHistory()
            cont_steps[0] += 1
            orig_refine()
        sa.refine = capped_refine
        with drive.quiet():
            try:
                res = sa.continue_adaptive_refinement(tol=-1, max_evaluations=int(res[6][-1]) + int(case["extra"]))
            except drive.StopHistory:
                res = None
            finally:
                sa.refine = orig_refine
        if res is None:
            out.cls("ended-by-step-cap")
            return out
        out.cls("query-continue-query")
        reported, tot, mag, tag = check_stop(res, "second (after continue_adaptive_refinement)")
        # (the re-evaluation clauses below compare with a single-stage twin run and are checked in the cases without a second stage)
        out.nontrivial = st_["steps"] >= 2 and st_["strict"] >= 1
        out.cls("version=%d" % case["version"], "steps>=2" if st_["steps"] >= 2 else "steps<2", _scale_class(case))
        if kind == "dw":
            out.cls("dwgrid=" + case.get("dwgrid", "trapezoidal"))
        out.info = dict(max_steps=st_["steps"], max_points=int(res[6][-1]))
        return out
    # re-evaluating the final refinement from scratch
    with drive.quiet():
        fin, _n = sa.evaluate_final_combi()
    fin = np.array(fin, dtype=float)
    if not _close(fin, reported, mag):
        if _close(fin, reported + tot, 2 * mag):
            out.bad(sub + "/evaluate_final_combi/adds-recomputation-to-previous-result", "%s: %s = previous %s + recomputed %s" % (tag, fin, reported, tot))
        else:
            out.bad(sub + "/evaluate_final_combi/differs", "%s: %s vs reported %s" % (tag, fin, reported))
    # twin run with reevaluate_at_end=True
    comps2, f2 = _integrand(case)
    sa2, op2 = build(case, f2, grid=make_global_grid(case)) if kind == "dw" else build(case, f2, grid=_es_grid(case))
    res2, _ = drive.run_history(sa2, case, clean_stop=True, reevaluate_at_end=True)
    if res2 is None:
        raise RuntimeError("twin run did not stop although the first run did")
    rep2 = np.array(res2[3], dtype=float)
    if not _close(rep2, reported, mag):
        if _close(rep2, reported + tot, 2 * mag):
            out.bad(sub + "/reevaluate_at_end/adds-recomputation-to-previous-result", "%s: %s = %s + %s" % (tag, rep2, reported, tot))
        else:
            out.bad(sub + "/reevaluate_at_end/differs", "%s: %s vs %s" % (tag, rep2, reported))
    out.nontrivial = st_["steps"] >= 2 and st_["strict"] >= 1
    out.cls("version=%d" % case["version"], "steps>=2" if st_["steps"] >= 2 else "steps<2", _scale_class(case))
    if case.get("clock"):
        by_time = int(res[6][-1]) <= int(case["maxev"])
        out.cls("max_time/" + ("stopped-by-the-clock-after-%s-steps" % (">=1" if st_["steps"] >= 1 else "0") if by_time else "point-limit-first"),
                "max_time/clock-model=" + case["clock"]["model"])
    if kind == "dw":
        out.cls("dwgrid=" + case.get("dwgrid", "trapezoidal"))
    else:
        out.cls("esgrid=" + case.get("esgrid", "trapezoidal").split(":")[0], "auto=%s" % case.get("auto"))
        if ":" in case.get("esgrid", "") and len(set(q[1] for q in case["esgrid"].split(":")[1].split(","))) > 1:
            out.cls("mixed-grid-with-different-boundary-flags")
    out.info = dict(max_steps=st_["steps"], max_points=int(res[6][-1]))
    return out


# ---------------------------------------------------------------------------------------------------------------
def standard_strategy(tier):
    @st.composite
    def s(draw):
        dim = draw(st.integers(1, 3))
        grid = draw(st.sampled_from(["trapezoidal", "trapezoidal", "clenshawcurtis", "gausslegendre", "simpson", "lagrange",
                                     "bspline", "leja", "mixed"]))
        if grid == "mixed":
            grid = "mixed:" + ",".join(draw(st.lists(st.sampled_from(["tT", "tF", "tT", "tF", "cT", "gT"]), min_size=dim, max_size=dim)))
        lmin = draw(st.integers(1, 2))
        span = 3 if grid in ("trapezoidal", "simpson") or grid.startswith("mixed") else 2
        lmax = lmin + draw(st.integers(0, span if dim < 3 else 2))
        a, b = drive.st_box(draw, dim)
        c = dict(dim=dim, grid=grid, lmin=lmin, lmax=lmax, a=a, b=b,
                 boundary=draw(st.booleans()) if grid == "trapezoidal" else True,
                 nout=draw(st.integers(1, 3)), fseed=draw(st.integers(0, 10 ** 6)))
        if grid == "trapezoidal":
            c["integrator"] = draw(st.sampled_from(["default", "default", "old"]))
        return drive.apply_boxscale(c, drive.st_boxscale(draw, dim))
    return s()


def dimadaptive_strategy(tier):
    @st.composite
    def s(draw):
        dim = draw(st.integers(2, 3))
        a, b = drive.st_box(draw, dim)
        c = dict(dim=dim, grid=draw(st.sampled_from(["trapezoidal", "clenshawcurtis", "gausslegendre"])), lmin=1, a=a, b=b,
                 tol=draw(st.sampled_from([1e-2, 1e-3, 1e-4, 1e-6, 1e-8])), maxpts=draw(st.integers(30, 600)),
                 fseed=draw(st.integers(0, 10 ** 6)))
        return drive.apply_boxscale(c, drive.st_boxscale(draw, dim))
    return s()


def dw_strategy(tier):
    @st.composite
    def s(draw):
        c = draw(drive.st_dw_case(tier=tier))
        c["nout"] = draw(st.integers(1, 3))
        c["extra"] = draw(st.sampled_from([0, 0, 1, 10, 40]))
        c["tolstop"] = draw(st.one_of(st.none(), st.integers(0, 20)))
        c["dwgrid"] = draw(st.sampled_from(["trapezoidal", "trapezoidal", "trapezoidal", "highorder", "highorder", "romberg", "lagrange", "bspline"]))
        c["max_degree"] = draw(st.integers(2, 4))
        if draw(st.integers(0, 4)) == 0:
            # documented stopping rule max_time with a clock owned by the harness (drive.FakeClock): the budget runs out at a
            # drawn reading of the clock - before / after an evaluation or inside a refinement step
            c["clock"] = dict(ticks=draw(st.lists(st.sampled_from([1.0, 0.25, 1.0, 0.0, 3.0]), min_size=1, max_size=6)),
                              model=draw(st.sampled_from(["same", "same", "same", "epoch"])),
                              max_time=draw(st.sampled_from([2.5, 3.5, 1.5, 6.0, 0.9, 4.5, 0.1])))
            c["clock_case"] = True
        if c["dwgrid"] == "romberg":        # the Romberg grid asserts exactly dyadic step widths
            c["a"] = [0.0] * c["dim"]
            c["b"] = [draw(st.sampled_from([1.0, 2.0, 0.5])) for _ in range(c["dim"])]
            c["rebalancing"] = False
        if c.pop("clock_case", False):
            c["maxev"] = 2 * c["maxev"]
        if c["dwgrid"] in ("lagrange", "bspline"):
            c["maxev"] = min(c["maxev"], 150)
        sc = drive.st_boxscale(draw, c["dim"])
        if c["dwgrid"] == "romberg" and sc is not None:
            sc = [2.0 ** round(np.log2(x)) for x in sc]      # dyadic step widths stay dyadic
        return drive.apply_boxscale(c, sc)
    return s()


def es_strategy(tier):
    @st.composite
    def s(draw):
        c = draw(drive.st_es_case(tier=tier, versions=(0,)))
        c["nout"] = draw(st.integers(1, 2))
        c["extra"] = draw(st.sampled_from([0, 0, 1, 20, 80]))
        c["tolstop"] = draw(st.one_of(st.none(), st.integers(0, 20)))
        if draw(st.integers(0, 4)) == 0:
            # documented stopping rule max_time with a clock owned by the harness (drive.FakeClock): the budget runs out at a
            # drawn reading of the clock - before / after an evaluation or inside a refinement step
            c["clock"] = dict(ticks=draw(st.lists(st.sampled_from([1.0, 0.25, 1.0, 0.0, 3.0]), min_size=1, max_size=6)),
                              model=draw(st.sampled_from(["same", "same", "same", "epoch"])),
                              max_time=draw(st.sampled_from([2.5, 3.5, 1.5, 6.0, 0.9, 4.5, 0.1])))
            c["clock_case"] = True
        c["maxev"] = min(c["maxev"], 700)
        c["esgrid"] = draw(st.sampled_from(["trapezoidal", "trapezoidal", "clenshawcurtis", "gausslegendre", "simpson", "mixed", "mixed"]))
        if c["esgrid"] == "mixed":
            c["esgrid"] = "mixed:" + ",".join(draw(st.lists(st.sampled_from(["tT", "tF", "tT", "tF"]), min_size=c["dim"], max_size=c["dim"])))
        if c["esgrid"] != "trapezoidal":
            # split_single_dim with a non-trapezoidal grid trips the library's own assertion in get_sum_sibling_value (it
            # expects 2 or 2^d evaluated children); the statement does not quantify over that combination
            c["ssd"] = False
            c["boundary"] = True
            c["maxev"] = min(c["maxev"], 400)
        if c.pop("clock_case", False):
            c["maxev"] = 1500 if c["esgrid"] == "trapezoidal" else 700     # the clock, not the point limit, should end most of these runs
        return drive.apply_boxscale(c, drive.st_boxscale(draw, c["dim"]))
    return s()


def selftest():
    # weighted-sum helper against a closed form: trapezoid on [0,1] of f(x)=x with 3 points
    t, m = _wsum([lambda x: x[0]], [(0.0,), (0.5,), (1.0,)], [0.25, 0.5, 0.25])
    assert abs(t[0] - 0.5) < 1e-15
    assert not _close([1.0], [1.0 + 1e-6], 1.0)
    assert _close([1.0], [1.0 + 1e-13], 1.0)


SUBS = [
    Sub("standard", standard_strategy, run_standard, dict(quick=250, thorough=4000), budget_s=dict(quick=25, thorough=300)),
    Sub("dimadaptive", dimadaptive_strategy, run_dimadaptive, dict(quick=100, thorough=1500), budget_s=dict(quick=20, thorough=300)),
    Sub("dw", dw_strategy, run_adaptive, dict(quick=250, thorough=4000), budget_s=dict(quick=40, thorough=500)),
    Sub("es", es_strategy, run_adaptive, dict(quick=120, thorough=2000), budget_s=dict(quick=40, thorough=500)),
]
