"""C10 — hierarchical bases interpolate: surpluses reproduce every nodal value.

Objects under test
  * sparseSpACE/Hierarchization.py  HierarchizationLSG (pole-wise solve of the basis collocation system, dense solve
    below 15 points per pole, QR from 15 points on),
  * sparseSpACE/Grid.py  LagrangeGrid / BSplineGrid (local, BasisGrid.interpolate) and GlobalLagrangeGrid /
    GlobalBSplineGrid (GlobalBasisGrid.interpolate / interpolate_grid) with IntegratorHierarchicalBasisFunctions,
  * sparseSpACE/BasisFunctions.py  LagrangeBasis, LagrangeBasisRestricted, LagrangeBasisRestrictedModified, BSpline,
    HierarchicalNotAKnotBSpline, HierarchicalNotAKnotBSplineModified.

Oracles (none of them calls the library's solve / interpolation code)
  * nodal table in == nodal table out (round trip through integrate() + interpolate());
  * reference surpluses: numpy solve of the Kronecker collocation system, the 1D collocation matrices being filled
    by evaluating the library's own basis objects at the grid coordinates;
  * reference evaluation  sum_i s_i prod_d phi_{i_d}(x_d)  (einsum) at random off-grid points;
  * exact polynomials; five-point central differences; Gauss-Legendre(24) quadrature split at the knots.
"""
import math

from hypothesis import strategies as st

from vlib.core import Outcome, Sub, guarded

PROPERTY = "C10"
RULE = ("roundtrip_local: LagrangeGrid (boundary) / BSplineGrid (boundary on sub-boxes reached by 0-3 bisections per "
        "dimension; boundary off and boundary off+modified basis on the whole domain), p Lagrange 1-5 / B-spline 1,3,5(,7), "
        "d 1-3, anisotropic level vectors (0-6 in 1D, a share with level 4/5 = 17/33 points in one dimension), random "
        "nodal table with 1-3 components. roundtrip_global: GlobalLagrangeGrid (boundary on/off) / GlobalBSplineGrid "
        "(on/off/off+modified) fed with per-dimension refinement trees given as explicit split lists [leaf, ratio] "
        "(random leaf, always left-/right-most leaf, zig-zag, complete prefix of depth 1-3 + random; ratios 0.5, uniform "
        "[0.2,0.8], {0.2,0.8}; 1-40 splits in 1D, a share with >= 15 points in one dimension for d = 2), levels from the "
        "tree. One third of the global cases (round trip and polynomials) and one quarter of the local ones drive ONE grid "
        "object (hence one integrator / hierarchisation object, as an adaptive run does) through a sequence of 2-4 "
        "set_grid + integrate + interpolate rounds with a new nodal table per round: 'relabel' = the same point sets with "
        "the levels of another valid refinement tree over them (random binary tree; median-rooted for B-splines - what a "
        "rebalancing rotation produces), 'refine' = 1-4 further splits per dimension (superset), 'coarsen' = a prefix of "
        "the split list (subset), 'back' = the first configuration again; local: other sub-boxes / level vectors and back. "
        "Every clause is asserted after every round; a violation that appears only after earlier rounds (a fresh grid "
        "object passes the same configuration) gets the signature suffix /only-after-earlier-rounds-on-the-same-grid-object. polynomials: the same two grid kinds with boundary (and B-spline modified for constants), a vector of "
        "monomials in the box-centred variable up to the demanded degree, evaluated at random points of the box. "
        "Two fifths of the polynomial cases take the degree as a wide dimension: B-spline p = every odd number up to "
        "21 (the library only asserts 'p odd'), Lagrange p = 1..10, boundary on, d = 1-2, local sub-boxes or global complete "
        "dyadic trees (a quarter with a few points of the next level), the finest level of one dimension drawn from "
        "{switch-1, switch, switch, switch+1} (three quarters) or uniformly from 0..5, where switch = ceil(log2(p+1)) "
        "for B-splines (first level with not-a-knot B-splines instead of Lagrange polynomials) and p-1 for Lagrange; "
        "B-spline levels that use BSpline.recursive_eval are capped by cost (p<=9: 5, p=11: 4, p>=13: Lagrange levels only). "
        "interpolate_grid: the tensor-grid interpolation API of both grid kinds. interleaved: 2-3 live grid objects of one kind "
        "(global 3/4, local 1/4) with independently drawn family, p, boundary mode, domain, tree / area and output length, "
        "three quarters of the cases with the same level vector (the key of the surplus store; local: the same area and "
        "levels) on several of them; every object has a program integrate, 1-2 reads out of interpolate / interpolate_grid / "
        "get_surplusses (+ a second integrate and read in a quarter); the programs are merged in a drawn order (half of "
        "them: all first integrates, then the rest). Every result is checked with the round-trip clauses and must equal "
        "bit for bit the result of the same program run on a fresh object used alone; signatures that only appear "
        "interleaved end in /only-when-interleaved-with-another-grid-object. Non-trivial (interleaved) = two objects share "
        "the key and some read follows an integrate of another object with that key. basis: one basis object (six classes), "
        "knots uniform / random increments / as the grids build them, cardinality, derivatives at random points inside "
        "the knot intervals, integrals. Non-trivial: round trips/interpolate_grid/polynomials = at least two hierarchical "
        "levels present in some dimension and (d >= 2 or some dimension has >= 15 points) and the case was not skipped "
        "for conditioning (polynomials additionally: demanded degree >= 2 somewhere); basis = at least 3 knots and at "
        "least one derivative sample and one integral compared. Distinct = distinct case dict.")
ASSUMPTIONS = [
    "LagrangeGrid is used with boundary=True only; BSplineGrid(boundary=False[, modified_basis=True]) only on the whole "
    "domain (no caller/test/tutorial uses Lagrange without boundary; B-spline without boundary on a sub-box with an "
    "interior end has no basis function there: known finding F-C08-b of property C08); level >= 1 when boundary is off",
    "GlobalLagrangeGrid(boundary=False, modified_basis=True) is not generated: no caller, and set_grid raises IndexError "
    "in LagrangeBasisRestrictedModified.__init__ on every grid (reported to the maintainer of the framework); "
    "GlobalBSplineGrid(boundary=False, modified_basis=True) (commented-out callers only) is generated",
    "global grids are fed as SpatiallyAdaptiveSingleDimensions2 feeds them: sorted python lists incl. both domain ends, "
    "integer tree levels (ends 0, one level-1 point, child level = max(neighbour levels)+1), >= 3 points",
    "GlobalBSplineGrid: tree depth <= 11 (quick) / 13 (thorough) because the class materialises 2^level entries per "
    "level. The unique-solvability clause (sigma_min > 10*n*eps*sigma_max, i.e. not singular to working precision) is asserted for every Lagrange grid, every "
    "local grid and for GlobalBSplineGrid on arithmetic-midpoint (ratio 0.5) trees - the only trees the library itself "
    "produces for it (get_mid_point = 0.5(start+end); missing hierarchy points are completed with arithmetic "
    "midpoints, exterior knots are start+i*h); on weighted or relabelled B-spline trees (a strongly graded 0.2-ratio tree of depth 11 "
    "has cond 1e14-1e17 by construction of these knots) an ill-conditioned matrix is counted, not reported",
    "polynomial clause: at an evaluation point x the tolerance below is multiplied by max(1, max|surplus| * prod_d sum_j "
    "|phi_j(x_d)|) (Lebesgue function of the 1D bases - the factor by which a surplus rounding error reaches x)",
    "round trip / reference-surplus / polynomial clauses use the tolerance scale*(1e-10 + 1e-13*cond) with cond = "
    "product over the dimensions of the 2-norm condition numbers of the 1D collocation matrices (built with the "
    "library's own basis objects); cond > 1e10 => the case is counted as 'ill-conditioned-skipped', never a violation",
    "'enough points' for polynomial degree k (DESIGN section 3 item 2): local grids of level l in a dimension: "
    "k <= min(p, l+1) (Lagrange: a function of level l is built on its <= l+2 hierarchical ancestors) / k <= min(p, 2^l) "
    "(B-spline) - this equals the statement's min(p, n-1) for B-splines and for Lagrange with p <= 3; global trees whose "
    "complete dyadic depth is m: k <= min(p, m+1) / min(p, 2^m). Polynomials are asserted with boundary=True; with the "
    "modified B-spline basis (boundary off): constants always, and linear functions (also between the domain end and the "
    "first node) for p in {1,3} when the level-2 points are complete and every point is the arithmetic mid point of its "
    "hierarchical neighbours (the trees the library builds; local grids: level >= 2); not demanded for p >= 5 (only "
    "the second derivative of the two outermost functions is corrected, which is not enough for a quintic: error 2e-2 "
    "at level 4), for p = 1 on weighted/relabelled trees (error 0.8) or with a single interior point; zero-boundary "
    "bases reproduce no polynomial by construction",
    "'arbitrary vector-valued functions': a quarter of the round-trip / interpolate_grid cases pass a user-defined "
    "Function subclass whose eval() returns the nodal values as python int / bool (scalar for output length 1, tuple "
    "otherwise), numpy int32/int64 arrays, float32 arrays, python lists of ints, or a mixture of ints and floats (values "
    "exactly representable in that type; small integers have non-integer surpluses); Function.__call__ accepts all of "
    "them (np.array(f_value)), so all clauses are demanded with the float64 reference; a violation that disappears "
    "when the same values are returned as python floats gets the suffix /only-for-non-float-function-values",
    "every round-trip clause (nodal values, surpluses, integral, tensor-sum, direct operator call) is evaluated per output "
    "component relative to that component's own magnitude: the components are hierarchised independently, so a third of "
    "the cases gives the components different magnitudes (1, 1e-9 .. 1e-12, 1e3; class tiny-magnitude-component)",
    "the integral returned by integrate() is compared with reference surpluses (numpy solve) times the grid's stored "
    "basis integrals, which are themselves compared with numerical quadrature of the basis values",
    "basis objects are constructed the way the grids and the repository's tests construct them: strictly increasing "
    "knots, LagrangeBasis* with len(knots) <= p+1, LagrangeBasisRestrictedModified with knots that include both domain "
    "ends and index 1..n (test_BasisFunctions), not-a-knot B-splines with the knot formula of BSplineGrid1D / "
    "GlobalBSplineGrid (odd p), Gauss rule with int(p/2)+1 points; LagrangeBasisRestricted*.get_integral ignores its "
    "interval arguments and integrates over the support, so it is compared with the integral over the support "
    "(callers pass the whole domain)",
    "derivatives are compared at points >= 10% of the knot interval away from every knot (five-point central "
    "differences with h = 1e-4 / 1e-3 of the interval, tolerance 1e-5 relative to max(|derivative|, max|f|/w^k)) and "
    "exactly AT knots (both support/region ends and three random knots): there the reference is the one-sided limit of "
    "the difference quotients of __call__ (degree-8 Chebyshev interpolant of 9 values strictly inside the adjacent knot "
    "interval, exact for the polynomial pieces; tolerance 1e-6) on the side the function VALUE is continuous from (the "
    "pieces are half-open: BSpline.chi is [k_j, k_j+1), the restricted Lagrange functions are closed on their support); "
    "where the value is continuous from both sides and the derivative itself jumps (first derivative of a hat, second "
    "derivative of a quadratic spline, ends of a restricted support) either one-sided derivative is accepted",
]

_A = [0.0, -1.0, 2.0, -3.0, 0.25, 0.1, -0.7071067811865476, 1.0]
_LEN = [1.0, 3.0, 0.5, 2.0, 9.0, 0.75, 1.4142135623730951, 0.3]

COND_SKIP = 1e10          # above: counted as skipped (round trip / surpluses / polynomials)
SING_REL = 1e-12          # unique solvability: sigma_min > SING_REL * sigma_max


def tol_cond(cond):
    """relative tolerance of every clause that goes through the linear solve.  Rounding seen on the unchanged tree:
    <= 3e-16*cond (B-spline p=5, 33 points, cond 4.5e3: 7e-13); a real defect (wrong pole, wrong knot) is O(1e-2)."""
    return 1e-10 + 1e-13 * cond


# ----------------------------------------------------------------------------------------------------------------
# helpers
# ----------------------------------------------------------------------------------------------------------------
def _silent(fn, *a, **kw):
    import contextlib
    import io
    import warnings
    with contextlib.redirect_stdout(io.StringIO()), warnings.catch_warnings():
        warnings.simplefilter("ignore")
        return fn(*a, **kw)


def build_tree(a, b, splits, max_level=None):
    """splits: [[leaf_index, ratio], ...] -> (points, levels) as python lists (floats / ints).
    A split that would create a level above max_level is ignored."""
    pts = [float(a), float(b)]
    lev = [0, 0]
    for idx, ratio in splits:
        i = int(idx) % (len(pts) - 1)
        r = min(0.8, max(0.2, float(ratio)))
        m = pts[i] + (pts[i + 1] - pts[i]) * r
        if not (pts[i] < m < pts[i + 1]):
            continue
        if max_level is not None and max(lev[i], lev[i + 1]) + 1 > max_level:
            continue
        pts.insert(i + 1, m)
        lev.insert(i + 1, max(lev[i], lev[i + 1]) + 1)
    return pts, lev


def relabel(pts, rng, balanced):
    """levels of another valid refinement tree over the same sorted point set (what a rotation of the rebalancing in
    SpatiallyAdaptiveSingleDimensions2 produces: same points, other parents).  A random binary tree over the interior
    points; balanced=True roots every subtree at its median (+-1), which bounds the depth by log2(n)+2 (needed for
    GlobalBSplineGrid, which materialises 2^level entries per level)."""
    lev = [0] * len(pts)
    stack = [(1, len(pts) - 1, 1)]
    while stack:
        lo, hi, l = stack.pop()
        if lo >= hi:
            continue
        if balanced:
            r = (lo + hi - 1) // 2
            if hi - lo >= 4:
                r = min(hi - 1, max(lo, r + int(rng.integers(-1, 2))))
        else:
            r = int(rng.integers(lo, hi))
        lev[r] = l
        stack.append((lo, r, l + 1))
        stack.append((r + 1, hi, l + 1))
    return lev


def complete_depth(lev):
    cnt = {}
    for l in lev:
        cnt[l] = cnt.get(l, 0) + 1
    m = 0
    while cnt.get(m + 1, 0) == 2 ** m:
        m += 1
    return m


def complete_splits(depth, ratio=0.5):
    return [[2 * j, ratio] for l in range(depth) for j in range(2 ** l)]


def sub_interval(a, b, path):
    s, e = float(a), float(b)
    for c in path:
        m = (s + e) / 2.0
        if c == 0:
            e = m
        else:
            s = m
    return s, e


class _Table(object):
    """nodal table as a callable for FunctionCustom (keys are the exact grid floats)."""

    def __init__(self, table):
        self.table = table

    def __call__(self, t):
        return self.table[tuple(float(c) for c in t)]


class _Monos(object):
    """vector of monomials prod_d t_d^k_d in the box-centred variable t = (x-mid)/half (|t| <= 1 on the box)."""

    def __init__(self, combos, mid, half):
        self.combos, self.mid, self.half = combos, mid, half

    def __call__(self, x):
        t = [(float(x[d]) - self.mid[d]) / self.half[d] for d in range(len(self.mid))]
        res = []
        for ks in self.combos:
            r = 1.0
            for d, k in enumerate(ks):
                r *= t[d] ** k
            res.append(r)
        return res


def collocation(basis, xs):
    """M[i, j] = basis_j(x_i), filled by calling the library's basis objects."""
    import numpy as np
    n = len(xs)
    M = np.empty((n, len(basis)))
    for j, bf in enumerate(basis):
        for i in range(n):
            M[i, j] = float(bf(float(xs[i])))
    return M


def tensor_apply(mats, T):
    """apply mats[d] along axis d+1 of T (shape (out, n_1, ..., n_dim))."""
    import numpy as np
    for d, A in enumerate(mats):
        T = np.moveaxis(np.tensordot(A, T, axes=(1, d + 1)), 0, d + 1)
    return T


def tensor_eval(S, E):
    """sum_i S[o, i_1..i_dim] prod_d E[d][m, i_d]  -> (m, o);  S tensor (out, n_1..n_dim), E list of (m, n_d)."""
    import numpy as np
    dim = len(E)
    letters = "ijk"[:dim]
    expr = "o" + letters + "," + ",".join("m" + c for c in letters) + "->mo"
    return np.einsum(expr, S, *E)


def ref_quad(f, breaks, a, b, n=24):
    """Gauss-Legendre(n) on every piece of [a,b] between consecutive breakpoints (exact for piecewise degree <= 47)."""
    import numpy as np
    if not b > a:
        return 0.0
    xs, ws = np.polynomial.legendre.leggauss(n)
    br = sorted(set([float(t) for t in breaks if a < t < b] + [float(a), float(b)]))
    total = []
    for i in range(len(br) - 1):
        l, r = br[i], br[i + 1]
        h = (r - l) / 2.0
        total.append(h * math.fsum(float(w) * float(f(l + (x + 1.0) * h)) for x, w in zip(xs, ws)))
    return math.fsum(total)


def ref_quad_cond(f, breaks, a, b, n=24):
    """-> (integral, integral of |f|, total variation of f on [a,b]) from the same Gauss-Legendre(n) samples.

    The total variation gives the rounding both sides of an integral comparison are entitled to: an evaluation point
    x is itself a computed number with an absolute error of a few ulp(|x|), so f(x) is off by |f'(x)| * u * |x| and
    an integral of such values by u * max|x| * TV(f).  (A cubic Lagrange function whose knots lie 6e-14 .. 1e-9
    apart next to x = 2/3 has values of 1e6 on a support of width 1e-9: library, reference and the exact rational
    integral differ by 1e-7 relative there.)"""
    import numpy as np
    if not b > a:
        return 0.0, 0.0, 0.0
    xs, ws = np.polynomial.legendre.leggauss(n)
    br = sorted(set([float(t) for t in breaks if a < t < b] + [float(a), float(b)]))
    total, total_abs = [], []
    tv = 0.0
    last = float(f(br[0]))
    for i in range(len(br) - 1):
        l, r = br[i], br[i + 1]
        h = (r - l) / 2.0
        vals = [float(f(l + (x + 1.0) * h)) for x in xs]
        total.append(h * math.fsum(float(w) * v for v, w in zip(vals, ws)))
        total_abs.append(h * math.fsum(float(w) * abs(v) for v, w in zip(vals, ws)))
        for v in vals + [float(f(r))]:
            tv += abs(v - last)
            last = v
    return math.fsum(total), math.fsum(total_abs), tv


def integral_tolerance(scale, tv, xmax):
    """absolute tolerance of a basis-integral comparison: 1e-10 * scale (rounding seen on well-separated knots: 1e-14)
    + 100 * eps * max|x| * TV(f) (evaluation-point rounding, see ref_quad_cond)"""
    return 1e-10 * scale + 100.0 * 2.220446049250313e-16 * xmax * tv


def diff1(f, x, h):
    return (f(x - 2 * h) - 8.0 * f(x - h) + 8.0 * f(x + h) - f(x + 2 * h)) / (12.0 * h)


def diff2(f, x, h):
    return (-f(x - 2 * h) + 16.0 * f(x - h) - 30.0 * f(x) + 16.0 * f(x + h) - f(x + 2 * h)) / (12.0 * h * h)


def one_sided(f, x, w, side):
    """one-sided limit, first and second derivative of f at x from the right (side=+1) or left (side=-1), from the
    values of f at 9 Chebyshev points strictly inside the adjacent interval of width w (x itself is NOT evaluated):
    the degree-8 interpolant is exact for the polynomial pieces of all basis classes (degree <= 7).
    -> (limit, f', f'', max|f| on the samples)"""
    import numpy as np
    n = 9
    s = 0.5 - 0.5 * np.cos(np.pi * (np.arange(n) + 0.5) / n)            # Chebyshev points of (0, 1)
    vals = np.array([float(f(x + side * float(t) * w)) for t in s])
    c = np.polynomial.Chebyshev.fit(s, vals, n - 1, domain=[0.0, 1.0])
    return (float(c(0.0)), side * float(c.deriv(1)(0.0)) / w, float(c.deriv(2)(0.0)) / (w * w),
            float(np.max(np.abs(vals))))


def compare_nodal(out, sig, got, want, tol, scale, message):
    """|got - want| <= tol*scale elementwise; returns the relative error (inf for a shape mismatch / nan)."""
    import numpy as np
    got = np.asarray(got, dtype=float)
    want = np.asarray(want, dtype=float)
    if got.shape != want.shape:
        out.bad(sig + "/shape", "%s: result shape %s, expected %s" % (message, got.shape, want.shape))
        return float("inf")
    if got.size == 0:
        return 0.0
    err = float(np.max(np.abs(got - want))) if np.all(np.isfinite(got)) else float("inf")
    rel = err / scale if scale > 0 else (0.0 if err == 0 else float("inf"))      # an all-zero table has scale 0
    if not rel <= tol:
        j = int(np.argmax(np.abs(got - want).reshape(-1))) if math.isfinite(err) else 0
        out.bad(sig, "%s: max deviation %.3g (relative %.3g, tolerance %.3g); entry %d: got %r expected %r"
                % (message, err, rel, tol, j, got.reshape(-1)[j], want.reshape(-1)[j]))
    return rel


def compare_components(out, sig, got, want, tol, axis, scales, message):
    """compare_nodal per output component (axis = the component axis of both arrays), every component relative to
    its OWN magnitude scales[o] - the components of a vector-valued function are hierarchised independently, so a
    component of magnitude 1e-10 next to O(1) components must come back with the same relative accuracy.
    One report (the first failing component); returns the largest relative error."""
    import numpy as np
    got = np.asarray(got, dtype=float)
    want = np.asarray(want, dtype=float)
    if got.shape != want.shape:
        return compare_nodal(out, sig, got, want, tol, 1.0, message)
    worst = 0.0
    reported = False
    for o in range(want.shape[axis]):
        scratch = Outcome()
        rel = compare_nodal(scratch, sig, np.take(got, o, axis=axis), np.take(want, o, axis=axis), tol, float(scales[o]),
                            "%s [output component %d of %d, magnitude %.3g]" % (message, o, want.shape[axis], float(scales[o])))
        worst = max(worst, rel)
        if scratch.violations and not reported:
            out.bad(*scratch.violations[0])
            reported = True
    return worst


# ----------------------------------------------------------------------------------------------------------------
# common part of the grid sub-checks
# ----------------------------------------------------------------------------------------------------------------
class _Ctx(object):
    """one grid (local or global) set up for an area, with uniform accessors"""

    def __init__(self, case):
        import numpy as np
        import sparseSpACE.Grid as G
        self.case = case
        self.kind = case["kind"]
        self.family = case["family"]
        self.p = int(case["p"])
        self.mode = case["mode"]
        self.boundary = self.mode == "boundary"
        self.modified = self.mode == "modified"
        self.a = [float(t) for t in case["a"]]
        self.b = [self.a[d] + float(case["len"][d]) for d in range(len(self.a))]
        self.dim = len(self.a)
        if self.kind == "local":
            cls = G.LagrangeGrid if self.family == "lagrange" else G.BSplineGrid
            self.grid = cls(np.array(self.a), np.array(self.b), boundary=self.boundary, p=self.p,
                            modified_basis=self.modified)
            se = [sub_interval(self.a[d], self.b[d], case["paths"][d]) for d in range(self.dim)]
            self.start = np.array([t[0] for t in se])
            self.end = np.array([t[1] for t in se])
            self.lv = [int(l) for l in case["lv"]]
            self.trees = None
        else:
            cls = G.GlobalLagrangeGrid if self.family == "lagrange" else G.GlobalBSplineGrid
            self.grid = cls(list(self.a), list(self.b), boundary=self.boundary, modified_basis=self.modified, p=self.p)
            self.trees = [build_tree(self.a[d], self.b[d], case["trees"][d], case.get("max_level"))
                          for d in range(self.dim)]
            self.start = np.array(self.a)
            self.end = np.array(self.b)
            self.lv = [int(l) for l in self.case["lv_label"]] if self.case.get("lv_label") else [max(t[1]) for t in self.trees]
        self.paths = case.get("paths")
        self.nonmid = self.kind == "global" and _has_weighted_ratio(case["trees"])
        self.round = 0
        self.round_kind = "base"

    def rounds(self):
        """[(kind, config)]: the configurations this ONE grid object is driven through (round 0 = the base case)"""
        import numpy as np
        case = self.case
        seq = case.get("seq") or []
        if self.kind == "local":
            base = dict(paths=case["paths"], lv=[int(l) for l in case["lv"]])
            res = [("base", base)]
            for r in seq:
                if r["kind"] == "back":
                    res.append(("back", base))
                else:
                    res.append(("area", dict(paths=r["paths"], lv=[int(l) for l in r["lv"]])))
            return res
        ml = case.get("max_level")

        def cfg(splits):
            return dict(trees=[build_tree(self.a[d], self.b[d], splits[d], ml) for d in range(self.dim)],
                        nonmid=_has_weighted_ratio(splits))
        base_splits = [list(t) for t in case["trees"]]
        cur_splits, base = base_splits, cfg(base_splits)
        cur = base
        res = [("base", base)]
        for r in seq:
            k = r["kind"]
            if k == "back":
                cur_splits, cur = base_splits, base
            elif k == "refine":
                cur_splits = [cur_splits[d] + [list(t) for t in r["splits"][d]] for d in range(self.dim)]
                cur = cfg(cur_splits)
            elif k == "coarsen":
                cur_splits = [cur_splits[d][:max(1, int(len(cur_splits[d]) * float(r["keep"][d])))] for d in range(self.dim)]
                cur = cfg(cur_splits)
            elif k == "relabel":
                rr = np.random.default_rng(int(r["rng"]))
                cur = dict(trees=[(list(t[0]), relabel(t[0], rr, self.family == "bspline")) for t in cur["trees"]],
                           nonmid=True, relabelled=True)
            else:
                raise ValueError(k)
            res.append((k, cur))
        return res

    def apply(self, k, kind, config):
        import numpy as np
        self.round, self.round_kind = k, kind
        if self.kind == "local":
            self.paths = config["paths"]
            se = [sub_interval(self.a[d], self.b[d], self.paths[d]) for d in range(self.dim)]
            self.start = np.array([t[0] for t in se])
            self.end = np.array([t[1] for t in se])
            self.lv = list(config["lv"])
        else:
            self.trees = config["trees"]
            self.nonmid = config["nonmid"]
            self.relabelled = bool(config.get("relabelled", False))
            self.lv = [int(l) for l in self.case["lv_label"]] if self.case.get("lv_label") else [max(t[1]) for t in self.trees]

    def setup(self):
        """build the grid for the area; returns per-dimension coordinate lists"""
        g = self.grid
        if self.kind == "local":
            _silent(g.setCurrentArea, self.start.copy(), self.end.copy(), list(self.lv))
        else:
            _silent(g.set_grid, [list(t[0]) for t in self.trees], [list(t[1]) for t in self.trees])
        self.xs = [[float(c) for c in g.get_coordinates_dim(d)] for d in range(self.dim)]
        self.shape = [len(x) for x in self.xs]
        return self.xs

    def basis(self, d):
        return [self.grid.get_basis(d, j) for j in range(self.shape[d])]

    def weights(self, d):
        return [float(w) for w in self.grid.weights[d]]

    def integrate(self, f):
        g = self.grid
        if self.kind == "local":
            return _silent(g.integrate, f, list(self.lv), self.start.copy(), self.end.copy())
        return _silent(g.integrate, f, list(self.lv), list(self.a), list(self.b))

    def surplusses(self):
        g = self.grid
        if self.kind == "local":
            return g.surplus_values[(tuple(self.start), tuple(self.end), tuple(self.lv))]
        return g.get_surplusses(self.lv)

    def interpolate(self, pts):
        g = self.grid
        if self.kind == "local":
            return _silent(g.interpolate, pts, self.start.copy(), self.end.copy(), list(self.lv))
        from sparseSpACE.ComponentGridInfo import ComponentGridInfo
        return _silent(g.interpolate, pts, ComponentGridInfo(list(self.lv), 1))

    def interpolate_grid(self, coords):
        g = self.grid
        if self.kind == "local":
            return _silent(g.interpolate_grid, coords, self.start.copy(), self.end.copy(), list(self.lv))
        from sparseSpACE.ComponentGridInfo import ComponentGridInfo
        return _silent(g.interpolate_grid, coords, ComponentGridInfo(list(self.lv), 1))

    def levels_present(self, d):
        """number of hierarchical levels that own a grid point in dimension d"""
        if self.kind == "local":
            n = self.shape[d]
            if n <= 0:
                return 0
            if self.boundary:
                return self.lv[d] + 1
            return self.lv[d]
        lev = self.trees[d][1] if self.boundary else self.trees[d][1][1:-1]
        return len(set(lev))

    def kmax(self, d):
        """highest polynomial degree demanded in dimension d (see ASSUMPTIONS, 'enough points')"""
        if self.modified:
            # what the modified basis is for: constants and - cubic/linear splines on arithmetic-mid-point trees with the
            # complete level 2 - linear functions, also between the domain end and the first node (see ASSUMPTIONS)
            depth = self.lv[d] if self.kind == "local" else complete_depth(self.trees[d][1])
            if self.family == "bspline" and self.p in (1, 3) and depth >= 2 and not self.weighted_tree():
                return 1
            return 0
        if self.kind == "local":
            m = self.lv[d]
            if self.family == "lagrange":
                return min(self.p, m + 1)
            return min(self.p, 2 ** m)
        m = complete_depth(self.trees[d][1])
        if self.family == "lagrange":
            return min(self.p, m + 1)
        return min(self.p, 2 ** m)

    def describe(self):
        rd = "" if self.round == 0 else "[round %d (%s) on the same grid object] " % (self.round, self.round_kind)
        if self.kind == "local":
            return "%s%s(p=%d,%s) a=%s b=%s start=%s end=%s level=%s" % (
                rd, "LagrangeGrid" if self.family == "lagrange" else "BSplineGrid", self.p, self.mode, self.a, self.b,
                self.start.tolist(), self.end.tolist(), self.lv)
        return "%s%s(p=%d,%s) a=%s b=%s points=%s levels=%s" % (
            rd, "GlobalLagrangeGrid" if self.family == "lagrange" else "GlobalBSplineGrid", self.p, self.mode, self.a,
            self.b, [t[0][:9] for t in self.trees], [t[1][:9] for t in self.trees])

    def weighted_tree(self):
        """some point of the current tree is not the arithmetic mid point of its hierarchical neighbours"""
        if self.kind == "local":
            return False
        return bool(self.nonmid)


def _has_weighted_ratio(splits):
    return any(abs(float(r) - 0.5) > 1e-12 for tr in splits for _, r in tr)


def info_max(out, key, value):
    if isinstance(value, (int, float)) and not (isinstance(value, float) and value != value):
        out.info[key] = max(out.info.get(key, value), value)


def drive_rounds(case, sub, out, one_round):
    """-> (cx, base round fully checked and structurally non-trivial).  Drive ONE grid object (and with it one integrator / hierarchisation object, as an adaptive run does) through
    the rounds of the case; one_round(out, cx) -> False stops.  A violation that shows in a later round is re-checked
    on a fresh grid object: if the same configuration is clean there, the cause is state kept from the earlier rounds
    and the signature says so."""
    cx = _Ctx(case)
    rounds = cx.rounds()
    if len(rounds) > 1:
        out.cls("seq-rounds=%d" % len(rounds))
    prev_levels = None
    base_ok = None
    for k, (kind, config) in enumerate(rounds):
        cx.apply(k, kind, config)
        if k > 0:
            out.cls("seq:" + kind)
            if kind == "relabel":
                changed = any(config["trees"][d][1] != prev_levels[d] for d in range(cx.dim))
                out.cls("seq:relabel-changed-levels" if changed else "seq:relabel-identical-levels")
        if cx.kind == "global":
            prev_levels = [list(t[1]) for t in config["trees"]]
        cx.setup()
        before = len(out.violations)
        ok = one_round(out, cx)
        if k == 0:
            base_ok = bool(ok) and structural_nt(cx)        # the non-triviality rule is evaluated on the base round
        if len(out.violations) > before and k > 0:
            fresh = _Ctx(case)
            fresh.apply(k, kind, config)
            fresh.setup()
            scratch = Outcome()
            one_round(scratch, fresh)
            if not scratch.violations:
                tail = out.violations[before:]
                del out.violations[before:]
                for sig, msg in tail:
                    out.bad(sig + "/only-after-earlier-rounds-on-the-same-grid-object",
                            "(a fresh grid object set up for this configuration alone passes) " + msg)
        if out.violations:
            break
    return cx, base_ok


def common_classes(out, cx):
    out.cls("%s-%s-p%d" % (cx.kind, cx.family, cx.p), "mode=" + cx.mode, "d=%d" % cx.dim)
    nmax = max(cx.shape)
    if nmax >= 15:
        out.cls("n>=15(QR-branch)")
    if any(n == 14 for n in cx.shape):
        out.cls("n==14(last-dense)")
    if any(n == 15 for n in cx.shape):
        out.cls("n==15(first-QR)")
    if any(n == 1 for n in cx.shape):
        out.cls("single-point-dimension")
    if cx.kind == "local":
        if any(len(p) > 0 for p in cx.paths):
            out.cls("sub-box")
        if len(set(cx.lv)) > 1:
            out.cls("anisotropic-levels")
    else:
        if cx.weighted_tree():
            out.cls("weighted-midpoints")
        w = [t[0][i + 1] - t[0][i] for t in cx.trees for i in range(len(t[0]) - 1)]
        for t in cx.trees:
            ww = [t[0][i + 1] - t[0][i] for i in range(len(t[0]) - 1)]
            if max(ww) > 1000 * min(ww):
                out.cls("strongly-graded(>1e3)")
            if max(ww) > 1.5 * min(ww):
                out.cls("non-uniform-tree")
    info_max(out, "max_points_1d", nmax)
    info_max(out, "max_points_total", int(math.prod(cx.shape)))
    info_max(out, "max_dim", cx.dim)
    if cx.kind == "global":
        info_max(out, "max_tree_level", max(cx.lv))


def structural_nt(cx):
    return any(cx.levels_present(d) >= 2 for d in range(cx.dim)) and (cx.dim >= 2 or max(cx.shape) >= 15)


def collocation_clauses(out, sub, cx):
    """unique solvability of the per-pole systems + Lagrange cardinality; returns (mats, cond_total) or None"""
    import numpy as np
    mats, cond = [], 1.0
    for d in range(cx.dim):
        basis = cx.basis(d)
        if any(bf is None for bf in basis):
            out.bad("%s/basis-missing/%s-%s" % (sub, cx.family, cx.mode),
                    "%s: no basis function for grid points %s of dimension %d"
                    % (cx.describe(), [j for j, bf in enumerate(basis) if bf is None][:5], d))
            return None
        M = collocation(basis, cx.xs[d])
        if not np.all(np.isfinite(M)):
            out.bad("%s/solvable/%s-%s/non-finite-basis-value" % (sub, cx.family, cx.mode),
                    "%s: dimension %d: a basis function is not finite at a grid point" % (cx.describe(), d))
            return None
        sv = np.linalg.svd(M, compute_uv=False)
        c = float(sv[0] / sv[-1]) if sv[-1] > 0 else float("inf")
        # singular to working precision: sigma_min <= 10 * n * eps * sigma_max (an ill-conditioned but regular matrix of a
        # strongly graded / relabelled tree, e.g. ratio 7.7e-13 at level 7, is not a violation of unique solvability)
        if not sv[-1] > 10 * len(sv) * np.finfo(float).eps * sv[0]:
            if cx.kind == "global" and cx.family == "bspline" and cx.weighted_tree():
                out.cls("weighted-bspline-tree-singular-to-working-precision(counted)")
            elif cx.kind == "global" and getattr(cx, "relabelled", False):
                # a relabelled (rotated) tree over a strongly graded point set: the matrix is regular in exact arithmetic but
                # its condition exceeds 1/eps; double precision cannot decide unique solvability -> counted, not reported
                out.cls("relabelled-tree-singular-to-working-precision(counted)")
            else:
                out.bad("%s/solvable/%s-%s" % (sub, cx.family, cx.mode),
                        "%s: dimension %d: collocation matrix (%d points) has singular values %.3g .. %.3g"
                        % (cx.describe(), d, len(sv), sv[0], sv[-1]))
        cond *= c
        mats.append(M)
        if cx.family == "lagrange":
            for j, bf in enumerate(basis):
                kn = [float(t) for t in bf.knots]
                xj = cx.xs[d][j]
                if not (0 <= bf.index < len(kn)) or kn[bf.index] != xj:
                    out.bad("%s/cardinality/own-knot-is-not-the-grid-point" % sub,
                            "%s: dim %d basis %d: knots=%s index=%s but the grid point is %r"
                            % (cx.describe(), d, j, kn, bf.index, xj))
                    continue
                if not abs(float(bf(xj)) - 1.0) <= 1e-12:      # rounding seen: 4e-16
                    out.bad("%s/cardinality/own-knot" % sub, "%s: dim %d basis %d at its own knot %r is %r"
                            % (cx.describe(), d, j, xj, float(bf(xj))))
                other = [float(bf(t)) for i, t in enumerate(kn) if i != bf.index]
                if any(v != 0.0 for v in other):                 # exact: one factor of the product is exactly zero
                    out.bad("%s/cardinality/other-knots" % sub, "%s: dim %d basis %d (knots %s, index %d) at its other knots: %s"
                            % (cx.describe(), d, j, kn, bf.index, other))
    info_max(out, "max_cond", min(cond, 1e300))
    return mats, cond


def basis_breaks(bf):
    """breakpoints of one basis object of a grid: its knots; for the not-a-knot B-splines only the knots of the support
    (index .. index+p+1 by definition of a B-spline, plus the supports of the two boundary splines a modified function
    may add) - a deep GlobalBSplineGrid tree has 2^level knots per level and the quadrature would visit every cell"""
    kn = [float(t) for t in bf.knots]
    if hasattr(bf, "startIndex") and hasattr(bf, "endIndex") and len(kn) > 64:
        idx = set(range(int(bf.startIndex), int(bf.endIndex) + 1))
        if hasattr(bf, "spline2"):
            idx |= set(range(0, int(bf.p) + 2))
        if hasattr(bf, "spline3"):
            idx |= set(range(2 ** int(bf.level), 2 ** int(bf.level) + int(bf.p) + 2))
        return [kn[i] for i in sorted(idx) if 0 <= i < len(kn)]
    return kn


def weight_clause(out, sub, cx, rng, count=4):
    """stored basis integrals (grid.weights) == numerical quadrature of the basis values over the area"""
    relmax = 0.0
    for d in range(cx.dim):
        n = cx.shape[d]
        if n == 0:
            continue
        w = cx.weights(d)
        if len(w) != n:
            out.bad("%s/basis-integral/weight-count" % sub, "%s: dim %d: %d weights for %d points" % (cx.describe(), d, len(w), n))
            continue
        lo, hi = float(cx.start[d]), float(cx.end[d])
        idx = sorted(set(int(t) for t in rng.integers(0, n, size=min(count, n))))
        for j in idx:
            bf = cx.grid.get_basis(d, j)
            breaks = basis_breaks(bf)
            ref, ref_abs, tv = ref_quad_cond(bf, breaks, lo, hi)
            sc = max(hi - lo, abs(ref), ref_abs)
            tol = integral_tolerance(sc, tv, max([abs(lo), abs(hi)] + [abs(t) for t in breaks]))
            err = abs(w[j] - ref)
            relmax = max(relmax, err / sc)
            info_max(out, "basis_integral_err_over_tol", err / tol)
            if not err <= tol:
                out.bad("%s/basis-integral/%s-%s" % (sub, cx.family, cx.mode),
                        "%s: dim %d: stored integral of basis %d is %r, Gauss-Legendre(24) quadrature of its values over "
                        "[%r,%r] split at its knots gives %r (tolerance %.3g; integral of |f| %.3g, total variation %.3g)"
                        % (cx.describe(), d, j, w[j], lo, hi, ref, tol, ref_abs, tv))
                break
    info_max(out, "basis_integral_rel_err", relmax)


def random_points(cx, rng, m):
    import numpy as np
    pts = np.empty((m, cx.dim))
    for d in range(cx.dim):
        pts[:, d] = cx.start[d] + rng.random(m) * (cx.end[d] - cx.start[d])
        # a few exactly on the ends of the box / on grid coordinates
        if m >= 4:
            pts[0, d] = cx.start[d]
            pts[1, d] = cx.end[d]
            if cx.shape[d] > 0:
                pts[2, d] = cx.xs[d][int(rng.integers(0, cx.shape[d]))]
        if m >= 8 and cx.shape[d] > 0:
            # between the end of the box and the first / last node (the extrapolation region of the modified bases)
            pts[3, d] = cx.start[d] + rng.random() * (cx.xs[d][0] - cx.start[d])
            pts[4, d] = cx.xs[d][-1] + rng.random() * (cx.end[d] - cx.xs[d][-1])
    return [tuple(float(c) for c in row) for row in pts]


VALUE_TYPES = ("float", "int", "bool", "int-array", "float32", "list", "mixed")


def make_typed_table(cx, rng, nout, vscale, vtype, cscale=None):
    """-> (V float64 reference (nout, n_1..n_dim), table point -> python list of exactly representable values).
    The values are drawn so that they are exact in the type the user function returns them in: small integers (their
    surpluses are non-integer as soon as one level-1 point exists: v_mid - (v_a + v_b)/2), 0/1, float32 numbers."""
    import numpy as np
    shape = [nout] + cx.shape
    if vtype in ("int", "int-array", "list"):
        V = rng.integers(-9, 10, size=shape).astype(float)
    elif vtype == "bool":
        V = rng.integers(0, 2, size=shape).astype(float)
    elif vtype == "float32":
        V = (rng.normal(size=shape) * vscale).astype(np.float32).astype(float)
    elif vtype == "mixed":
        V = rng.normal(size=shape) * vscale
        Vi = rng.integers(-9, 10, size=shape).astype(float)
        # integers in the first component and at every point with an even index sum; floats elsewhere
        mask = np.zeros(shape, dtype=bool)
        mask[0] = True
        for idx in np.ndindex(*cx.shape):
            if sum(idx) % 2 == 0:
                mask[(slice(None),) + idx] = True
        V = np.where(mask, Vi, V)
    else:
        V = rng.normal(size=shape) * vscale
    if cscale is not None and vtype in ("float", "float32"):
        # one magnitude per output component (e.g. 1, 1e-10, 1): exact powers-of-ten factors, float32 stays float32
        V = V * np.array([float(c) for c in cscale[:nout]] + [1.0] * max(0, nout - len(cscale))).reshape([nout] + [1] * cx.dim)
        if vtype == "float32":
            V = V.astype(np.float32).astype(float)
    table = {}
    for idx in np.ndindex(*cx.shape):
        table[tuple(cx.xs[d][idx[d]] for d in range(cx.dim))] = [float(V[(o,) + idx]) for o in range(nout)]
    return V, table


def typed_function(table, nout, vtype):
    """a user-defined Function subclass whose eval() returns the nodal values in the given python / numpy type"""
    import numpy as np
    from sparseSpACE.Function import Function

    def conv(vals):
        if vtype == "int":
            r = [int(v) for v in vals]
            return r[0] if nout == 1 else tuple(r)
        if vtype == "bool":
            r = [bool(v) for v in vals]
            return r[0] if nout == 1 else tuple(r)
        if vtype == "int-array":
            return np.array([int(v) for v in vals], dtype=np.int64 if nout % 2 else np.int32)
        if vtype == "float32":
            return np.array(vals, dtype=np.float32)
        if vtype == "list":
            return [int(v) for v in vals]
        if vtype == "mixed":
            r = [int(v) if float(v).is_integer() else float(v) for v in vals]
            return r[0] if nout == 1 else r
        return [float(v) for v in vals]

    class NodalTable(Function):
        def __init__(self):
            super().__init__()

        def output_length(self):
            return nout

        def eval(self, coordinates):
            return conv(table[tuple(float(c) for c in coordinates)])

    return NodalTable()


def grid_points(cx):
    import itertools
    return [tuple(t) for t in itertools.product(*cx.xs)]


# ----------------------------------------------------------------------------------------------------------------
# sub-checks 1+2: round trip
# ----------------------------------------------------------------------------------------------------------------
def run_roundtrip(case, sub):
    import numpy as np
    import sparseSpACE.Grid  # noqa: F401  (must be imported before Hierarchization: circular import in the package)
    from sparseSpACE.Function import FunctionCustom
    from sparseSpACE.Hierarchization import HierarchizationLSG
    out = Outcome()
    nout = int(case["out"])
    vscale = float(case.get("vscale", 1.0))
    out.cls("output-length=%d" % nout)
    direct_op = {}

    vtype = case.get("vtype", "float")
    out.cls("value-dtype=" + vtype)

    def one_round(out, cx, force_float=False):
        """all clauses for the configuration the grid object is set up for; True = fully checked (not skipped).
        Every random choice of a round comes from a generator seeded with (case rng, round number), so the re-run of a
        round on a fresh grid object (drive_rounds) repeats exactly the same clauses on exactly the same data.
        A violation seen with a non-float valued function is re-checked with the same values returned as python
        floats: if that passes, the signature names the value type as the cause."""
        before = len(out.violations)
        ok = _one_round(out, cx, force_float)
        if vtype != "float" and not force_float and len(out.violations) > before:
            scratch = Outcome()
            _one_round(scratch, cx, True)
            if not scratch.violations:
                tail = out.violations[before:]
                del out.violations[before:]
                for sig, msg in tail:
                    out.bad(sig + "/only-for-non-float-function-values",
                            "(function values returned as %s; the same values returned as python floats pass) %s" % (vtype, msg))
        return ok

    def _one_round(out, cx, force_float):
        rng = np.random.default_rng([int(case["rng"]), int(cx.round)])
        common_classes(out, cx)
        N = int(math.prod(cx.shape))
        if N == 0:
            out.cls("empty-grid")
            return False
        V, table = make_typed_table(cx, rng, nout, vscale, vtype, case.get("cscale"))   # a new nodal table in every round
        if vtype == "float" and not force_float:
            f = FunctionCustom(_Table(table), output_dim=nout)
        else:
            f = typed_function(table, nout, "float" if force_float else vtype)
        integral = cx.integrate(f)
        res = collocation_clauses(out, sub, cx)
        if res is None:
            return False
        mats, cond = res
        weight_clause(out, sub, cx, rng)
        S_lib = np.asarray(cx.surplusses(), dtype=float)
        if S_lib.shape != (nout, N):
            out.bad(sub + "/surplus-shape", "%s: surplus array has shape %s, expected %s" % (cx.describe(), S_lib.shape, (nout, N)))
            return False
        vmax_o = [float(np.max(np.abs(V[o]))) + 1e-300 for o in range(nout)]
        if min(vmax_o) <= 1e-8:
            out.cls("tiny-magnitude-component(<=1e-8)")
            if max(vmax_o) >= 1e-3:
                out.cls("tiny-next-to-O(1)-components")
        # (a) interpolate(own surpluses) is the plain tensor sum of surplus * basis values, everywhere (no solve involved)
        pts = grid_points(cx)
        extra = random_points(cx, rng, 8)
        allpts = pts + extra
        got = np.asarray(cx.interpolate(allpts), dtype=float)
        E = [np.array([[float(bf(x[d])) for bf in cx.basis(d)] for x in allpts]) for d in range(cx.dim)]
        S_t = S_lib.reshape([nout] + cx.shape)
        ref_eval = tensor_eval(S_t, E)
        sc = np.max(tensor_eval(np.abs(S_t), [np.abs(e) for e in E]), axis=0) + 1e-300          # per component
        # tolerance 1e-11: both sides are the same sum in a different order (rounding seen 5e-16)
        info_max(out, "interp_vs_tensor_sum_rel", compare_components(
            out, "%s/interpolate-is-tensor-sum/%s" % (sub, cx.kind), got, ref_eval, 1e-11, 1, sc,
            "%s: interpolate() at %d grid + %d random points vs sum of surplus*basis values" % (cx.describe(), len(pts), len(extra))))
        if not cond <= COND_SKIP:
            out.cls("ill-conditioned-skipped")
            return False
        tol = tol_cond(cond)
        # (b) round trip: the nodal table comes back at all grid points
        want = np.moveaxis(V, 0, -1).reshape(N, nout)
        rel = compare_components(out, "%s/nodal-values/%s-%s" % (sub, cx.family, cx.mode), got[:N], want, tol, 1, vmax_o,
                            "%s: integrate() then interpolate(grid points), output length %d, cond %.2e" % (cx.describe(), nout, cond))
        info_max(out, "roundtrip_rel_err", rel)
        info_max(out, "roundtrip_err_over_tol", rel / tol)
        # (c) surpluses == numpy solution of the Kronecker collocation system
        S_ref = tensor_apply([np.linalg.inv(M) for M in mats], V)
        smax_o = [float(np.max(np.abs(S_ref[o]))) + 1e-300 for o in range(nout)]
        rel = compare_components(out, "%s/surpluses/%s-%s" % (sub, cx.family, cx.mode), S_t, S_ref, tol, 0, smax_o,
                            "%s: surpluses vs numpy solve of the collocation systems, cond %.2e" % (cx.describe(), cond))
        info_max(out, "surplus_err_over_tol", rel / tol)
        # (e) the returned integral is the reference surpluses times the stored basis integrals (which weight_clause
        # compares with numerical quadrature of the basis functions)
        W = [np.array(cx.weights(d), dtype=float) for d in range(cx.dim)]
        ref_int, abs_int = S_ref, np.abs(S_ref)
        for d in range(cx.dim):
            ref_int = np.tensordot(ref_int, W[d], axes=(1, 0))
            abs_int = np.tensordot(abs_int, np.abs(W[d]), axes=(1, 0))
        compare_components(out, "%s/integral/%s-%s" % (sub, cx.family, cx.mode), np.asarray(integral, dtype=float).reshape(-1),
                      ref_int.reshape(-1), tol, 0, abs_int.reshape(-1) + 1e-300,
                      "%s: integrate() return value vs reference surpluses times stored basis integrals" % cx.describe())
        # (d) the hierarchisation operator called directly (observe_at of the property) gives the same surpluses; one
        # operator object per grid object, kept over the rounds
        if id(cx) not in direct_op:
            direct_op[id(cx)] = (cx, HierarchizationLSG(cx.grid))
        direct = direct_op[id(cx)][1](np.array(want.T, dtype=float), [int(n) for n in cx.shape], cx.grid)
        compare_components(out, "%s/direct-operator-call/%s" % (sub, cx.kind), direct, S_ref.reshape(nout, N), tol, 0, smax_o,
                      "%s: HierarchizationLSG(grid)(values, numPoints, grid) vs numpy solve of the collocation systems" % cx.describe())
        return True

    cx, base_ok = drive_rounds(case, sub, out, one_round)
    out.nontrivial = bool(base_ok)
    return out


def run_roundtrip_local(case):
    return run_roundtrip(case, "roundtrip_local")


def run_roundtrip_global(case):
    return run_roundtrip(case, "roundtrip_global")


# ----------------------------------------------------------------------------------------------------------------
# sub-check 3: polynomial reproduction
# ----------------------------------------------------------------------------------------------------------------
def run_polynomials(case):
    import numpy as np
    from sparseSpACE.Function import FunctionCustom
    out = Outcome()
    sub = "polynomials"
    seen = dict(kmax=0)

    def one_round(out, cx):
        rng = np.random.default_rng([int(case["rng"]), int(cx.round)])     # see run_roundtrip.one_round
        common_classes(out, cx)
        if int(math.prod(cx.shape)) == 0:
            out.cls("empty-grid")
            return False
        kmax = [cx.kmax(d) for d in range(cx.dim)]
        combos = {tuple([0] * cx.dim), tuple(min(1, k) for k in kmax), tuple(kmax)}
        for d in range(cx.dim):
            combos.add(tuple(kmax[e] if e == d else 0 for e in range(cx.dim)))
            if kmax[d] >= 2:
                combos.add(tuple(kmax[e] - 1 if e == d else min(1, kmax[e]) for e in range(cx.dim)))
        combos = sorted(combos)
        mid = [(cx.start[d] + cx.end[d]) / 2.0 for d in range(cx.dim)]
        half = [(cx.end[d] - cx.start[d]) / 2.0 for d in range(cx.dim)]
        mon = _Monos(combos, mid, half)
        f = FunctionCustom(mon, output_dim=len(combos))
        cx.integrate(f)
        res = collocation_clauses(out, sub, cx)
        if res is None:
            return False
        mats, cond = res
        out.cls("demanded-degree=%d" % max(kmax), "p=%d" % cx.p)
        if cx.round == 0:
            sw = switch_level(cx.family, cx.p)
            finest = [cx.lv[d] if cx.kind == "local" else max(cx.trees[d][1]) for d in range(cx.dim)]
            for l in finest:
                if l == sw:
                    out.cls("finest-level==switch-level")
                elif l == sw - 1:
                    out.cls("finest-level==switch-level-1")
                elif l == sw + 1:
                    out.cls("finest-level==switch-level+1")
        if cx.modified:
            out.cls("modified:linear-demanded" if max(kmax) >= 1 else "modified:constants-only")
        if max(kmax) == cx.p and cx.p >= 3:
            out.cls("full-order-demanded(p>=3)")
        if not cond <= COND_SKIP:
            out.cls("ill-conditioned-skipped")
            return False
        pts = random_points(cx, rng, 24)
        got = np.asarray(cx.interpolate(pts), dtype=float)
        want = np.array([mon(x) for x in pts], dtype=float)
        # scale: every test monomial is bounded by 1 on the box; a surplus error (eps*cond*max|s|) is carried to the point
        # x by sum_i |phi_i(x)| = prod_d L_d(x_d) (Lebesgue function of the 1D bases: 1e2..1e3 away from a cluster of
        # Lagrange knots 0.8, 0.96, 0.968, 1), so the tolerance at x is tol_cond(cond) * max(1, max|s| * prod_d L_d(x_d)).
        # Observed on the unchanged tree: <= 1e-3 of it.
        leb = np.ones(len(pts))
        for d in range(cx.dim):
            leb *= np.array([math.fsum(abs(float(bf(x[d]))) for bf in cx.basis(d)) for x in pts])
        smax = float(np.max(np.abs(np.asarray(cx.surplusses(), dtype=float))))
        amp = np.maximum(1.0, smax * leb)
        info_max(out, "poly_max_amplification", float(np.max(amp)))
        tol = tol_cond(cond)
        err = np.abs(got - want) if got.shape == want.shape else None
        if err is None or not np.all(np.isfinite(got)):
            out.bad(sub + "/shape", "%s: interpolate returned shape %s" % (cx.describe(), got.shape))
            return False
        info_max(out, "poly_rel_err", float(np.max(err)))
        ratio = err / (tol * amp[:, None])
        info_max(out, "poly_err_over_tol", float(np.max(ratio)))
        if not float(np.max(ratio)) <= 1.0:
            pi, ci = [int(t) for t in np.unravel_index(int(np.argmax(ratio)), ratio.shape)]
            ks = combos[ci]
            kk = max(ks)
            clause = "constants" if kk == 0 else "linear" if kk == 1 else "degree<=order-with-enough-points"
            out.bad("%s/%s/%s-%s-%s" % (sub, clause, cx.kind, cx.family, cx.mode),
                    "%s: monomial t^%s (demanded degrees %s, cond %.2e) at x=%s: interpolant %r, exact %r (tolerance %.2g)"
                    % (cx.describe(), list(ks), kmax, cond, pts[pi], got[pi, ci], want[pi, ci], tol * amp[pi]))
        if cx.round == 0:
            seen["kmax"] = max(kmax)
        return True

    cx, base_ok = drive_rounds(case, sub, out, one_round)
    out.nontrivial = bool(base_ok) and seen["kmax"] >= 2
    return out


# ----------------------------------------------------------------------------------------------------------------
# sub-check 4: interpolate_grid (tensor-grid interpolation API of the same classes)
# ----------------------------------------------------------------------------------------------------------------
def run_interpolate_grid(case):
    import numpy as np
    from sparseSpACE.Function import FunctionCustom
    out = Outcome()
    sub = "interpolate_grid"
    rng = np.random.default_rng(int(case["rng"]))
    nout = int(case["out"])
    cx = _Ctx(case)
    cx.setup()
    common_classes(out, cx)
    out.cls("output-length=%d" % nout)
    N = int(math.prod(cx.shape))
    if N == 0:
        out.cls("empty-grid")
        return out
    vtype = case.get("vtype", "float")
    out.cls("value-dtype=" + vtype)
    V, table = make_typed_table(cx, rng, nout, 1.0, vtype)
    f = FunctionCustom(_Table(table), output_dim=nout) if vtype == "float" else typed_function(table, nout, vtype)
    cx.integrate(f)
    res = collocation_clauses(out, sub, cx)
    if res is None:
        return out
    mats, cond = res
    out.nontrivial = structural_nt(cx) and cond <= COND_SKIP
    # the grid's own coordinates plus one extra coordinate per dimension
    coords = []
    for d in range(cx.dim):
        extra = float(cx.start[d] + rng.random() * (cx.end[d] - cx.start[d]))
        coords.append(sorted(set(cx.xs[d] + [extra])))
    got = guarded(sub, out, cx.interpolate_grid, [list(c) for c in coords])
    if got is None:
        return out
    got = np.asarray(got, dtype=float)
    S_t = np.asarray(cx.surplusses(), dtype=float).reshape([nout] + cx.shape)
    # reference: tensor sum on the tensor grid, points in the order of itertools.product(coords)
    Es = [np.array([[float(bf(x)) for bf in cx.basis(d)] for x in coords[d]]) for d in range(cx.dim)]
    T = tensor_apply(Es, S_t)                               # (out, m_1..m_dim)
    ref = np.moveaxis(T, 0, -1).reshape(-1, nout)
    sc = float(np.max(np.abs(tensor_apply([np.abs(e) for e in Es], np.abs(S_t))))) + 1e-300
    rel = compare_nodal(out, "%s/is-tensor-sum/%s/output-length-%s" % (sub, cx.kind, "1" if nout == 1 else ">1"),
                        got, ref, 1e-11, sc,
                        "%s: interpolate_grid(%s coordinates) vs sum of surplus*basis values, output length %d"
                        % (cx.describe(), [len(c) for c in coords], nout))
    out.info["interp_grid_rel"] = rel
    if cond <= COND_SKIP and not out.violations:
        # nodal values come back on the sub-grid of own coordinates
        sel = np.ix_(*[[coords[d].index(x) for x in cx.xs[d]] for d in range(cx.dim)])
        G = got.reshape([len(c) for c in coords] + [nout])
        back = np.moveaxis(G[sel], -1, 0)
        compare_nodal(out, "%s/nodal-values/%s" % (sub, cx.kind), back, V, tol_cond(cond), float(np.max(np.abs(V))),
                      "%s: interpolate_grid at the grid's own coordinates" % cx.describe())
    return out


# ----------------------------------------------------------------------------------------------------------------
# sub-check: several live grid objects used in an interleaved order (state shared between objects)
# ----------------------------------------------------------------------------------------------------------------
def _run_program(case, which, order):
    """Create fresh grid objects for the object indices in `which` and execute the operations of `order`
    ([obj index, op name] in this sequence) that belong to them.  -> (results, meta)
    results[(obj, k)] for the k-th operation of object obj: ("ok", op, array) | ("exc", op, signature fragment, text)
    meta[obj]: dict(cx, V (table of the last integrate), N)"""
    import numpy as np
    from sparseSpACE.Function import FunctionCustom
    from vlib.core import classify_exception
    objs = case["objs"]
    ctx = {i: _Ctx(objs[i]) for i in which}
    meta = {i: dict(cx=ctx[i], V=None, n_int=0, tables=[]) for i in which}
    count = {i: 0 for i in which}
    results = {}
    for i, op in order:
        if i not in ctx:
            continue
        cx, m = ctx[i], meta[i]
        k = count[i]
        count[i] += 1
        try:
            if op == "integrate":
                cx.setup()
                rng = np.random.default_rng([int(case["rng"]), int(i), int(m["n_int"])])
                nout = int(objs[i]["out"])
                V, table = make_typed_table(cx, rng, nout, 1.0, "float")
                m["V"], m["N"] = V, int(math.prod(cx.shape))
                m["n_int"] += 1
                m["tables"].append(V)
                m["pts"] = grid_points(cx) + random_points(cx, rng, 4)
                m["coords"] = [sorted(set(cx.xs[d] + [float(cx.start[d] + rng.random() * (cx.end[d] - cx.start[d]))]))
                               for d in range(cx.dim)]
                m.setdefault("coords_list", []).append(m["coords"])
                val = np.asarray(cx.integrate(FunctionCustom(_Table(table), output_dim=nout)), dtype=float).reshape(-1)
            elif op == "interpolate":
                val = np.array(cx.interpolate(m["pts"]), dtype=float)
            elif op == "interpolate_grid":
                val = np.array(cx.interpolate_grid([list(c) for c in m["coords"]]), dtype=float)
            elif op == "surplusses":
                val = np.array(cx.surplusses(), dtype=float)
            else:
                raise ValueError(op)
            results[(i, k)] = ("ok", op, val, m["n_int"] - 1)
        except Exception as e:  # noqa - classified below: only library exceptions are results
            kind, frag, text = classify_exception(e)
            if kind != "lib":
                raise
            results[(i, k)] = ("exc", op, frag, "%s: %s" % (type(e).__name__, e), m["n_int"] - 1)
    return results, meta


def _absolute_clauses(scratch, sub, res, m, mats, cond):
    """the clauses of the statement on ONE result of one object (as if the object had been used alone)"""
    import numpy as np
    cx, tag = m["cx"], res[1]
    if res[0] == "exc":
        scratch.bad("%s/exception/%s" % (sub, res[2]), "%s: %s raised %s" % (cx.describe(), tag, res[3]))
        return
    V = m["tables"][res[3]]
    nout, N = V.shape[0], int(math.prod(V.shape[1:]))
    tol = tol_cond(cond)
    vmax = float(np.max(np.abs(V)))
    want = np.moveaxis(V, 0, -1).reshape(N, nout)
    if tag == "interpolate":
        compare_nodal(scratch, "%s/nodal-values/interpolate" % sub, res[2][:N], want, tol, vmax,
                      "%s: interpolate(grid points) after integrate()" % cx.describe())
    elif tag == "surplusses":
        S_ref = tensor_apply([np.linalg.inv(M) for M in mats], V).reshape(nout, N)
        compare_nodal(scratch, "%s/surpluses" % sub, res[2], S_ref, tol, float(np.max(np.abs(S_ref))) + 1e-300,
                      "%s: stored surpluses vs numpy solve of the collocation systems" % cx.describe())
    elif tag == "interpolate_grid":
        coords = m["coords_list"][res[3]]               # the coordinates that belong to the integrate() before this read
        shape = [len(c) for c in coords]
        if res[2].shape != (int(math.prod(shape)), nout):
            scratch.bad("%s/nodal-values/interpolate_grid/shape" % sub, "%s: shape %s" % (cx.describe(), res[2].shape))
            return
        sel = np.ix_(*[[coords[d].index(x) for x in cx.xs[d]] for d in range(cx.dim)])
        back = np.moveaxis(res[2].reshape(shape + [nout])[sel], -1, 0)
        compare_nodal(scratch, "%s/nodal-values/interpolate_grid" % sub, back, V, tol, vmax,
                      "%s: interpolate_grid at the grid's own coordinates" % cx.describe())


def run_interleaved(case):
    import numpy as np
    out = Outcome()
    sub = "interleaved"
    objs = case["objs"]
    order = [(int(i), str(op)) for i, op in case["order"]]
    nobj = len(objs)
    out.cls("interleaved-objects=%d" % nobj, "kind=" + objs[0]["kind"])
    inter, meta = _run_program(case, list(range(nobj)), order)
    # key under which an object stores its surpluses (level vector for global grids; area + level vector for local ones)
    keys = []
    for i in range(nobj):
        cx = meta[i]["cx"]
        keys.append((cx.kind, tuple(cx.lv)) if cx.kind == "global" else
                    (cx.kind, tuple(cx.start.tolist()), tuple(cx.end.tolist()), tuple(cx.lv)))
    shared = any(keys[i] == keys[j] for i in range(nobj) for j in range(i + 1, nobj))
    if shared:
        out.cls("same-level-vector-on-several-objects")
    # was some read preceded by an integrate of ANOTHER object with the same key after the object's own integrate?
    crossing = False
    last_int = {}
    for pos, (i, op) in enumerate(order):
        if op == "integrate":
            last_int[i] = pos
        elif i in last_int:
            if any(j != i and keys[j] == keys[i] and op2 == "integrate" and last_int[i] < q < pos
                   for q, (j, op2) in enumerate(order)):
                crossing = True
    if crossing:
        out.cls("read-after-integrate-of-another-object-with-the-same-key")
    all_ok = True
    for i in range(nobj):
        own = [(j, op) for j, op in order if j == i]
        solo, smeta = _run_program(case, [i], own)
        cx = meta[i]["cx"]
        common_classes(out, cx) if getattr(cx, "shape", None) else None
        scratch = Outcome()
        colloc = collocation_clauses(scratch, sub, smeta[i]["cx"]) if getattr(smeta[i]["cx"], "shape", None) else None
        for sig, msg in scratch.violations:
            out.bad(sig, msg)
        if colloc is None:
            all_ok = False
            continue
        mats, cond = colloc
        if not cond <= COND_SKIP:
            out.cls("ill-conditioned-skipped")
            all_ok = False
            continue
        for k in range(len(own)):
            ri, rs = inter[(i, k)], solo[(i, k)]
            a_int, a_solo = Outcome(), Outcome()
            _absolute_clauses(a_int, sub, ri, meta[i], mats, cond)
            _absolute_clauses(a_solo, sub, rs, smeta[i], mats, cond)
            solo_sigs = set(sg for sg, _ in a_solo.violations)
            for sig, msg in a_int.violations:
                if sig in solo_sigs:
                    out.bad(sig, "(also when the object is used alone) " + msg)
                else:
                    out.bad(sig + "/only-when-interleaved-with-another-grid-object",
                            "(object %d of %d, operation %d of its program; the same program on a fresh object used alone "
                            "passes; order %s) %s" % (i, nobj, k, order, msg))
            for sig, msg in a_solo.violations:
                if sig not in set(sg for sg, _ in a_int.violations):
                    out.bad(sig + "/only-when-used-alone", msg)
            # beyond the tolerance-based clauses: the interleaved result is the result of the solo run, bit for bit
            if not a_int.violations and not a_solo.violations and ri[0] == "ok" and rs[0] == "ok":
                if ri[2].shape != rs[2].shape or not np.array_equal(ri[2], rs[2], equal_nan=True):
                    dev = float(np.max(np.abs(ri[2] - rs[2]))) if ri[2].shape == rs[2].shape else float("inf")
                    out.bad("%s/%s-differs-from-solo-run/only-when-interleaved-with-another-grid-object" % (sub, ri[1]),
                            "%s: object %d operation %d (%s): result differs from the same program run on a fresh object "
                            "used alone (max deviation %.3g); order %s" % (cx.describe(), i, k, ri[1], dev, order))
    out.info["max_objects"] = nobj
    out.info["max_operations"] = len(order)
    out.nontrivial = all_ok and nobj >= 2 and shared and crossing
    return out


# ----------------------------------------------------------------------------------------------------------------
# sub-check 5: single basis objects
# ----------------------------------------------------------------------------------------------------------------
def nak_level_coordinates(a, b, level, ratios):
    """complete hierarchy of depth `level` on [a,b]; ratios = None -> uniform (np.linspace like BSplineGrid1D),
    else an iterator of ratios used for every inserted midpoint (what GlobalBSplineGrid sees on a weighted tree)."""
    import numpy as np
    if ratios is None:
        return [float(t) for t in np.linspace(a, b, 2 ** level + 1)]
    pts = [float(a), float(b)]
    for l in range(level):
        new = []
        for i in range(len(pts) - 1):
            new.append(pts[i])
            new.append(pts[i] + (pts[i + 1] - pts[i]) * next(ratios))
        new.append(pts[-1])
        pts = new
    return pts


def nak_knots(a, b, level, p, lc):
    """knot vector of the hierarchical not-a-knot B-splines of one level, as BSplineGrid1D/GlobalBSplineGrid build it"""
    import numpy as np
    if level < math.log2(p + 1):
        return np.array(lc)
    h = (b - a) / 2 ** level
    return np.array([a + i * h if i < 0 or i >= len(lc) else lc[i] for i in range(-p, 2 ** level + p + 1)
                     if i <= 0 or (p + 1) / 2 <= i <= 2 ** level - (p + 1) / 2 or i >= 2 ** level])


def build_basis(case):
    """-> (object, info) with info: knots (breakpoints), lo/hi (region for derivative samples), ia/ib (integration
    interval passed to get_integral), ra/rb (interval of the reference integral), gauss p"""
    import numpy as np
    import sparseSpACE.BasisFunctions as B
    kind = case["kind"]
    p = int(case["p"])
    info = {}
    if kind in ("lagrange", "lagrange_restricted", "lagrange_restricted_modified"):
        x0 = float(case["x0"])
        knots = [x0]
        for inc in case["incs"]:
            knots.append(knots[-1] + float(inc))
        idx = int(case["index"])
        if kind == "lagrange":
            f = B.LagrangeBasis(p, idx, list(knots))
            span = knots[-1] - knots[0]
            info.update(lo=knots[0] - 0.25 * span, hi=knots[-1] + 0.25 * span)
            ia = knots[0] + float(case["ia"]) * span
            ib = knots[0] + float(case["ib"]) * span
            info.update(ia=ia, ib=ib, ra=ia, rb=ib)
        elif kind == "lagrange_restricted":
            f = B.LagrangeBasisRestricted(p, idx, list(knots))
            lo, hi = knots[max(0, idx - 1)], knots[min(idx + 1, len(knots) - 1)]
            info.update(lo=lo, hi=hi, ia=knots[0], ib=knots[-1], ra=lo, rb=hi)
        else:
            f = B.LagrangeBasisRestrictedModified(p, idx, np.array(knots), knots[0], knots[-1], int(case["level"]))
            lo, hi = knots[idx - 1], knots[idx + 1]
            info.update(lo=lo, hi=hi, ia=knots[0], ib=knots[-1], ra=lo, rb=hi)
        info.update(knots=knots, own=knots[idx], others=[k for i, k in enumerate(knots) if i != idx])
        if kind == "lagrange_restricted_modified":
            info["others"] = [k for i, k in enumerate(knots) if i != idx and 0 < i < len(knots) - 1]
        return f, info
    if kind == "bspline":
        x0 = float(case["x0"])
        knots = [x0]
        for inc in case["incs"]:
            knots.append(knots[-1] + float(inc))
        idx = int(case["index"])
        f = B.BSpline(p, idx, np.array(knots))
        span = knots[-1] - knots[0]
        ia = knots[0] + float(case["ia"]) * span
        ib = knots[0] + float(case["ib"]) * span
        info.update(knots=knots, lo=knots[idx], hi=knots[idx + p + 1], ia=ia, ib=ib, ra=ia, rb=ib,
                    outside=[knots[idx] - 0.1 * span, knots[idx + p + 1] + 0.1 * span])
        return f, info
    # hierarchical not-a-knot B-splines
    a = float(case["a"])
    b = a + float(case["len"])
    level = int(case["level"])
    ratios = None
    if case.get("weighted"):
        r = np.random.default_rng(int(case["wrng"]))
        ratios = iter(lambda: float(r.uniform(0.3, 0.7)), None)
    lc = nak_level_coordinates(a, b, level, ratios)
    knots = nak_knots(a, b, level, p, lc)
    idx = int(case["index"])
    if kind == "nak":
        f = B.HierarchicalNotAKnotBSpline(p, idx, level, knots)
    else:
        f = B.HierarchicalNotAKnotBSplineModified(p, idx, level, knots, a, b)
    ia = a + float(case["ia"]) * (b - a)
    ib = a + float(case["ib"]) * (b - a)
    info.update(knots=[float(t) for t in knots], lo=a, hi=b, ia=ia, ib=ib, ra=ia, rb=ib, own=lc[idx], lc=lc)
    return f, info


def check_basis_object(out, sub, kind, f, info, p, rng, nsamples=6):
    """derivative and integral clauses for one basis object; returns (#derivative samples, #integrals)"""
    import numpy as np
    knots = info["knots"]
    lo, hi = info["lo"], info["hi"]
    br = sorted(set([t for t in knots if lo < t < hi] + [lo, hi]))
    pieces = [(br[i], br[i + 1]) for i in range(len(br) - 1) if br[i + 1] > br[i]]
    nsamp = 0
    e1max = e2max = 0.0
    if pieces:
        picks = rng.integers(0, len(pieces), size=nsamples)
        ts = 0.1 + 0.8 * rng.random(nsamples)
        for k in range(nsamples):
            l, r = pieces[int(picks[k])]
            w = r - l
            x = l + float(ts[k]) * w
            fm = max(abs(float(f(x + j * 1e-3 * w))) for j in (-2, -1, 0, 1, 2))
            for order, h, num_fn, lib_fn in ((1, 1e-4 * w, diff1, f.get_first_derivative),
                                             (2, 1e-3 * w, diff2, f.get_second_derivative)):
                lib = float(lib_fn(x))
                num = float(num_fn(f, x, h))
                scale = max(abs(lib), abs(num), fm / w ** order, 1e-300)
                rel = abs(lib - num) / scale
                if order == 1:
                    e1max = max(e1max, rel)
                else:
                    e2max = max(e2max, rel)
                # tolerance 1e-5 (rounding/truncation of the stencils seen on the unchanged tree: 1e-9 / 2e-7)
                if not rel <= 1e-5:
                    cause = ""
                    un = info.get("unmodified")
                    if un is not None:
                        num_un = float(num_fn(un, x, h))
                        if abs(lib - num_un) <= 1e-5 * max(abs(lib), abs(num_un), fm / w ** order):
                            cause = "/is-derivative-of-unmodified-polynomial"
                    sig = "%s/derivative%d/%s%s" % (sub, order, kind, cause)
                    if any(sg == sig for sg, _ in out.violations):
                        break                                    # one report per cause and case
                    out.bad(sig,
                            "%s p=%d knots=%s index=%s: get_%s_derivative(%r) = %r, central difference of __call__ = %r"
                            % (kind, p, [round(t, 6) for t in knots][:12], getattr(f, "index", None),
                               "first" if order == 1 else "second", x, lib, num))
                    break
            nsamp += 1
    out.info["d1_rel_err"] = e1max
    out.info["d2_rel_err"] = e2max
    # derivatives exactly AT knots (interior knots and support ends): compared with the one-sided limits of the
    # difference quotients of __call__.  The side is the one the function VALUE is continuous from (half-open pieces);
    # a function that is continuous from both sides may return either one-sided derivative where the derivative jumps.
    allk = sorted(set(float(t) for t in knots))
    cand = [t for t in allk if lo <= t <= hi]
    e_at = 0.0
    if cand and len(allk) >= 2:
        chosen = sorted(set([cand[0], cand[-1]] + [cand[int(i)] for i in rng.integers(0, len(cand), size=3)]))
        for x in chosen:
            i = allk.index(x)
            wl = x - allk[i - 1] if i > 0 else allk[i + 1] - x
            wr = allk[i + 1] - x if i + 1 < len(allk) else wl
            vL, d1L, d2L, mL = one_sided(f, x, wl, -1)
            vR, d1R, d2R, mR = one_sided(f, x, wr, +1)
            fx = float(f(x))
            fm = max(mL, mR, abs(fx))
            tolv = 1e-8 * max(fm, 1e-300)
            contL, contR = abs(fx - vL) <= tolv, abs(fx - vR) <= tolv
            sides = []
            if contR or not contL:
                sides.append(("right", d1R, d2R, wr))
            if contL or not contR:
                sides.append(("left", d1L, d2L, wl))
            out.cls("at-knot:value-continuous" if (contL and contR) else "at-knot:value-one-sided")
            for order, lib_fn in ((1, f.get_first_derivative), (2, f.get_second_derivative)):
                lib = float(lib_fn(x))
                nums = [(nm, (d1 if order == 1 else d2), w_) for nm, d1, d2, w_ in sides]
                rels = [abs(lib - num) / max(abs(lib), abs(num), fm / w_ ** order, 1e-300) for nm, num, w_ in nums]
                if len(nums) == 2 and abs(nums[0][1] - nums[1][1]) > 1e-6 * max(abs(nums[0][1]), abs(nums[1][1]),
                                                                                 fm / min(wl, wr) ** order):
                    out.cls("at-knot:derivative%d-jumps" % order)
                rel = min(rels)
                if info.get("unmodified") is None:
                    e_at = max(e_at, rel)
                # tolerance 1e-6 relative (seen on the unchanged tree: 1e-11 first, 3e-10 second derivative)
                if not rel <= 1e-6:
                    cause = ""
                    un = info.get("unmodified")
                    if un is not None:
                        for sd, w_ in ((-1, wl), (+1, wr)):
                            u = one_sided(un, x, w_, sd)
                            num_un = u[1] if order == 1 else u[2]
                            if abs(lib - num_un) <= 1e-6 * max(abs(lib), abs(num_un), fm / w_ ** order):
                                cause = "/is-derivative-of-unmodified-polynomial"
                    # the same root cause as away from the knots gets the same signature (finding F-C10-b)
                    sig = ("%s/derivative%d/%s%s" if cause else "%s/derivative%d-at-knot/%s%s") % (sub, order, kind, cause)
                    if not any(sg == sig for sg, _ in out.violations):
                        out.bad(sig, "%s p=%d knots=%s index=%s: get_%s_derivative(%r) = %r AT a knot; one-sided limits of the "
                                "difference quotients of __call__: %s (value at the knot %r, limits left %r right %r)"
                                % (kind, p, [round(t, 6) for t in knots][:12], getattr(f, "index", None),
                                   "first" if order == 1 else "second", x, lib,
                                   ", ".join("%s %r" % (nm, num) for nm, num, w_ in nums), fx, vL, vR))
            nsamp += 1
    out.info["d_at_knot_rel_err"] = e_at
    # integral
    xs, ws = np.polynomial.legendre.leggauss(int(p / 2) + 1)
    lib = float(f.get_integral(info["ia"], info["ib"], xs, ws))
    ref, fabs, tv = ref_quad_cond(f, knots, info["ra"], info["rb"])
    sc = max(fabs, abs(info["rb"] - info["ra"]), 1e-300)
    tol = integral_tolerance(sc, tv, max([abs(info["ra"]), abs(info["rb"])] + [abs(t) for t in knots]))
    rel = abs(lib - ref) / sc
    out.info["integral_rel_err"] = rel
    out.info["integral_err_over_tol"] = abs(lib - ref) / tol
    if not abs(lib - ref) <= tol:                # rounding seen 3e-15 * scale
        out.bad("%s/integral/%s" % (sub, kind),
                "%s p=%d knots=%s index=%s: get_integral(%r, %r, Gauss(%d)) = %r, quadrature of __call__ over [%r,%r] = %r"
                % (kind, p, [round(t, 6) for t in knots][:12], getattr(f, "index", None), info["ia"], info["ib"],
                   int(p / 2) + 1, lib, info["ra"], info["rb"], ref))
    return nsamp, 1


def run_basis(case):
    import numpy as np
    import sparseSpACE.BasisFunctions as B
    out = Outcome()
    sub = "basis"
    kind = case["kind"]
    p = int(case["p"])
    rng = np.random.default_rng(int(case["rng"]))
    f, info = build_basis(case)
    knots = info["knots"]
    out.cls(kind, "%s-p%d" % (kind, p) if kind in ("bspline", "nak", "nak_modified") else "%s-%dknots" % (kind, len(knots)))
    w = [knots[i + 1] - knots[i] for i in range(len(knots) - 1)]
    if w and max(w) > 1.2 * min(w):
        out.cls("non-uniform-knots")
    # cardinality (Lagrange classes): 1 at the own knot, exactly 0 at the other knots, 0 outside the support
    if kind.startswith("lagrange"):
        v = float(f(info["own"]))
        if not abs(v - 1.0) <= 1e-10:                       # rounding seen 2e-15 (8 knots)
            out.bad("%s/cardinality/own-knot/%s" % (sub, kind), "%s knots=%s index=%d: value at own knot %r"
                    % (kind, knots, case["index"], v))
        vals = [float(f(t)) for t in info["others"]]
        if any(t != 0.0 for t in vals):
            out.bad("%s/cardinality/other-knots/%s" % (sub, kind), "%s knots=%s index=%d: values at the other knots %s"
                    % (kind, knots, case["index"], vals))
        if kind != "lagrange":
            span = knots[-1] - knots[0]
            outside = [t for t in (info["lo"] - 1e-9 * span, info["hi"] + 1e-9 * span, knots[0] - span, knots[-1] + span)]
            vals = [float(f(t)) for t in outside]
            if any(t != 0.0 for t in vals):
                out.bad("%s/support/%s" % (sub, kind), "%s knots=%s index=%d: values outside [%r,%r]: %s"
                        % (kind, knots, case["index"], info["lo"], info["hi"], vals))
        if kind == "lagrange_restricted_modified":
            lvl = int(case["level"])
            out.cls("modified-level-1" if lvl == 1 else "modified-level>1")
            if f.is_left_border or f.is_right_border:
                out.cls("modified-at-border")
            if lvl == 1 or f.is_left_border or f.is_right_border:
                # only used to name the cause of a derivative mismatch (see check_basis_object)
                info["unmodified"] = B.LagrangeBasisRestricted(p, int(case["index"]), list(knots))
    elif kind == "bspline":
        vals = [float(f(t)) for t in info["outside"]]
        if any(t != 0.0 for t in vals):
            out.bad("%s/support/bspline" % sub, "BSpline p=%d knots=%s index=%d: values outside the support: %s"
                    % (p, knots, case["index"], vals))
        # partition of unity of all B-splines of the knot vector on [knots[p], knots[-p-1]] (definition check)
        n = len(knots)
        if n - p - 1 >= 1 and knots[n - p - 1] > knots[p]:
            xs = knots[p] + (0.05 + 0.9 * rng.random(3)) * (knots[n - p - 1] - knots[p])
            for x in xs:
                s = math.fsum(float(B.BSpline(p, i, np.array(knots))(float(x))) for i in range(n - p - 1))
                if not abs(s - 1.0) <= 1e-11:
                    out.bad("%s/partition-of-unity/bspline" % sub, "BSpline p=%d knots=%s: sum of all B-splines at %r is %r"
                            % (p, knots, float(x), s))
                    break
    else:
        lvl = int(case["level"])
        out.cls("nak-lagrange-branch" if lvl < math.log2(p + 1) else "nak-bspline-branch")
        if case.get("weighted"):
            out.cls("nak-weighted-hierarchy")
        if kind == "nak_modified":
            idx = int(case["index"])
            if lvl == 1:
                out.cls("modified-level-1")
            elif idx in (1, 2 ** lvl - 1):
                out.cls("modified-at-border")
    ns, ni = check_basis_object(out, sub, kind, f, info, p, rng)
    out.nontrivial = len(knots) >= 3 and ns >= 1 and ni >= 1
    out.info["max_knots"] = len(knots)
    return out


# ----------------------------------------------------------------------------------------------------------------
# strategies
# ----------------------------------------------------------------------------------------------------------------
@st.composite
def _tree(draw, max_splits, min_complete=0, graded_ok=True, weighted_ok=True, max_level=60, min_splits=1):
    shape = draw(st.sampled_from(["random", "random", "left", "right", "zigzag", "complete", "complete"]
                                 if graded_ok else ["random", "complete", "complete"]))
    rmode = draw(st.sampled_from(["dyadic", "dyadic", "weighted", "extreme", "mixed"] if weighted_ok else ["dyadic"]))

    def ratio():
        if rmode == "dyadic":
            return 0.5
        if rmode == "weighted":
            return draw(st.floats(0.2, 0.8, allow_nan=False))
        if rmode == "extreme":
            return draw(st.sampled_from([0.2, 0.8]))
        return draw(st.sampled_from([0.5, 0.5, 0.2, 0.8, 0.35, 0.6180339887498949]))

    splits = []
    count = 1
    lev = [0, 0]

    def do_split(i, r):
        splits.append([i, r])
        lev.insert(i + 1, max(lev[i], lev[i + 1]) + 1)

    depth = min_complete
    if shape == "complete":
        depth = max(min_complete, draw(st.integers(1, 3)))
    while depth > 0 and 2 ** depth - 1 > max(max_splits, 1):
        depth -= 1
    for l in range(depth):
        for j in range(2 ** l):
            do_split(2 * j, ratio())
        count = 2 ** (l + 1)
    lo = max(0 if splits else 1, min_splits - len(splits))
    hi = max(lo, max_splits - len(splits))
    n = draw(st.integers(lo, hi))
    last = 0
    for _ in range(n):
        if shape == "left":
            i = 0
        elif shape == "right":
            i = count - 1
        elif shape == "zigzag":
            i = last if (len(splits) % 2 == 0) else min(count - 1, last + 1)
        else:
            i = draw(st.integers(0, count - 1))
        for _try in range(count):
            if max(lev[i], lev[i + 1]) + 1 <= max_level:
                break
            i = (i + 1) % count
        else:
            break
        last = i
        do_split(i, ratio())
        count += 1
    return splits


@st.composite
def _domain(draw, dim):
    return ([draw(st.sampled_from(_A)) for _ in range(dim)], [draw(st.sampled_from(_LEN)) for _ in range(dim)])


@st.composite
def _local_case(draw, tier, poly=False, maxdim=3, dim=None):
    if dim is None:
        dim = draw(st.sampled_from([1, 2, 2, 3] if maxdim >= 3 else [1, 2, 2]))
    a, ln = draw(_domain(dim))
    family = draw(st.sampled_from(["lagrange", "bspline"]))
    if family == "lagrange":
        p = draw(st.sampled_from([1, 2, 3, 4, 5, 2, 3]))
        mode = "boundary"
    else:
        p = draw(st.sampled_from([1, 3, 5, 3, 5, 7]))
        mode = draw(st.sampled_from(["boundary", "boundary", "boundary", "modified"] if poly else
                                    ["boundary", "boundary", "boundary", "noboundary", "modified"]))
    lmin = 0 if mode == "boundary" else 1
    cap = {1: 6, 2: 5, 3: 4}[dim]
    if family == "bspline" and p == 7:
        cap = min(cap, 4)
    big = draw(st.integers(0, 2)) == 0          # one dimension with 17 / 33 points (QR branch)
    lv = [draw(st.integers(lmin, 3 if dim > 1 else cap)) for _ in range(dim)]
    if big:
        lv[draw(st.integers(0, dim - 1))] = draw(st.sampled_from([4, min(5, cap), 4]))
    limit = 450 if tier == "quick" else 900
    while math.prod(2 ** l + 1 for l in lv) > limit:
        # shrink the largest level that is not the (first) maximum; if there is none, the maximum itself
        jmax = max(range(dim), key=lambda k: (lv[k], -k))
        rest = [k for k in range(dim) if k != jmax and lv[k] > lmin]
        j = max(rest, key=lambda k: (lv[k], -k)) if rest else jmax
        if lv[j] <= lmin:
            break
        lv[j] -= 1
    paths = [draw(st.lists(st.integers(0, 1), min_size=0, max_size=3)) if mode == "boundary" else [] for _ in range(dim)]
    case = dict(kind="local", family=family, p=p, mode=mode, a=a, len=ln, paths=paths, lv=lv,
                rng=draw(st.integers(0, 2 ** 31 - 1)))
    if draw(st.integers(0, 3)) == 0:
        # the same grid object visits 1-2 other areas (as extend-split does) and possibly the first one again
        seq = []
        for _ in range(draw(st.integers(1, 2))):
            lv2 = [draw(st.integers(lmin, 3)) for _ in range(dim)]
            paths2 = [draw(st.lists(st.integers(0, 1), min_size=0, max_size=3)) if mode == "boundary" else []
                      for _ in range(dim)]
            seq.append(dict(kind="area", paths=paths2, lv=lv2))
        if draw(st.booleans()):
            seq.append(dict(kind="back"))
        case["seq"] = seq
    if not poly:
        case["out"] = draw(st.sampled_from([1, 2, 3]))
        case["vscale"] = draw(st.sampled_from([1.0, 1.0, 1e3, 1e-3]))
        case["vtype"] = draw(st.sampled_from(["float"] * 9 + list(VALUE_TYPES[1:])))
        if draw(st.integers(0, 2)) == 0:
            # one magnitude per output component: tiny components (1e-9 .. 1e-12) alone or next to O(1) components
            cs = [draw(st.sampled_from([1.0, 1.0, 1e-9, 1e-10, 1e-12, 1e3])) for _ in range(case["out"])]
            if not any(c <= 1e-9 for c in cs):
                cs[draw(st.integers(0, case["out"] - 1))] = draw(st.sampled_from([1e-9, 1e-10, 1e-12]))
            case["cscale"] = cs
            case["vscale"] = 1.0
    return case


@st.composite
def _global_case(draw, tier, poly=False, maxdim=3, dim=None):
    if dim is None:
        dim = draw(st.sampled_from([1, 1, 2, 2, 3] if maxdim >= 3 else [1, 1, 2]))
    a, ln = draw(_domain(dim))
    family = draw(st.sampled_from(["lagrange", "bspline"]))
    if family == "lagrange":
        p = draw(st.sampled_from([1, 2, 3, 4, 5, 2, 3]))
        mode = "boundary" if poly else draw(st.sampled_from(["boundary", "boundary", "noboundary"]))
        need = draw(st.sampled_from([0, 0, max(0, p - 1)])) if poly else 0
    else:
        p = draw(st.sampled_from([1, 3, 5, 3]))
        mode = draw(st.sampled_from(["boundary", "boundary", "boundary", "modified"] if poly else
                                    ["boundary", "boundary", "noboundary", "modified"]))
        need = draw(st.sampled_from([0, 0, {1: 1, 3: 2, 5: 3}[p]])) if poly else 0
        if poly and mode == "modified":
            need = draw(st.sampled_from([0, 2, 2, 3]))          # linear functions are demanded from complete depth 2 on
    bigdim = draw(st.integers(0, dim - 1))
    big1 = 40 if tier == "quick" else 60
    sizes = []
    for d in range(dim):
        if dim == 1:
            sizes.append((1, big1))
        elif dim == 2:
            sizes.append((1, 22) if d == bigdim else (1, 8))
        else:
            sizes.append((1, 9) if d == bigdim else (1, 4))
    small = draw(st.integers(0, 7)) == 0
    want_qr = dim <= 2 and draw(st.integers(0, 2)) == 0      # >= 15 points in the big dimension
    trees = []
    for d in range(dim):
        lo, hi = sizes[d]
        if small:
            hi = min(hi, 3)
        elif want_qr and d == bigdim:
            lo = 13 if mode == "boundary" else 15
            hi = max(hi, lo)
        trees.append(draw(_tree(hi, min_complete=0 if small else need, min_splits=lo,
                                weighted_ok=not (poly and mode == "modified" and need >= 2),
                                max_level=(11 if tier == "quick" else 13) if family == "bspline" else 60)))
    max_level = (11 if tier == "quick" else 13) if family == "bspline" else 60
    case = dict(kind="global", family=family, p=p, mode=mode, a=a, len=ln, trees=trees, max_level=max_level,
                rng=draw(st.integers(0, 2 ** 31 - 1)))
    if draw(st.integers(0, 2)) == 0:
        # ONE grid object is driven through 2-4 set_grid + integrate + interpolate rounds
        kinds = draw(st.sampled_from([["relabel"], ["relabel", "back"], ["relabel", "back"], ["refine", "relabel", "back"],
                                      ["refine", "back"], ["coarsen", "back"], ["relabel", "refine"],
                                      ["coarsen", "relabel", "back"], ["relabel", "relabel"]]))
        seq = []
        for k in kinds:
            if k == "relabel":
                seq.append(dict(kind=k, rng=draw(st.integers(0, 2 ** 31 - 1))))
            elif k == "refine":
                seq.append(dict(kind=k, splits=[[[draw(st.integers(0, 60)), draw(st.sampled_from([0.5, 0.5, 0.3, 0.7]))]
                                                 for _ in range(draw(st.integers(1, 4 if dim < 3 else 2)))]
                                                for _ in range(dim)]))
            elif k == "coarsen":
                seq.append(dict(kind=k, keep=[draw(st.sampled_from([0.25, 0.5, 0.75])) for _ in range(dim)]))
            else:
                seq.append(dict(kind=k))
        case["seq"] = seq
    if not poly:
        case["out"] = draw(st.sampled_from([1, 2, 3]))
        case["vscale"] = draw(st.sampled_from([1.0, 1.0, 1e3, 1e-3]))
        case["vtype"] = draw(st.sampled_from(["float"] * 9 + list(VALUE_TYPES[1:])))
        if draw(st.integers(0, 2)) == 0:
            # one magnitude per output component: tiny components (1e-9 .. 1e-12) alone or next to O(1) components
            cs = [draw(st.sampled_from([1.0, 1.0, 1e-9, 1e-10, 1e-12, 1e3])) for _ in range(case["out"])]
            if not any(c <= 1e-9 for c in cs):
                cs[draw(st.integers(0, case["out"] - 1))] = draw(st.sampled_from([1e-9, 1e-10, 1e-12]))
            case["cscale"] = cs
            case["vscale"] = 1.0
    return case


def roundtrip_local_strategy(tier):
    return _local_case(tier)


def roundtrip_global_strategy(tier):
    return _global_case(tier)


def switch_level(family, p):
    """the hierarchical level at which the regime of the basis changes: B-splines - the first level that carries
    not-a-knot B-splines of degree p instead of global Lagrange polynomials (level >= log2(p+1)); Lagrange - the first
    level whose functions have the full degree p (level p-1)"""
    return int(math.ceil(math.log2(p + 1) - 1e-12)) if family == "bspline" else p - 1


def _bspline_level_cap(p):
    """finest level that is still affordable: BSpline.recursive_eval visits ~C(p, p/2) paths per evaluation"""
    if p <= 7:
        return 5
    if p == 9:
        return 5
    if p == 11:
        return 4
    return switch_level("bspline", p) - 1          # p >= 13: Lagrange levels only (3 for p <= 15, 4 above)


@st.composite
def _highp_case(draw, tier):
    """degree p as a wide dimension (B-spline: every odd p up to 21 - the library only asserts 'p odd'; Lagrange 1..10)
    combined with finest levels chosen around the regime switch level, boundary points on, d = 1 or 2"""
    family = draw(st.sampled_from(["bspline", "bspline", "lagrange"]))
    if family == "bspline":
        p = draw(st.sampled_from([1, 3, 5, 7, 9, 9, 11, 13, 15, 17, 19, 21]))
        cap = _bspline_level_cap(p)
    else:
        p = draw(st.integers(1, 10))
        cap = 5
    sw = switch_level(family, p)
    near = [l for l in (sw - 1, sw, sw, sw + 1) if 0 <= l <= cap]
    L = draw(st.sampled_from(near)) if near and draw(st.integers(0, 3)) > 0 else draw(st.integers(0, cap))
    dim = draw(st.sampled_from([1, 1, 2]))
    kind = draw(st.sampled_from(["local", "global"]))
    if kind == "global" and L == 0:
        L = 1
    if dim == 2 and L >= 5:
        L = 4
    other = draw(st.integers(0 if kind == "local" else 1, 2))
    levels = [L] if dim == 1 else ([L, other] if draw(st.booleans()) else [other, L])
    a, ln = draw(_domain(dim))
    case = dict(kind=kind, family=family, p=p, mode="boundary", a=a, len=ln, rng=draw(st.integers(0, 2 ** 31 - 1)),
                highp=True)
    if kind == "local":
        case.update(paths=[draw(st.lists(st.integers(0, 1), min_size=0, max_size=2)) for _ in range(dim)], lv=levels)
    else:
        trees = []
        for l in levels:
            t = complete_splits(l)
            if draw(st.integers(0, 3)) == 0:            # a few points of the next level (not complete)
                t = t + [[draw(st.integers(0, 2 ** l - 1)), 0.5] for _ in range(draw(st.integers(1, 2)))]
            trees.append(t)
        # the points of an incomplete next level must stay affordable as well
        case.update(trees=trees, max_level=min(11, max(levels) + 1) if family == "lagrange" or max(levels) + 1 <= cap
                    else max(levels))
    return case


def polynomials_fixed():
    """degree x finest level at and next to the regime switch level, local and global, 1D and one 2D case each"""
    res = []
    for fam, p, levels in (("bspline", 3, (1, 2, 3)), ("bspline", 5, (2, 3)), ("bspline", 7, (2, 3, 4)),
                           ("bspline", 9, (3, 4)), ("bspline", 11, (3,)), ("bspline", 13, (3,)), ("bspline", 17, (3,)),
                           ("lagrange", 4, (2, 3, 4)), ("lagrange", 6, (4, 5))):
        for L in levels:
            res.append(dict(kind="local", family=fam, p=p, mode="boundary", a=[-1.0], len=[3.0], paths=[[1]], lv=[L],
                            rng=L, highp=True))
            res.append(dict(kind="global", family=fam, p=p, mode="boundary", a=[0.25], len=[2.0],
                            trees=[complete_splits(L)], max_level=L, rng=L + 1, highp=True))
        L = levels[0]
        res.append(dict(kind="local", family=fam, p=p, mode="boundary", a=[0.0, 2.0], len=[1.0, 0.5], paths=[[], [0]],
                        lv=[1, L], rng=7, highp=True))
        res.append(dict(kind="global", family=fam, p=p, mode="boundary", a=[0.0, 2.0], len=[1.0, 0.5],
                        trees=[complete_splits(L), complete_splits(2)], max_level=max(L, 2), rng=8, highp=True))
    return res


def polynomials_strategy(tier):
    return st.one_of(_local_case(tier, poly=True), _global_case(tier, poly=True), _global_case(tier, poly=True),
                     _highp_case(tier), _highp_case(tier))


def interpolate_grid_strategy(tier):
    @st.composite
    def s(draw):
        case = draw(st.one_of(_local_case(tier, maxdim=2), _global_case(tier, maxdim=2)))
        case.pop("seq", None)
        if case["kind"] == "local":
            case["lv"] = [min(l, 3) for l in case["lv"]]
        else:
            case["trees"] = [t[:8] for t in case["trees"]]
        return case
    return s()


def interleaved_strategy(tier):
    @st.composite
    def s(draw):
        nobj = draw(st.sampled_from([2, 2, 3]))
        dim = draw(st.sampled_from([1, 1, 2]))
        kind = draw(st.sampled_from(["global", "global", "global", "local"]))
        same = draw(st.integers(0, 3)) > 0                  # several objects use the same level vector (key)
        objs = []
        for i in range(nobj):
            if kind == "global":
                c = draw(_global_case(tier, dim=dim))
                c["trees"] = [t[:(10 if dim == 1 else 6)] for t in c["trees"]]
            else:
                c = draw(_local_case(tier, dim=dim))
                c["lv"] = [min(l, 3) for l in c["lv"]]
            c.pop("seq", None)
            c["vtype"] = "float"
            objs.append(c)
        if same:
            label = [draw(st.integers(1, 5)) for _ in range(dim)]
            share = [True] + [draw(st.integers(0, 3)) > 0 for _ in range(nobj - 1)]
            if not any(share[1:]):
                share[1] = True
            for i, c in enumerate(objs):
                if not share[i]:
                    continue
                if kind == "global":
                    c["lv_label"] = label
                else:
                    # the key of a local grid is (start, end, level vector): same domain, same area, same levels
                    lmin = 0 if (c["mode"] == "boundary" and objs[0]["mode"] == "boundary") else 1
                    c["a"], c["len"] = objs[0]["a"], objs[0]["len"]
                    c["paths"] = objs[0]["paths"] if (c["mode"] == "boundary" and objs[0]["mode"] == "boundary") else [[] for _ in range(dim)]
                    c["lv"] = [max(lmin, l) for l in objs[0]["lv"]]
            if kind == "local":
                for c in objs:                               # boundary-off objects live on the whole domain only
                    if share[objs.index(c)] and any(o["mode"] != "boundary" for o, sh in zip(objs, share) if sh):
                        c["paths"] = [[] for _ in range(dim)]
                        c["lv"] = [max(1, l) for l in objs[0]["lv"]]
        programs = []
        for i in range(nobj):
            reads = ["interpolate", "interpolate", "surplusses", "interpolate_grid"]
            prog = ["integrate"] + [draw(st.sampled_from(reads)) for _ in range(draw(st.integers(1, 2)))]
            if draw(st.integers(0, 3)) == 0:
                prog += ["integrate", draw(st.sampled_from(reads))]
            programs.append(prog)
        rest = [i for i in range(nobj) for _ in programs[i][1:]]
        if draw(st.booleans()):
            seq = list(range(nobj)) + list(draw(st.permutations(rest)))            # all first integrates, then the rest
        else:
            seq = list(draw(st.permutations(list(range(nobj)) + rest)))
        nxt = [0] * nobj
        order = []
        for i in seq:
            order.append([i, programs[i][nxt[i]]])
            nxt[i] += 1
        return dict(objs=objs, order=order, rng=draw(st.integers(0, 2 ** 31 - 1)))
    return s()


def interleaved_fixed():
    """two / three global grids on the same level vector, read after the other one integrated"""
    def g(fam, p, mode, trees, out):
        return dict(kind="global", family=fam, p=p, mode=mode, a=[0.0] * len(trees), len=[1.0] * len(trees), trees=trees,
                    max_level=11, out=out, vscale=1.0, vtype="float", lv_label=[2] * len(trees), rng=1)
    t5, t4 = complete_splits(2), [[0, 0.5], [0, 0.5]]
    res = [dict(objs=[g("lagrange", 2, "boundary", [t5], 1), g("bspline", 3, "boundary", [t5], 1)],
                order=[[0, "integrate"], [1, "integrate"], [0, "interpolate"], [1, "interpolate"], [0, "surplusses"]], rng=1),
           dict(objs=[g("bspline", 3, "modified", [t5, t4], 2), g("bspline", 1, "boundary", [t5, t4], 2),
                      g("lagrange", 3, "noboundary", [t4, t5], 1)],
                order=[[0, "integrate"], [1, "integrate"], [2, "integrate"], [0, "interpolate_grid"], [1, "interpolate"],
                       [2, "surplusses"], [0, "interpolate"]], rng=2)]
    return res


_INC = [1.0, 0.5, 0.25, 0.125, 0.3, 0.7, 0.1, 2.0, 0.6180339887498949, 0.05]


def basis_strategy(tier):
    @st.composite
    def s(draw):
        kind = draw(st.sampled_from(["lagrange", "lagrange_restricted", "lagrange_restricted_modified", "bspline",
                                     "bspline", "nak", "nak", "nak_modified", "nak_modified"]))
        case = dict(kind=kind, rng=draw(st.integers(0, 2 ** 31 - 1)))
        u = sorted([draw(st.floats(0.0, 1.0, allow_nan=False)), draw(st.floats(0.0, 1.0, allow_nan=False))])
        if u[1] - u[0] < 1e-3:
            u = [0.0, 1.0]
        if kind in ("lagrange", "lagrange_restricted", "bspline", "lagrange_restricted_modified"):
            uniform = draw(st.booleans())
            unit = draw(st.sampled_from([1.0, 0.25, 3.0, 0.1]))
            if kind == "bspline":
                p = draw(st.sampled_from([1, 3, 5, 1, 3, 5, 2, 4, 7]))
                n = p + 2 + draw(st.integers(0, 4))
            elif kind == "lagrange_restricted_modified":
                n = draw(st.integers(3, 8))
                p = n - 1
            else:
                n = draw(st.integers(2, 8))
                p = n - 1 + draw(st.integers(0, 2))
            if uniform:
                incs = [unit] * (n - 1)
            else:
                incs = [unit * draw(st.sampled_from(_INC)) for _ in range(n - 1)]
            case.update(p=p, x0=draw(st.sampled_from(_A)), incs=incs)
            if kind == "bspline":
                case["index"] = draw(st.integers(0, n - p - 2))
                lo = draw(st.floats(-0.2, 1.0, allow_nan=False))
                case.update(ia=lo, ib=lo + draw(st.floats(0.01, 1.2, allow_nan=False)))
            elif kind == "lagrange_restricted_modified":
                case["index"] = draw(st.integers(1, n - 2))
                # level 1 <=> the only interior knot (then the function is the constant 1); deeper levels have >= 2
                case["level"] = 1 if n == 3 else draw(st.sampled_from([2, 3, n - 2]))
                case.update(ia=0.0, ib=1.0)
            else:
                case["index"] = draw(st.integers(0, n - 1))
                case.update(ia=u[0], ib=u[1])
            return case
        p = draw(st.sampled_from([1, 3, 5, 3, 5, 7]))
        level = draw(st.integers(1 if kind == "nak_modified" else 0, 5 if p < 7 else 4))
        if level == 0:
            index = draw(st.integers(0, 1))
        else:
            border = draw(st.integers(0, 2)) == 0
            index = draw(st.sampled_from([1, 2 ** level - 1])) if border else 2 * draw(st.integers(0, 2 ** (level - 1) - 1)) + 1
        a, ln = draw(_domain(1))
        case.update(p=p, level=level, index=index, a=a[0], len=ln[0], weighted=draw(st.integers(0, 3)) == 0,
                    wrng=draw(st.integers(0, 2 ** 31 - 1)))
        whole = draw(st.booleans())
        case.update(ia=0.0 if whole else u[0], ib=1.0 if whole else u[1])
        return case
    return s()


def roundtrip_fixed():
    """the configurations of the repository's own tests plus the solver-branch sizes 14/15 points"""
    res = []
    for fam, p in (("lagrange", 1), ("bspline", 1), ("lagrange", 3), ("bspline", 3)):
        res.append(dict(kind="global", family=fam, p=p, mode="boundary", a=[-3.0, -3.0], len=[9.0, 9.0],
                        trees=[complete_splits(2), complete_splits(3)], out=1, vscale=1.0, rng=1))
        # 12 / 13 splits with boundary = 14 / 15 points (last dense solve / first QR); 14 / 15 interior points without
        for mode, k in (("boundary", 12), ("boundary", 13), ("noboundary", 14), ("noboundary", 15)):
            res.append(dict(kind="global", family=fam, p=p, mode=mode, a=[0.0], len=[1.0],
                            trees=[complete_splits(3) + [[i, 0.5] for i in range(k - 7)]], out=2, vscale=1.0, rng=2))
    # one grid object, several rounds: same points with another level labelling, refined, back (dense and QR sizes)
    for fam, p in (("lagrange", 2), ("lagrange", 3), ("bspline", 3)):
        for depth in (2, 4):
            res.append(dict(kind="global", family=fam, p=p, mode="boundary", a=[0.0], len=[1.0],
                            trees=[complete_splits(depth) + [[0, 0.5], [0, 0.5]]], max_level=11, out=2, vscale=1.0, rng=3,
                            seq=[dict(kind="relabel", rng=1), dict(kind="back")]))
        res.append(dict(kind="global", family=fam, p=p, mode="noboundary", a=[-1.0, 2.0], len=[3.0, 0.5],
                        trees=[complete_splits(2) + [[1, 0.5]], [[0, 0.5], [0, 0.5], [0, 0.5], [3, 0.5]]], max_level=11,
                        out=1, vscale=1.0, rng=4,
                        seq=[dict(kind="refine", splits=[[[2, 0.5]], [[1, 0.5], [5, 0.5]]]), dict(kind="relabel", rng=2),
                             dict(kind="back")]))
    # vector-valued function with one component of magnitude 1e-10 / 1e-12 next to O(1) components
    for fam, p, cs in (("lagrange", 2, [1.0, 1e-10, 1.0]), ("bspline", 3, [1e-12, 1.0]), ("lagrange", 3, [1e-9])):
        res.append(dict(kind="global", family=fam, p=p, mode="boundary", a=[0.0, -1.0], len=[1.0, 3.0],
                        trees=[complete_splits(2) + [[1, 0.5]], [[0, 0.5], [0, 0.5], [2, 0.5]]], max_level=11,
                        out=len(cs), vscale=1.0, vtype="float", cscale=cs, rng=30))
        res.append(dict(kind="global", family=fam, p=p, mode="noboundary", a=[2.0], len=[0.5],
                        trees=[complete_splits(4)], max_level=11, out=len(cs), vscale=1.0, vtype="float", cscale=cs, rng=31))
    # function values of other types than float (user-defined Function subclass), one case per type
    for k, vt in enumerate(VALUE_TYPES[1:]):
        res.append(dict(kind="global", family=("lagrange", "bspline")[k % 2], p=3, mode="boundary", a=[0.0, -1.0],
                        len=[1.0, 3.0], trees=[complete_splits(2), [[0, 0.5], [0, 0.3], [2, 0.5]]], max_level=11,
                        out=1 + k % 3, vscale=1.0, vtype=vt, rng=10 + k))
    return res


def local_fixed():
    res = []
    for fam, p in (("lagrange", 2), ("lagrange", 3), ("bspline", 3), ("bspline", 1)):
        res.append(dict(kind="local", family=fam, p=p, mode="boundary", a=[-1.0, 0.0], len=[3.0, 1.0],
                        paths=[[], [1, 0]], lv=[2, 3], out=2, vscale=1.0, rng=2))
    res.append(dict(kind="local", family="bspline", p=3, mode="noboundary", a=[0.0, 0.0], len=[1.0, 1.0],
                    paths=[[], []], lv=[4, 2], out=3, vscale=1.0, rng=3))
    for fam, p, cs in (("lagrange", 2, [1.0, 1e-10, 1.0]), ("bspline", 3, [1e-12, 1.0]), ("bspline", 5, [1e-9])):
        res.append(dict(kind="local", family=fam, p=p, mode="boundary", a=[-1.0, 0.0], len=[3.0, 1.0], paths=[[0], []],
                        lv=[3, 2], out=len(cs), vscale=1.0, vtype="float", cscale=cs, rng=32))
        res.append(dict(kind="local", family=fam, p=p, mode="boundary", a=[0.0], len=[1.0], paths=[[]],
                        lv=[4], out=len(cs), vscale=1.0, vtype="float", cscale=cs, rng=33))
    for k, vt in enumerate(VALUE_TYPES[1:]):
        res.append(dict(kind="local", family=("bspline", "lagrange")[k % 2], p=3 - k % 2, mode="boundary", a=[-1.0, 0.0],
                        len=[3.0, 1.0], paths=[[1], []], lv=[2, 1], out=1 + (k + 1) % 3, vscale=1.0, vtype=vt, rng=20 + k))
    return res


# ----------------------------------------------------------------------------------------------------------------
# oracle self test
# ----------------------------------------------------------------------------------------------------------------
def selftest():
    import numpy as np
    # reference quadrature and stencils on closed forms
    assert abs(ref_quad(lambda x: x ** 3, [0.3, 0.7], 0.0, 1.0) - 0.25) < 1e-15
    assert abs(ref_quad(lambda x: abs(x - 0.5), [0.5], 0.0, 1.0) - 0.25) < 1e-15
    q, qa, tv = ref_quad_cond(lambda x: x ** 3 - 0.125, [0.5], 0.0, 1.0)       # integral 0.125, |f|: 3/32+7/32-... , TV 1
    assert abs(q - 0.125) < 1e-15 and abs(tv - 1.0) < 1e-12 and abs(qa - (0.125 * 0.5 - 1 / 64.0 + 15 / 64.0 - 0.0625)) < 1e-15
    # well separated knots: the tolerance is 1e-10 * scale; knots 1e-9 apart at x = 2/3 with values of 1e6: ~1e-7 * integral
    assert integral_tolerance(1.0, 2.0, 1.0) < 1.1e-10 and 1e-8 < integral_tolerance(1.3e-3, 4e6, 0.667) < 1e-7
    assert abs(diff1(lambda x: x ** 4, 0.5, 1e-3) - 0.5) < 1e-10 and abs(diff2(lambda x: x ** 4, 0.5, 1e-3) - 3.0) < 1e-8
    assert abs(diff1(math.sin, 0.3, 1e-3) - math.cos(0.3)) < 1e-12
    # tree builder
    pts, lev = build_tree(0.0, 1.0, [[0, 0.5], [0, 0.5], [2, 0.5]])
    assert pts == [0.0, 0.25, 0.5, 0.75, 1.0] and lev == [0, 2, 1, 2, 0] and complete_depth(lev) == 2
    assert sub_interval(0.0, 1.0, [0, 1]) == (0.25, 0.5)
    # tensor helpers: hat basis on [0,.5,1] -> surpluses of (1,2,1) are (1,1,1); 2D Kronecker
    M = np.array([[1.0, 0.0, 0.0], [0.5, 1.0, 0.5], [0.0, 0.0, 1.0]])
    V = np.array([[1.0, 2.0, 1.0]])
    S = tensor_apply([np.linalg.inv(M)], V)
    assert np.allclose(S, [[1.0, 1.0, 1.0]], atol=1e-15)
    V2 = np.arange(9.0).reshape(1, 3, 3)
    S2 = tensor_apply([np.linalg.inv(M), np.linalg.inv(M)], V2)
    back = tensor_apply([M, M], S2)
    assert np.allclose(back, V2, atol=1e-13)
    E = [M, M]
    ev = tensor_eval(S2, [M[[1, 2]], M[[0, 1]]])          # points (x1,y0), (x2,y1)
    assert np.allclose(ev[:, 0], [V2[0, 1, 0], V2[0, 2, 1]], atol=1e-13)
    # not-a-knot knot vector, p=3, level 2 on [0,1]: -3h..0, (skip 1/4), 1/2, (skip 3/4), 1..1+3h
    kn = nak_knots(0.0, 1.0, 2, 3, nak_level_coordinates(0.0, 1.0, 2, None))
    assert np.allclose(kn, [-0.75, -0.5, -0.25, 0.0, 0.5, 1.0, 1.25, 1.5, 1.75]), kn
    # the oracles reject corrupted objects (nothing of the library is involved)
    o = Outcome()
    compare_nodal(o, "t/nodal", np.array([[1.0, 2.0 + 1e-6]]), np.array([[1.0, 2.0]]), tol_cond(10.0), 2.0, "corrupted")
    assert o.violations, "perturbed nodal value not rejected"
    o = Outcome()
    compare_nodal(o, "t/nodal", np.array([[1.0, 2.0 + 1e-12]]), np.array([[1.0, 2.0]]), tol_cond(10.0), 2.0, "rounding")
    assert not o.violations

    class Sine(object):                         # analytic stand-in for a basis object
        def __init__(self, c1=1.0, c0=0.0):
            self.c1, self.c0 = c1, c0

        def __call__(self, x):
            return math.sin(x)

        def get_first_derivative(self, x):
            return self.c1 * math.cos(x)

        def get_second_derivative(self, x):
            return -math.sin(x)

        def get_integral(self, a, b, c, w):
            return math.cos(a) - math.cos(b) + self.c0

    info = dict(knots=[0.0, 1.0, 2.0, 3.0], lo=0.0, hi=3.0, ia=0.0, ib=3.0, ra=0.0, rb=3.0)
    o = Outcome()
    check_basis_object(o, "t", "sine", Sine(), dict(info), 3, np.random.default_rng(0))
    assert not o.violations, o.violations
    o = Outcome()
    check_basis_object(o, "t", "sine", Sine(1.01, 1e-6), dict(info), 3, np.random.default_rng(0))
    sigs = [s for s, _ in o.violations]
    assert "t/derivative1/sine" in sigs and "t/integral/sine" in sigs and "t/derivative2/sine" not in sigs, sigs
    # closed forms through the library.  A library exception or a violation here is NOT a self-test failure (the run
    # reports it as a violation of the property); only a wrong verdict of the oracle on a correct library would be.
    _selftest_library()


def _selftest_library():
    import numpy as np
    from vlib.core import classify_exception
    try:
        from sparseSpACE.Function import FunctionCustom
        # GlobalLagrangeGrid p=1 on [0,.5,1] = hat basis -> surpluses v0, v1-(v0+v2)/2, v2
        case = dict(kind="global", family="lagrange", p=1, mode="boundary", a=[0.0], len=[1.0], trees=[[[0, 0.5]]],
                    out=1, vscale=1.0, rng=5)
        cx = _Ctx(case)
        cx.setup()
        cx.integrate(FunctionCustom(_Table({(0.0,): [1.0], (0.5,): [2.0], (1.0,): [1.0]}), output_dim=1))
        lib_ok = (np.allclose(cx.surplusses(), [[1.0, 1.0, 1.0]], atol=1e-15)
                  and np.allclose(cx.interpolate([(0.0,), (0.25,), (0.5,), (1.0,)]), [[1.0], [1.5], [2.0], [1.0]], atol=1e-15)
                  and np.allclose(cx.weights(0), [0.5, 0.5, 0.5], atol=1e-15))
        runs = []
        for c, run in ((case, run_roundtrip_global), (local_fixed()[0], run_roundtrip_local),
                       (dict(kind="local", family="lagrange", p=2, mode="boundary", a=[-1.0], len=[3.0], paths=[[1]],
                             lv=[1], rng=1), run_polynomials),
                       (dict(kind="bspline", p=3, x0=0.0, incs=[1.0] * 5, index=0, ia=0.0, ib=1.0, rng=1), run_basis),
                       (dict(kind="lagrange_restricted", p=2, x0=0.0, incs=[0.5, 0.5], index=1, ia=0.0, ib=1.0, rng=1),
                        run_basis)):
            runs.append(run(c))
        # a grid that hierarchised another table is rejected by the round-trip comparison
        cx2 = _Ctx(case)
        cx2.setup()
        cx2.integrate(FunctionCustom(_Table({(0.0,): [1.0], (0.5,): [2.5], (1.0,): [1.0]}), output_dim=1))
        o = Outcome()
        compare_nodal(o, "t/nodal", cx2.interpolate([(0.0,), (0.5,), (1.0,)]), np.array([[1.0], [2.0], [1.0]]),
                      tol_cond(2.0), 2.0, "x")
        assert o.violations, "round trip of a different table not rejected"
    except Exception as e:  # noqa - classified: only harness exceptions (incl. the asserts above) fail the self test
        if classify_exception(e)[0] == "lib":
            return
        raise
    if lib_ok:
        # the library gets the hat-basis closed form right (surpluses, interpolant, basis integrals): the round-trip
        # check must accept exactly this case
        assert not runs[0].violations, runs[0].violations


SUBS = [
    Sub("roundtrip_local", roundtrip_local_strategy, run_roundtrip_local, dict(quick=1600, thorough=20000),
        budget_s=dict(quick=8, thorough=110), fixed_cases=local_fixed, case_timeout=60),
    Sub("roundtrip_global", roundtrip_global_strategy, run_roundtrip_global, dict(quick=2400, thorough=30000),
        budget_s=dict(quick=9, thorough=130), fixed_cases=roundtrip_fixed, case_timeout=60),
    Sub("polynomials", polynomials_strategy, run_polynomials, dict(quick=2400, thorough=30000),
        budget_s=dict(quick=8, thorough=110), fixed_cases=polynomials_fixed, case_timeout=60),
    Sub("interpolate_grid", interpolate_grid_strategy, run_interpolate_grid, dict(quick=320, thorough=3200),
        budget_s=dict(quick=5, thorough=30), case_timeout=60),
    Sub("interleaved", interleaved_strategy, run_interleaved, dict(quick=800, thorough=8000),
        budget_s=dict(quick=6, thorough=50), fixed_cases=interleaved_fixed, case_timeout=60),
    Sub("basis", basis_strategy, run_basis, dict(quick=6400, thorough=80000),
        budget_s=dict(quick=6, thorough=80), case_timeout=60),
]
