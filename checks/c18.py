"""C18 — DataSet transformations preserve the labelled samples.

Model based operation-history check.  A case is a list of operations over a *pool* of DataSets.  The harness keeps,
for every live DataSet, a model entry (expected current coordinates, the coordinates revert_scaling() must restore,
the labels, and the scaling bookkeeping).  After EVERY operation EVERY live DataSet is compared with its model
entry, so aliasing between parents, copies and pieces shows up on the by-standing DataSet.

The model never reads the order of the samples: all comparisons are multiset matchings of (sample, label) rows.
"""
import contextlib
import io

from hypothesis import strategies as st

from vlib.core import Outcome, Sub, classify_exception

PROPERTY = "C18"
SUBN = "history"

RULE = ("history: a first 'create' followed by up to 14 (quick) / 26 (thorough) operations over a pool of DataSets, "
        "each drawn from {create (0..12 samples, d 1..3, lattice coordinates with ties in the extremes, duplicates, "
        "single sample, empty, labels 0..3 and -1, unlabelled-only constructor; the arrays are handed to the constructor in a drawn "
        "FORM: sample dtype float64 (1/2) / int64 / int32 / int16 (whole-number lattices with steps 1 and 3) / float32, memory layout C / "
        "Fortran / every other column / every other row of a larger buffer / negative strides, shape (n,d) / (n,) for d=1 / (n,d,1) / "
        "(n,1,d), labels int64 / int32 / float64 / a strided int64 view), scale_range(override T/F; range tuple of Python floats / "
        "Python ints / numpy.float64), scale_factor(scalar/vector, negative allowed, override T/F), shift_value(scalar/vector, "
        "override T/F) (scalar argument as Python float / Python int / numpy.int64 (whole numbers only) / numpy.float64, vector "
        "argument as float64 / int64 (whole numbers only) / strided float64 ndarray), "
        "revert_scaling, shuffle, move_boundaries_to_front, split_labels, split_pieces(p incl. 0, 1, out of range), "
        "split_without_labels, remove_samples (distinct in-range indices / one out-of-range index among them; list of Python ints or "
        "of numpy.int64), "
        "concatenate (any two pool members incl. itself), list_concatenate (1..5 members in drawn order: pool members, "
        "preferably-empty pool members, fresh empty sets built by DataSet(empty array) / DataSet((empty, empty)) / "
        "list_concatenate([]), at any position, repeats allowed; modelled as the pairwise fold of the concatenate model), "
        "copy, remove_labels}; operands are pool members chosen by a drawn index "
        "(3 of 4 draws skip empty members; revert prefers scaled members; -1/-2 address the newest members). "
        "scale_range carries a flag 'repeat the range last applied to this set or its parent' (drawn 1/2) and is followed in 4 of 7 "
        "draws by remove_samples of rows holding a per-dimension extreme / split_pieces / split_labels and a non-overriding "
        "scale_range to the same range on the remainder / a piece (these follow-ups may exceed the operation count by 2 each). "
        "After every operation every live DataSet is matched against its model entry. Non-trivial = at least one "
        "revert_scaling was executed on a non-empty scaled DataSet whose lineage, while scaled, went through a "
        "sample-moving operation (shuffle / move_boundaries_to_front / split_* / remove_samples / concatenate / "
        "remove_labels). Distinct = distinct case dict.")

ASSUMPTIONS = [
    "samples and labels are handed in as numpy arrays (DataSet._initialize: a list in their place is refused with ValueError / "
    "fails on .ndim, so lists of lists are not part of the domain). Nothing in the constructor, its documentation or its callers "
    "restricts dtype, memory layout or shape: it computes d = size/len and reshapes, so (n,), (n,d) and (n,a,b) arrays are all "
    "accepted. Generated: float64, float32, int64, int32, int16 samples (an integer table holds whole numbers), labels >= -1 as "
    "int64, int32, float64 holding whole numbers (GridOperation hands float label arrays to DataSetRegression) or a strided view. NOT generated: unsigned integer "
    "samples (numpy itself refuses uint8_array * -2 with a Python int), float16, numpy.float32 scalar arguments (1/f is then rounded "
    "to float32: a revert error of 5e-7 that is the caller's choice of precision), list-valued factors/shifts (documented as float "
    "or ndarray; TypeError)",
    "the constructor keeps the caller's arrays (no copy) and move_boundaries_to_front swaps rows IN them: every DataSet gets a "
    "private, writable buffer from the harness; arrays shared between two constructor calls and read-only arrays are outside the "
    "statement (observations in notes/findings/C18_mbf_swaps_in_the_callers_arrays.py)",
    "the model is float64 arithmetic on the values AS STORED in the array handed in (a float32 table is read back to float64 "
    "first). For a lineage created from float32 samples 'up to rounding' means float32 rounding: every tolerance and the "
    "ill-conditioning threshold below is multiplied by PREC_F4 = 1e5 (tolerance 1e-4*max(1,|coordinates|) = 840 eps(float32)); "
    "integer samples are compared with the float64 tolerances (the unchanged library promotes them to float64 on the first "
    "non-integral scaling)",
    "scale_range ranges satisfy lo < hi and are passed as tuples (scikit-learn's MinMaxScaler requires both)",
    "a constant dimension is mapped onto the lower range end by scale_range (MinMaxScaler convention)",
    "scale_range is not applied to a set in which some dimension has a non-zero extent below 1e-6*max(1,|coordinates|), in "
    "the model or in the object (values that differ only by rounding, e.g. 1.2 vs (1.2+1)-1 joined by concatenate)",
    "scaling factors are non-zero (negative allowed, as in the repository's own test); vector factors/shifts have length d; "
    "a factor/shift that would push |coordinates| above 1e4 or the accumulated |factor| outside [1e-3, 1e3] is not applied",
    "remove_samples index lists have no duplicates; ValueError and IndexError both count as rejection (DESIGN 3.7)",
    "operations on an empty DataSet and revert_scaling on an unscaled DataSet may raise; they must not modify anything",
    "the order of samples is not part of the statement: only the multiset of (sample, label) rows is compared",
    "the value of get_scaling_range() after scale_factor/shift_value is not specified anywhere; it is only required "
    "to be carried unchanged to derived sets. After scale_range it must be the requested range",
    "scaling attributes of an *empty* derived DataSet (e.g. remove_samples([]) of a scaled set) are adopted, not checked",
    "'different scalings' for concatenate = different scaled flag, range, factor or original min/max (tolerance 1e-9 relative); "
    "if the attributes agree within tolerance but not bit-for-bit either outcome is accepted",
    "tolerances: current coordinates 1e-9*max(1, largest |coordinate| in the lineage); after revert additionally "
    "*max(1, 1/min|factor|); rounding observed on the unchanged tree is < 1e-13 relative",
]

MAX_POOL = 12
MAX_VIOL = 6
MOVING = ("shuffle", "mbf", "split_labels", "split_pieces", "split_without_labels", "remove_samples", "concatenate",
          "remove_labels")

# forms in which the constructor is handed its arrays (all ndarray forms it accepts; lists are refused by it)
SAMPLE_DTYPES = dict(f8="float64", f4="float32", i8="int64", i4="int32", i2="int16")
LABEL_FORMS = ("i8", "i4", "f8", "strided")
LAYOUTS = ("C", "F", "cols", "rows", "rev")
SHAPES = ("2d", "flat", "3d-last", "3d-mid")
DEFAULT_FORM = ["f8", "C", "2d", "i8"]
# float32 samples: "up to rounding" is rounding of the stored precision. eps(float32)/eps(float64) = 5.4e8; the float64
# tolerance 1e-9 is 4.5e6 eps(float64), the float32 tolerance 1e-9*PREC_F4 = 1e-4 is 840 eps(float32)
# (largest deviation seen on the unchanged tree: see max_revert_error_in_units_of_tolerance in the evidence)
PREC_F4 = 1e5


# ----------------------------------------------------------------------------------------------------------------
# model
# ----------------------------------------------------------------------------------------------------------------
class Model:
    __slots__ = ("cur", "orig", "lab", "scaled", "factor", "omin", "omax", "rng", "mag", "moved", "prec", "sd")

    def __init__(self, np, cur, lab, dim):
        self.cur = np.array(cur, dtype=float).reshape(len(lab), dim)
        self.orig = None            # coordinates revert_scaling must restore (None while unscaled)
        self.lab = np.array(lab, dtype=np.int64)
        self.scaled = False
        self.factor = None          # accumulated multiplicative factor since the first / last overriding scaling
        self.omin = None
        self.omax = None
        self.rng = None             # ("fixed", lo, hi) | ("value", snapshot of the observed range) | None
        self.mag = float(np.max(np.abs(self.cur))) if self.cur.size else 0.0
        self.moved = False          # a sample-moving operation happened in the lineage while scaled
        self.prec = 1.0             # rounding unit of the lineage relative to float64 (PREC_F4 once float32 samples were handed in)
        self.sd = "f8"              # dtype tag of the sample array the lineage was created from (class counters only)

    @property
    def n(self):
        return len(self.lab)

    def child(self, np, rows):
        c = Model(np, self.cur[rows], self.lab[rows], self.cur.shape[1])
        c.orig = None if self.orig is None else self.orig[rows].copy()
        c.scaled, c.factor, c.rng, c.mag, c.moved = self.scaled, _cp(np, self.factor), self.rng, self.mag, self.moved
        c.omin, c.omax = _cp(np, self.omin), _cp(np, self.omax)
        c.prec, c.sd = self.prec, self.sd
        return c

    def tol(self):
        return 1e-9 * self.prec * max(1.0, self.mag)


def _cp(np, a):
    return a.copy() if isinstance(a, np.ndarray) else a


def _fresh(np, a):
    """a private copy of an argument in the same form (a strided vector stays a strided view of a fresh buffer)"""
    if isinstance(a, np.ndarray) and not a.flags.c_contiguous:
        return np.repeat(a, 2)[::2]
    return _cp(np, a)


class Entry:
    def __init__(self, obj, m, eid, origin):
        self.obj, self.m, self.eid, self.origin = obj, m, eid, origin


class _Proxy:
    """stands for the DataSet of an intermediate result of the list_concatenate fold (never observed)"""
    def __init__(self, dim, rng, factor):
        self._dim, self._rng, self._factor = dim, rng, factor

    def get_dim(self):
        return self._dim

    def get_scaling_range(self):
        return self._rng

    def get_scaling_factor(self):
        return self._factor


class _Operand:
    def __init__(self, m, obj, entry, fresh=False, borderline=False):
        self.m, self.obj, self.entry, self.fresh, self.borderline = m, obj, entry, fresh, borderline

    @property
    def dim(self):
        return self.obj.get_dim()


def _silent():
    return contextlib.redirect_stdout(io.StringIO())


def obs_rows(np, obj):
    """(X as (n,d) array, y) of a DataSet; an empty DataSet gives (0,0)-shaped X."""
    X, y = obj.get_data()
    X = np.asarray(X)
    y = np.asarray(y)
    if X.size == 0:
        X = X.reshape(0, 0)
    elif X.ndim == 1:
        X = X.reshape(len(X), 1)
    return X, y


def match_rows(np, X, y, EX, Ey, tol, used=None, labels="equal"):
    """Greedy multiset matching of observed rows (X, y) to expected rows (EX, Ey).

    Returns (perm, unmatched): perm[i] = index of the expected row matched to observed row i or -1.
    labels: "equal" -> label must be equal; "ignore" -> coordinates only.
    Expected rows flagged in `used` are not available; used is updated in place.
    """
    n, m = len(y), len(Ey)
    if used is None:
        used = np.zeros(m, dtype=bool)
    perm = [-1] * n
    if n == 0 or m == 0:
        return perm, list(range(n))
    if X.shape[1] != EX.shape[1]:
        return perm, list(range(n))
    close = np.all(np.abs(X[:, None, :] - EX[None, :, :]) <= tol, axis=2)
    if labels == "equal":
        close &= (np.asarray(y)[:, None] == Ey[None, :])
    unmatched = []
    for i in range(n):
        cand = np.nonzero(close[i] & ~used)[0]
        if len(cand):
            perm[i] = int(cand[0])
            used[cand[0]] = True
        else:
            unmatched.append(i)
    return perm, unmatched


def diff_entry(np, X, y, EX, Ey, tol):
    """None if (X,y) and (EX,Ey) are the same multiset of rows, else (clause, message)."""
    if len(X) != len(y):
        return "size", "samples %d vs labels %d" % (len(X), len(y))
    if len(y) != len(Ey):
        return "size", "holds %d samples, expected %d" % (len(y), len(Ey))
    if len(y) == 0:
        return None
    if X.shape[1] != EX.shape[1]:
        return "size", "dimension %d, expected %d" % (X.shape[1], EX.shape[1])
    _, un = match_rows(np, X, y, EX, Ey, tol)
    if not un:
        return None
    _, un2 = match_rows(np, X, y, EX, Ey, tol, labels="ignore")
    if not un2:
        same_label_multiset = sorted(np.asarray(y).tolist()) == sorted(Ey.tolist())
        return ("labels-detached" if same_label_multiset else "labels-changed",
                "sample coordinates are as expected but %d rows carry another label; observed rows %s expected rows %s"
                % (len(un), _fmt(np, X, y), _fmt(np, EX, Ey)))
    return "samples", "%d rows have unexpected coordinates; observed rows %s expected rows %s" % (
        len(un2), _fmt(np, X, y), _fmt(np, EX, Ey))


def _fmt(np, X, y):
    rows = sorted([tuple(round(float(v), 6) for v in X[i]) + (int(y[i]),) for i in range(len(y))])
    return str(rows[:8]) + ("..." if len(rows) > 8 else "")


def _rng_values(np, r):
    """flatten a scaling range (tuple of floats or tuple of arrays) to a 1-D float array; None -> None"""
    if r is None:
        return None
    return np.concatenate([np.atleast_1d(np.asarray(r[0], dtype=float)), np.atleast_1d(np.asarray(r[1], dtype=float))])


def _vec_close(np, a, b, d, rtol, atol):
    a, b = np.asarray(a, dtype=float), np.asarray(b, dtype=float)
    try:
        a = np.broadcast_to(a, (d,))
        b = np.broadcast_to(b, (d,))
    except ValueError:
        if a.shape != b.shape:
            return False
    return bool(np.all(np.abs(a - b) <= atol + rtol * np.abs(b)))


def attr_diffs(np, obj, m):
    """list of (attribute, message) for scaling attributes that differ from the model"""
    res = []
    d = m.cur.shape[1]
    if bool(obj.is_scaled()) != m.scaled:
        res.append(("scaled-flag", "is_scaled()=%s expected %s" % (obj.is_scaled(), m.scaled)))
        return res
    if not m.scaled:
        for name, v in (("scaling_range", obj.get_scaling_range()), ("scaling_factor", obj.get_scaling_factor()),
                        ("original_min", obj.get_original_min()), ("original_max", obj.get_original_max())):
            if v is not None:
                res.append((name, "unscaled DataSet has %s=%s, expected None" % (name, v)))
        return res
    f = obj.get_scaling_factor()
    if f is None or not _vec_close(np, f, m.factor, d, 1e-9 * m.prec, 0.0):
        res.append(("scaling_factor", "get_scaling_factor()=%s expected %s" % (f, m.factor)))
    for name, v, e in (("original_min", obj.get_original_min(), m.omin), ("original_max", obj.get_original_max(), m.omax)):
        if e is None:
            continue
        if v is None or not _vec_close(np, v, e, d, 0.0, m.tol()):
            res.append((name, "%s=%s expected %s" % (name, v, e)))
    r = _rng_values(np, obj.get_scaling_range())
    if m.rng is not None:
        e = np.array([m.rng[1], m.rng[2]], dtype=float) if m.rng[0] == "fixed" else m.rng[1]
        if r is None or r.shape != e.shape or not bool(np.all(np.abs(r - e) <= m.tol())):
            res.append(("scaling_range", "get_scaling_range()=%s expected %s" % (obj.get_scaling_range(), e)))
    return res


# ----------------------------------------------------------------------------------------------------------------
# the interpreter
# ----------------------------------------------------------------------------------------------------------------
class Machine:
    def __init__(self, out):
        import numpy as np
        from sparseSpACE.DEMachineLearning import DataSet
        self.np, self.DataSet, self.out = np, DataSet, out
        self.pool = []
        self.next_id = 0
        self.nt = False
        self.steps = 0
        self.max_tol = 0.0
        self.factor_before = {}
        self.max_revert_err = 0.0     # largest |restored - expected| in units of the tolerance
        self.max_f4_err = 0.0         # the same for the current coordinates of float32 lineages (evidence for PREC_F4)

    # -- helpers --------------------------------------------------------------------------------------------------
    def bad(self, clause, msg):
        self.out.bad("%s/%s" % (SUBN, clause), "step %d: %s" % (self.steps, msg))

    def full(self):
        return len(self.out.violations) >= MAX_VIOL

    def live(self):
        seen, res = set(), []
        for e in self.pool:
            if id(e) not in seen:
                seen.add(id(e))
                res.append(e)
        return res

    def add(self, obj, m, origin):
        e = Entry(obj, m, self.next_id, origin)
        self.next_id += 1
        self.pool.append(e)
        while len(self.pool) > MAX_POOL:
            self.pool.pop(0)
        return e

    def quarantine(self, e):
        self.pool = [x for x in self.pool if x is not e]
        self.out.cls("quarantined-after-violation")

    def pick(self, k, prefer=None):
        """operand selection: slot k % 12 (mod pool size); unless k >= 36 the scan continues cyclically to the first
        non-empty entry (that also satisfies `prefer`), so that most operations act on sets where they do something"""
        if not self.pool:
            return None
        n = len(self.pool)
        if k < 0:                       # -1 / -2: the most recently added members (e.g. the pieces of the last split)
            return self.pool[max(k, -n)]
        slot = (k % 12) % n
        if k >= 48:                     # prefer an EMPTY member (emptied by remove_samples, empty split piece, ...)
            for j in range(n):
                if self.pool[(slot + j) % n].m.n == 0:
                    return self.pool[(slot + j) % n]
            return self.pool[slot]
        if k >= 36:
            return self.pool[slot]
        for pref in ((lambda e: e.m.n > 0 and prefer(e)) if prefer else None, lambda e: e.m.n > 0):
            if pref is None:
                continue
            for j in range(n):
                e = self.pool[(slot + j) % n]
                if pref(e):
                    return e
        return self.pool[slot]

    def call_may_raise(self, fn):
        """run fn; returns (result, exception-or-None). Only exceptions that pass through library code are caught."""
        try:
            with _silent():
                return fn(), None
        except Exception as exc:  # noqa - contract here is 'may raise'; harness errors are re-raised
            kind, frag, text = classify_exception(exc)
            if kind != "lib":
                raise
            return None, exc

    def bad_exc(self, exc, context):
        """a library exception where the contract is 'works': signature from the innermost library frame (root cause)"""
        kind, frag, text = classify_exception(exc)
        self.bad("exception/%s" % frag, "%s: %s: %s" % (context, type(exc).__name__, exc))

    def call_must_work(self, name, fn):
        """run fn; a library exception is a violation."""
        try:
            with _silent():
                return True, fn()
        except Exception as exc:  # noqa
            kind, frag, text = classify_exception(exc)
            if kind != "lib":
                raise
            self.bad_exc(exc, name)
            return False, None

    def snapshot(self, e):
        np = self.np
        X, y = obs_rows(np, e.obj)
        f = e.obj.get_scaling_factor()
        return (np.array(X, copy=True), np.array(y, copy=True), bool(e.obj.is_scaled()),
                _cp(np, _rng_values(np, e.obj.get_scaling_range())), None if f is None else np.array(f, dtype=float),
                _cp(np, e.obj.get_original_min()), _cp(np, e.obj.get_original_max()),
                np.array(np.asarray(e.obj.get_data()[0]).shape), np.array(np.asarray(e.obj.get_data()[1]).shape))

    def changed_since(self, e, snap):
        """None if nothing observable changed; 'shape' if only the shape of an (empty) array changed; else 'content'"""
        np = self.np
        now = self.snapshot(e)
        res = None
        for k, (a, b) in enumerate(zip(now, snap)):
            same = True
            if a is None or b is None:
                same = a is b
            elif isinstance(a, bool):
                same = a == b
            else:
                same = a.shape == b.shape and bool(np.array_equal(a, b))
            if not same:
                if k >= 7:
                    res = res or "shape"
                else:
                    return "content"
        return res

    def check_unmodified(self, e, snap, what, context):
        """clause: a rejected / failing / non-applicable call leaves the DataSet as it was. Returns True if it did."""
        ch = self.changed_since(e, snap)
        if ch is None:
            return True
        detail = ""
        if ch == "shape":
            detail = "; get_data() arrays had shapes %s, now %s" % ([tuple(int(v) for v in snap[7]), tuple(int(v) for v in snap[8])],
                                                                   [tuple(x.shape) for x in e.obj.get_data()])
        self.bad("noop/%s-modified-the-DataSet" % what, "DataSet #%d changed (%s)%s" % (e.eid, context, detail))
        self.quarantine(e)
        return False

    # -- the comparison run after every operation ---------------------------------------------------------------------
    def check_all(self, op, targets=(), products=()):
        np = self.np
        for e in self.live():
            role = "target" if any(e is t for t in targets) else ("product" if any(e is p for p in products) else "bystander")
            X, y = obs_rows(np, e.obj)
            m = e.m
            self.max_tol = max(self.max_tol, m.tol())
            d = diff_entry(np, X, y, m.cur, m.lab, m.tol())
            failed = False
            if d is not None:
                cause = "%s-of-%s" % (role, op)
                if role == "bystander" and d[0] in ("labels-detached", "labels-changed"):
                    # name the observable cause: the label array is shared with the DataSet that was operated on
                    lab = e.obj.get_data()[1]
                    if any(lab is t.obj.get_data()[1] for t in targets):
                        cause = "label-array-is-the-same-object-as-in-the-operated-DataSet"
                    elif any(np.shares_memory(lab, t.obj.get_data()[1]) for t in targets):
                        cause = "label-array-overlaps-memory-of-the-operated-DataSet"
                self.bad("data/%s/%s" % (d[0], cause), "DataSet #%d (%s) after %s: %s" % (e.eid, e.origin, op, d[1]))
                failed = True
            elif m.prec > 1.0 and m.n and role != "bystander":
                perm, _ = match_rows(np, X, y, m.cur, m.lab, m.tol())
                self.max_f4_err = max(self.max_f4_err, float(np.max(np.abs(X - m.cur[perm]))) / m.tol())
            if m.n == 0 and role == "product" and e.obj.is_empty():
                self.adopt_attrs(e)
            else:
                for name, msg in attr_diffs(np, e.obj, m):
                    cause = "%s-of-%s" % (role, op)
                    if name == "scaling_factor" and role == "bystander":
                        f = self.factor_before.get(id(e))
                        if isinstance(f, np.ndarray) and any(f is self.factor_before.get(id(t)) for t in targets if t is not e):
                            cause = "array-shared-with-the-operated-DataSet"
                    self.bad("attrs/%s/%s" % (name, cause), "DataSet #%d (%s): %s" % (e.eid, e.origin, msg))
                    failed = True
            if failed:
                self.quarantine(e)
            if self.full():
                return

    def adopt_attrs(self, e):
        """empty derived set: its scaling attributes are not checked, the model adopts what the library reports"""
        np = self.np
        m, o = e.m, e.obj
        m.scaled = bool(o.is_scaled())
        m.factor = _cp(np, o.get_scaling_factor()) if m.scaled else None
        m.omin = _cp(np, o.get_original_min()) if m.scaled else None
        m.omax = _cp(np, o.get_original_max()) if m.scaled else None
        r = _rng_values(np, o.get_scaling_range())
        m.rng = ("value", r) if (m.scaled and r is not None) else None
        m.orig = m.cur.copy() if m.scaled else None
        if not m.scaled:
            m.moved = False
        self.out.cls("empty-derived-attrs-adopted")

    def mark_moved(self, *entries):
        for e in entries:
            if e.m.scaled:
                e.m.moved = True

    # -- operations -----------------------------------------------------------------------------------------------
    def materialise(self, X, labels, form, labelled=True):
        """The arrays handed to the constructor for the (n,d) float64 table X and the label list, in the drawn form
        [sample dtype, memory layout, shape, label form].  Returns (sample array, label array, the table as float64 AS STORED
        in the sample array).  Every array is a private buffer of the harness (the constructor keeps the caller's buffer)."""
        np = self.np
        sd, layout, shape, lf = form
        n, d = X.shape
        dt = np.dtype(SAMPLE_DTYPES[sd])
        Xt = X.astype(dt)
        if dt.kind == "i" and not np.array_equal(Xt.astype(np.float64), X):
            raise ValueError("case asks for an integer sample array but its coordinates are not whole numbers")
        filler = 99                                  # what surrounds the samples in the base buffer of a strided view
        if layout == "F":
            A = np.asfortranarray(Xt)
        elif layout == "cols":                       # every other column of a wider table
            W = np.full((n, 2 * d), filler, dtype=dt)
            W[:, ::2] = Xt
            A = W[:, ::2]
        elif layout == "rows":                       # every other row of a longer table
            W = np.full((2 * n, d), filler, dtype=dt)
            W[::2] = Xt
            A = W[::2]
        elif layout == "rev":                        # negative strides along both axes
            A = np.ascontiguousarray(Xt[::-1, ::-1])[::-1, ::-1]
        else:
            A = np.ascontiguousarray(Xt)
        if shape == "flat" and d == 1:               # d = 1 handed in as a vector of n numbers
            A = A[:, 0]
        elif shape == "3d-last":                     # each sample an array of shape (d, 1) / (1, d): the constructor flattens it
            A = A[:, :, None]
        elif shape == "3d-mid":
            A = A[:, None, :]
        else:
            shape = "2d"
        assert np.array_equal(np.asarray(A, dtype=np.float64).reshape(n, d), Xt.astype(np.float64))
        lab = np.array(labels, dtype=np.int64)
        if lf == "strided":
            W = np.full(2 * n, 7, dtype=np.int64)
            W[::2] = lab
            y = W[::2]
        else:
            y = lab.astype(dict(i8=np.int64, i4=np.int32, f8=np.float64)[lf])
        self.out.cls("create-samples:%s" % sd)
        if layout != "C":
            self.out.cls("create-layout:%s" % layout)
        if shape != "2d":
            self.out.cls("create-shape:%s" % shape)
        if lf != "i8" and labelled:
            self.out.cls("create-labels:%s" % lf)
        return A, y, Xt.astype(np.float64)

    def op_create(self, op):
        np = self.np
        _, mode, d, rows, labels = op[:5]
        form = list(op[5]) if len(op) > 5 else DEFAULT_FORM
        n = len(rows)
        if mode == "empty" or n == 0:
            obj = self.DataSet((np.array([]), np.array([])), print_level=100, log_level=100)
            m = Model(np, np.zeros((0, 0)), [], 0)
            self.out.cls("create-empty")
        else:
            X = np.array(rows, dtype=np.float64).reshape(n, d)
            A, y, X = self.materialise(X, labels, form, labelled=(mode != "unlabelled"))
            if mode == "unlabelled":
                obj = self.DataSet(A, print_level=100, log_level=100)
                labels = [-1] * n
            else:
                obj = self.DataSet((A, y), print_level=100, log_level=100)
            m = Model(np, X, labels, d)
            m.sd = form[0]
            if form[0] == "f4":
                m.prec = PREC_F4
            if n == 1:
                self.out.cls("create-single-sample")
            if -1 in labels:
                self.out.cls("create-with-unlabelled")
            if n > 1 and any(np.sum(X[:, k] == X[:, k].min()) > 1 or np.sum(X[:, k] == X[:, k].max()) > 1 for k in range(d)):
                self.out.cls("create-ties-in-extremes")
        e = self.add(obj, m, "create")
        self.check_all("create", products=[e])

    def _scale_common(self, e, name, call, new_cur, first_factor, step_factor, override, fixed_rng=None):
        """shared bookkeeping of the three scaling operations on a non-empty set"""
        np = self.np
        m = e.m
        kind = np.asarray(e.obj.get_data()[0]).dtype
        if kind.kind in "iu":
            self.out.cls("%s-on-integer-typed-samples" % name)
            if not m.scaled:
                self.out.cls("first-scaling-on-integer-typed-samples:%s" % name)
        elif kind.itemsize < 8:
            self.out.cls("%s-on-float32-samples" % name)
        ok, _ = self.call_must_work(name, call)
        if not ok:
            self.quarantine(e)
            return False
        if (not m.scaled) or override:
            m.orig = m.cur.copy()
            m.omin, m.omax = m.cur.min(axis=0), m.cur.max(axis=0)
            m.factor = _cp(np, first_factor)
            m.scaled = True
            m.moved = False
        else:
            m.factor = m.factor * step_factor
        m.cur = new_cur
        m.mag = max(m.mag, float(np.max(np.abs(new_cur))))
        if fixed_rng is not None:
            m.rng = ("fixed", fixed_rng[0], fixed_rng[1])
        else:
            r = _rng_values(np, e.obj.get_scaling_range())
            m.rng = None if r is None else ("value", r.copy())
        return True

    def _empty_op(self, e, name, call):
        """operation on an empty set (or revert of an unscaled one): may raise, must not modify anything"""
        snap = self.snapshot(e)
        _, exc = self.call_may_raise(call)
        kind = "empty" if e.m.n == 0 else "unscaled"
        self.out.cls("%s-on-%s:%s" % (name, kind, "raised" if exc is not None else "returned"))
        self.check_unmodified(e, snap, "%s%s-on-%s" % ("failed-" if exc is not None else "", name, kind),
                              "%s on an %s set, exception %r" % (name, kind, exc))
        self.check_all(name, targets=[e])

    def op_scale_range(self, op):
        np = self.np
        _, k, lo, hi, override = op[:5]
        e = self.pick(k)
        if e is None:
            return
        m = e.m
        if len(op) > 5 and op[5] and m.scaled and m.rng is not None and m.rng[0] == "fixed":
            lo, hi = m.rng[1], m.rng[2]         # repeat exactly the range last applied to this set / its parent
        same_range = m.scaled and m.rng is not None and m.rng[0] == "fixed" and (m.rng[1], m.rng[2]) == (lo, hi)
        # the form of the range tuple: Python floats, Python ints as in the repository's own callers ((0, 1)), numpy scalars
        rform = op[6] if len(op) > 6 else "float"
        if rform == "int" and float(lo).is_integer() and float(hi).is_integer():
            rng_arg = (int(lo), int(hi))
            self.out.cls("range-form:int")
        elif rform == "np":
            rng_arg = (np.float64(lo), np.float64(hi))
            self.out.cls("range-form:np.float64")
        else:
            rng_arg = (float(lo), float(hi))
        call = lambda: e.obj.scale_range(rng_arg, override_scaling=bool(override))
        if m.n == 0:
            return self._empty_op(e, "scale_range", call)
        mn, mx = m.cur.min(axis=0), m.cur.max(axis=0)
        ext = mx - mn
        # Rows that are equal in the model can differ by an ulp in the object (e.g. 1.2 and (1.2 + 1) - 1 after a revert,
        # brought together by concatenate): MinMaxScaler would stretch that rounding noise over the whole range. Such a
        # set is outside what "up to rounding" can decide, so the operation is not applied (decision read from the object
        # BEFORE the call; the model's own extents are tested the same way).
        Xb, _ = obs_rows(np, e.obj)
        oext = (Xb.max(axis=0) - Xb.min(axis=0)) if Xb.shape == m.cur.shape else ext
        small = 1e-6 * m.prec * max(1.0, m.mag)
        if np.any((ext > 0) & (ext < small)) or np.any((oext > 0) & (oext < small)):
            self.out.cls("skipped-ill-conditioned-scale_range")
            return
        s = np.where(ext > 0, (hi - lo) / np.where(ext > 0, ext, 1.0), (hi - lo))
        if m.scaled and not override and (np.any(np.abs(m.factor * s) > 1e3) or np.any(np.abs(m.factor * s) < 1e-3)):
            self.out.cls("skipped-magnitude")
            return
        new = (m.cur - mn) * s + lo
        if same_range:
            self.out.cls("same-range-rescale")
            if not override and float(np.max(np.abs(new - m.cur))) > 1e3 * m.tol():
                self.out.cls("same-range-rescale-after-losing-an-extreme")
        self.out.cls("scale_range-" + ("override" if override and m.scaled else ("first" if not m.scaled else "non-overriding")))
        if np.any(ext == 0):
            self.out.cls("scale_range-constant-dimension")
        if not self._scale_common(e, "scale_range", call, new, s, s, override, fixed_rng=(lo, hi)):
            return
        # clause: per-dimension minimum and maximum land on the range ends (tolerance 1e-9*max(1,|lo|,|hi|))
        X, _ = obs_rows(np, e.obj)
        if X.shape == new.shape:
            t = 1e-9 * m.prec * max(1.0, abs(lo), abs(hi))
            omn, omx = X.min(axis=0), X.max(axis=0)
            if np.any(np.abs(omn - lo) > t):
                self.bad("scale_range/minimum-not-on-lower-end", "range (%s,%s): per-dimension minima %s" % (lo, hi, omn))
            if np.any(np.abs(omx[ext > 0] - hi) > t):
                self.bad("scale_range/maximum-not-on-upper-end", "range (%s,%s): per-dimension maxima %s" % (lo, hi, omx))
            if np.any(np.abs(omx[ext == 0] - lo) > t):
                self.bad("scale_range/constant-dimension-not-on-lower-end", "range (%s,%s): maxima %s" % (lo, hi, omx))
        self.check_all("scale_range", targets=[e])

    def _vec(self, e, v, form="float"):
        """The factor / shift argument in the drawn form.  Scalar: Python float | Python int | numpy.float64 | numpy.int64
        (the integer forms only for whole numbers, as in the repository's own test: scale_factor(-2), shift_value(5));
        a list becomes an ndarray of the DataSet's dimension: float64 | int64 (whole numbers only) | a strided view."""
        np = self.np
        whole = all(float(x).is_integer() for x in (v if isinstance(v, list) else [v]))
        if isinstance(v, list):
            d = e.m.cur.shape[1]
            if e.m.n == 0 or d == 0:
                return float(v[0])
            self.out.cls("vector-argument")
            a = np.array(v[:d], dtype=float)
            if form in ("int", "npint") and whole:
                self.out.cls("argument-form:int64-vector")
                return a.astype(np.int64)
            if form == "np":
                self.out.cls("argument-form:strided-vector")
                return np.repeat(a, 2)[::2]
            return a
        if form == "int" and whole:
            self.out.cls("argument-form:int")
            return int(v)
        if form == "npint" and whole:
            self.out.cls("argument-form:numpy.int64")
            return np.int64(v)
        if form == "np":
            self.out.cls("argument-form:numpy.float64")
            return np.float64(v)
        return float(v)

    def op_scale_factor(self, op):
        np = self.np
        _, k, f, override = op[:4]
        e = self.pick(k)
        if e is None:
            return
        m = e.m
        arg = self._vec(e, f, op[4] if len(op) > 4 else "float")
        fv = np.array(arg, dtype=float) if isinstance(arg, np.ndarray) else float(arg)      # the model's value
        call = lambda: e.obj.scale_factor(_fresh(np, arg), override_scaling=bool(override))
        if m.n == 0:
            return self._empty_op(e, "scale_factor", call)
        new = m.cur * fv
        tot = np.abs(fv) if (not m.scaled or override) else np.abs(m.factor * fv)
        if np.max(np.abs(new)) > 1e4 or np.any(tot > 1e3) or np.any(tot < 1e-3):
            self.out.cls("skipped-magnitude")
            return
        self.out.cls("scale_factor-" + ("override" if override and m.scaled else ("first" if not m.scaled else "non-overriding")))
        if np.any(np.asarray(fv) < 0):
            self.out.cls("negative-factor")
        if self._scale_common(e, "scale_factor", call, new, fv, fv, override):
            self.check_all("scale_factor", targets=[e])

    def op_shift_value(self, op):
        np = self.np
        _, k, s, override = op[:4]
        e = self.pick(k)
        if e is None:
            return
        m = e.m
        arg = self._vec(e, s, op[4] if len(op) > 4 else "float")
        sv = np.array(arg, dtype=float) if isinstance(arg, np.ndarray) else float(arg)      # the model's value
        call = lambda: e.obj.shift_value(_fresh(np, arg), override_scaling=bool(override))
        if m.n == 0:
            return self._empty_op(e, "shift_value", call)
        new = m.cur + sv
        if np.max(np.abs(new)) > 1e4:
            self.out.cls("skipped-magnitude")
            return
        self.out.cls("shift_value-" + ("override" if override and m.scaled else ("first" if not m.scaled else "non-overriding")))
        if self._scale_common(e, "shift_value", call, new, 1.0, 1.0, override):
            self.check_all("shift_value", targets=[e])

    def op_revert(self, op):
        np = self.np
        e = self.pick(op[1], prefer=lambda x: x.m.scaled)
        if e is None:
            return
        m = e.m
        call = lambda: e.obj.revert_scaling()
        if m.n == 0 or not m.scaled:
            return self._empty_op(e, "revert_scaling", call)
        ok, _ = self.call_must_work("revert_scaling", call)
        if not ok:
            self.quarantine(e)
            return
        self.out.cls("revert")
        if m.sd != "f8":
            self.out.cls("revert:samples-handed-in-as-%s" % m.sd)
        if m.moved:
            self.nt = True
            self.out.cls("revert-after-scale-and-move")
        fmin = float(np.min(np.abs(np.atleast_1d(np.asarray(m.factor, dtype=float)))))
        tol = m.tol() * max(1.0, 1.0 / fmin)
        self.max_tol = max(self.max_tol, tol)
        X, y = obs_rows(np, e.obj)
        d = diff_entry(np, X, y, m.orig, m.lab, tol)
        if d is None:
            perm, _ = match_rows(np, X, y, m.orig, m.lab, tol)
            self.max_revert_err = max(self.max_revert_err, float(np.max(np.abs(X - m.orig[perm]))) / tol)
            if m.moved:
                self.out.cls("revert-after-scale-and-move:restored")
        old_omin = m.omin
        expected = m.orig
        m.cur, m.orig = m.orig, None
        m.mag = max(m.mag, float(np.max(np.abs(m.cur))))
        m.scaled, m.factor, m.omin, m.omax, m.rng, m.moved = False, None, None, None, None, False
        if d is not None:
            cause = d[0]
            if d[0] == "samples" and old_omin is not None:
                # what results if the reverted set is anchored with ITS minimum on the stored original minimum
                faulty = expected - expected.min(axis=0) + old_omin
                if diff_entry(np, X, y, faulty, m.lab, tol) is None and np.any(np.abs(expected.min(axis=0) - old_omin) > tol):
                    cause = "samples-translated-own-minimum-put-on-stored-original-minimum"
            self.bad("revert/%s" % cause, "DataSet #%d (%s): revert_scaling does not restore the samples: %s" % (e.eid, e.origin, d[1]))
            self.quarantine(e)
        self.check_all("revert_scaling", targets=[e])

    def op_shuffle(self, op):
        e = self.pick(op[1])
        if e is None:
            return
        ok, _ = self.call_must_work("shuffle", lambda: e.obj.shuffle())
        if not ok:
            return self.quarantine(e)
        self.mark_moved(e)
        self.check_all("shuffle", targets=[e])

    def op_mbf(self, op):
        e = self.pick(op[1])
        if e is None:
            return
        ok, _ = self.call_must_work("move_boundaries_to_front", lambda: e.obj.move_boundaries_to_front())
        if not ok:
            return self.quarantine(e)
        self.mark_moved(e)
        self.check_all("move_boundaries_to_front", targets=[e])

    def _cover(self, name, parent_m, pieces, origin):
        """pieces (DataSets) must together be exactly the rows of parent_m; returns the new entries (or None)."""
        np = self.np
        used = np.zeros(parent_m.n, dtype=bool)
        models = []
        okay = True
        for j, p in enumerate(pieces):
            X, y = obs_rows(np, p)
            if len(X) != len(y):
                self.bad("cover/%s/piece-samples-and-labels-differ-in-length" % name, "piece %d: %d vs %d" % (j, len(X), len(y)))
                return None
            perm, un = match_rows(np, X, y, parent_m.cur, parent_m.lab, parent_m.tol(), used=used)
            if un:
                _, un2 = match_rows(np, X[un], np.asarray(y)[un], parent_m.cur, parent_m.lab, parent_m.tol(), used=used.copy(), labels="ignore")
                self.bad("cover/%s/%s" % (name, "piece-row-with-wrong-label" if not un2 else "piece-row-not-in-parent"),
                         "piece %d holds rows %s that the parent %s does not (or not that often)" % (
                             j, _fmt(np, X[un], np.asarray(y)[un]), _fmt(np, parent_m.cur, parent_m.lab)))
                okay = False
                continue
            models.append((p, parent_m.child(np, perm)))
        if okay and not bool(np.all(used)):
            self.bad("cover/%s/parent-rows-missing-from-pieces" % name, "rows %s of the parent appear in no piece" % _fmt(
                np, parent_m.cur[~used], parent_m.lab[~used]))
            okay = False
        if not okay:
            return None
        return [self.add(p, m, origin) for p, m in models]

    def op_split(self, op):
        np = self.np
        kind = op[0]
        e = self.pick(op[1])
        if e is None:
            return
        if kind == "split_labels":
            call = lambda: e.obj.split_labels()
        elif kind == "split_pieces":
            call = lambda: e.obj.split_pieces(op[2])
        else:
            call = lambda: e.obj.split_without_labels()
        ok, res = self.call_must_work(kind, call)
        if not ok:
            return
        pieces = list(res)
        self.mark_moved(e)
        if kind == "split_pieces" and len(pieces) != 2 or kind == "split_without_labels" and len(pieces) != 2:
            self.bad("cover/%s/number-of-pieces" % kind, "%d pieces" % len(pieces))
            return
        new = self._cover(kind, e.m, pieces, kind)
        if new is None:
            return
        for j, p in enumerate(new):
            if p.m.n == 0:
                self.out.cls("empty-piece")
            labs = set(p.m.lab.tolist())
            if kind == "split_labels" and len(labs) > 1:
                self.bad("split_labels/piece-with-several-labels", "piece %d has labels %s" % (j, sorted(labs)))
            if kind == "split_without_labels":
                if j == 0 and any(l != -1 for l in labs):
                    self.bad("split_without_labels/labelled-sample-in-labelless-piece", "labels %s" % sorted(labs))
                if j == 1 and any(l < 0 for l in labs):
                    self.bad("split_without_labels/unlabelled-sample-in-labelled-piece", "labels %s" % sorted(labs))
        if kind == "split_labels":
            firsts = [int(p.m.lab[0]) for p in new if p.m.n]
            if len(set(firsts)) != len(firsts):
                self.bad("split_labels/label-spread-over-several-pieces", "piece labels %s" % firsts)
        self.check_all(kind, targets=[e], products=new)

    def op_remove_samples(self, op):
        np = self.np
        _, k, sel, bad_kind = op[:4]
        e = self.pick(k)
        if e is None:
            return
        m = e.m
        n = m.n
        # form of the index list: Python ints | numpy.int64 scalars (what the library's own callers build from np.arange / np.unique)
        if len(op) > 5 and op[5] == "np":
            self.out.cls("index-form:numpy.int64")
            as_list = lambda ix: [np.int64(i) for i in ix]
        else:
            as_list = list
        idx = sorted(set(s % n for s in sel)) if n else []
        if len(op) > 4 and op[4] == "extreme" and n and sel:
            # choose among the rows that hold a per-dimension minimum or maximum (read from the object: an input decision)
            X, _ = obs_rows(np, e.obj)
            if len(X) == n:
                ext = np.nonzero(np.any((X == X.min(axis=0)) | (X == X.max(axis=0)), axis=1))[0].tolist()
                idx = sorted(set(int(ext[s % len(ext)]) for s in sel))
                self.out.cls("remove-extreme-rows")
        if bad_kind:
            badi = {"minus1": -1, "len": n, "len+1": n + 1, "len+5": n + 5, "minus-len-1": -n - 1}[bad_kind]
            pos = (sel[0] if sel else 0) % (len(idx) + 1)
            idx = idx[:pos] + [badi] + idx[pos:]
            snap = self.snapshot(e)
            _, exc = self.call_may_raise(lambda: e.obj.remove_samples(as_list(idx)))
            self.out.cls("remove-out-of-range:" + bad_kind)
            if exc is None:
                self.bad("remove_samples/out-of-range-index-accepted", "indices %s on a DataSet of length %d did not raise" % (idx, n))
                self.quarantine(e)
            else:
                if not isinstance(exc, (ValueError, IndexError)):
                    self.bad("remove_samples/rejection-with-%s" % type(exc).__name__, "indices %s: %r" % (idx, exc))
                self.check_unmodified(e, snap, "rejected-remove_samples", "indices %s on length %d, %s raised" % (idx, n, type(exc).__name__))
            self.check_all("remove_samples-rejected", targets=[e])
            return
        ok, removed = self.call_must_work("remove_samples", lambda: e.obj.remove_samples(as_list(idx)))
        if not ok:
            return self.quarantine(e)
        self.out.cls("remove-in-range:%s" % ("none" if not idx else ("all" if len(idx) == n else "some")))
        self.mark_moved(e)
        parent = e.m
        # the remaining set and the returned set together must be the old rows
        used = np.zeros(parent.n, dtype=bool)
        Xr, yr = obs_rows(np, e.obj)
        Xd, yd = obs_rows(np, removed)
        if len(yr) != n - len(idx) or len(yd) != len(idx):
            self.bad("remove_samples/sizes", "removing %d of %d leaves %d and returns %d" % (len(idx), n, len(yr), len(yd)))
            return self.quarantine(e)
        perm_r, un_r = match_rows(np, Xr, yr, parent.cur, parent.lab, parent.tol(), used=used)
        perm_d, un_d = match_rows(np, Xd, yd, parent.cur, parent.lab, parent.tol(), used=used)
        if un_r or un_d:
            self.bad("cover/remove_samples/%s" % ("remaining-rows-not-old-rows" if un_r else "returned-rows-not-old-rows"),
                     "old rows %s; remaining %s; returned %s" % (_fmt(np, parent.cur, parent.lab), _fmt(np, Xr, yr), _fmt(np, Xd, yd)))
            return self.quarantine(e)
        e.m = parent.child(np, perm_r)
        pe = self.add(removed, parent.child(np, perm_d), "remove_samples")
        self.check_all("remove_samples", targets=[e], products=[pe])

    def _scaling_relation(self, a, b):
        """'same' | 'different:<what>' | 'borderline' for two model entries (uses observed ranges, which are validated)"""
        np = self.np
        ma, mb = a.m, b.m
        if ma.scaled != mb.scaled:
            return "different:scaled-flag"
        if not ma.scaled:
            return "same"
        d = ma.cur.shape[1]
        ra, rb = _rng_values(np, a.obj.get_scaling_range()), _rng_values(np, b.obj.get_scaling_range())
        t = max(ma.tol(), mb.tol())
        if ra is None or rb is None or ra.shape != rb.shape or np.any(np.abs(ra - rb) > t):
            return "different:range"
        fa = np.broadcast_to(np.asarray(ma.factor, dtype=float), (d,)) if d else np.zeros(0)
        fb = np.broadcast_to(np.asarray(mb.factor, dtype=float), (d,)) if d else np.zeros(0)
        if np.any(np.abs(fa - fb) > 1e-9 * max(ma.prec, mb.prec) * np.abs(fb)):
            return "different:factor"
        if ma.omin is not None and mb.omin is not None and (np.any(np.abs(ma.omin - mb.omin) > t) or np.any(np.abs(ma.omax - mb.omax) > t)):
            return "different:original-minmax"
        if isinstance(ma.factor, np.ndarray) != isinstance(mb.factor, np.ndarray) or \
                isinstance(a.obj.get_scaling_range()[0], np.ndarray) != isinstance(b.obj.get_scaling_range()[0], np.ndarray):
            return "borderline"      # scalar vs per-dimension value of equal size: the library calls that different
        exact = (np.array_equal(ra, rb) and np.array_equal(np.asarray(a.obj.get_scaling_factor(), dtype=float),
                                                             np.asarray(b.obj.get_scaling_factor(), dtype=float)))
        return "same" if exact else "borderline"

    def op_concatenate(self, op):
        np = self.np
        a, b = self.pick(op[1]), self.pick(op[2])
        if a is None or b is None:
            return
        da, db = a.obj.get_dim(), b.obj.get_dim()
        snap_a, snap_b = self.snapshot(a), self.snapshot(b)
        res, exc = self.call_may_raise(lambda: a.obj.concatenate(b.obj))

        def untouched():
            for e, s in ((a, snap_a), (b, snap_b)):
                self.check_unmodified(e, s, "concatenate", "operand of concatenate")

        if da != db:
            if b.m.n == 0 or a.m.n == 0:
                self.out.cls("concatenate-with-empty-other-dimension")
                if exc is not None:
                    self.bad_exc(exc, "concatenate with an empty set of other dimension")
                else:
                    want = a if b.m.n == 0 else b
                    if res is not want.obj:
                        self.bad("concatenate/empty-operand-result-is-not-the-other-operand", "dims %s/%s" % (da, db))
                    else:
                        self.pool.append(want)      # documented: the other one (itself) is returned
                        while len(self.pool) > MAX_POOL:
                            self.pool.pop(0)
            else:
                self.out.cls("concatenate-dimension-mismatch")
                if exc is None:
                    self.bad("concatenate/dimension-mismatch-accepted", "dims %d and %d" % (da, db))
                elif not isinstance(exc, ValueError):
                    self.bad_exc(exc, "concatenate with dimension mismatch (ValueError expected)")
            untouched()
            return self.check_all("concatenate", targets=[a, b])
        rel = self._scaling_relation(a, b)
        if (a.m.n == 0 or b.m.n == 0) and rel != "same":
            # the scaling of an empty set is vacuous: refusal and acceptance are both fine, only the rows are checked
            self.out.cls("concatenate-empty-operand-other-attributes:" + ("refused" if exc is not None else "accepted"))
            if exc is not None and not isinstance(exc, ValueError):
                self.bad_exc(exc, "concatenate with an empty operand")
            if exc is None:
                src = b.m if a.m.n == 0 else a.m
                X, y = obs_rows(np, res)
                dd = diff_entry(np, X, y, src.cur, src.lab, src.tol())
                if dd is not None:
                    self.bad("data/%s/product-of-concatenate" % dd[0], dd[1])
            untouched()
            return self.check_all("concatenate", targets=[a, b])
        self.out.cls("concatenate-" + rel)
        if rel.startswith("different"):
            if exc is None:
                self.bad("concatenate/different-scaling-not-refused/%s" % rel.split(":")[1],
                         "self: scaled=%s range=%s factor=%s original_min=%s; other: scaled=%s range=%s factor=%s original_min=%s; "
                         "result has %d samples" % (a.m.scaled, a.obj.get_scaling_range(), a.m.factor, a.m.omin, b.m.scaled,
                                                    b.obj.get_scaling_range(), b.m.factor, b.m.omin, res.get_length()))
            elif not isinstance(exc, ValueError):
                self.bad_exc(exc, "concatenate of differently scaled sets (ValueError expected)")
            untouched()
            return self.check_all("concatenate", targets=[a, b])     # an accepted result is not tracked (no single scaling)
        if exc is not None:
            if rel == "borderline" and isinstance(exc, ValueError):
                untouched()
                return self.check_all("concatenate", targets=[a, b])
            oneD = [x for x in (a, b) if x.m.n == 0 and x.obj.get_dim() > 0 and np.asarray(x.obj.get_data()[0]).ndim == 1]
            if isinstance(exc, ValueError) and "scaling" not in str(exc) and oneD:
                self.bad("concatenate/fails-on-emptied-operand-whose-sample-array-became-1d",
                         "DataSet #%d has get_dim()=%d but a sample array of shape %s: %r" % (
                             oneD[0].eid, oneD[0].obj.get_dim(), np.asarray(oneD[0].obj.get_data()[0]).shape, exc))
            elif isinstance(exc, ValueError) and "scaling" in str(exc):
                self.bad("concatenate/same-scaling-refused", repr(exc))
            else:
                self.bad_exc(exc, "concatenate of equally scaled sets")
            untouched()
            return self.check_all("concatenate", targets=[a, b])
        untouched()
        if a.m.scaled and a.m.n and b.m.n:
            # all scaling attributes agree, but the two affine maps x -> f*x + c can still differ in c (e.g. two pieces
            # that were rescaled to the same range separately): no single "original" exists for the product, so only its
            # current rows are checked and it is not tracked any further
            if self._maps_differ(a.m, b.m):
                self.out.cls("concatenate-equal-attributes-different-shift-history:untracked")
                X, y = obs_rows(np, res)
                both = np.concatenate([a.m.cur, b.m.cur], axis=0)
                dd = diff_entry(np, X, y, both, np.concatenate([a.m.lab, b.m.lab]), max(a.m.tol(), b.m.tol()))
                if dd is not None:
                    self.bad("data/%s/product-of-concatenate" % dd[0], dd[1])
                return self.check_all("concatenate", targets=[a, b])
        m = self._union_model(a.m, b.m)
        e = self.add(res, m, "concatenate")
        self.check_all("concatenate", targets=[a, b], products=[e])

    def _union_model(self, am, bm):
        """model of a.concatenate(b) for equally scaled operands: rows of a and of b (as a multiset), attributes of a"""
        np = self.np
        d = am.cur.shape[1] if am.n else bm.cur.shape[1]
        cur = np.concatenate([am.cur.reshape(am.n, d), bm.cur.reshape(bm.n, d)], axis=0)
        m = Model(np, cur, np.concatenate([am.lab, bm.lab]), d)
        m.scaled, m.factor, m.omin, m.omax, m.rng = am.scaled, _cp(np, am.factor), _cp(np, am.omin), _cp(np, am.omax), am.rng
        m.mag = max(am.mag, bm.mag)
        m.prec = max(am.prec, bm.prec)
        m.sd = am.sd if am.n else bm.sd
        m.moved = am.scaled
        if am.scaled:
            oa = am.orig if am.orig is not None else am.cur
            ob = bm.orig if bm.orig is not None else bm.cur
            m.orig = np.concatenate([oa.reshape(am.n, d), ob.reshape(bm.n, d)], axis=0)
        return m

    def _maps_differ(self, am, bm):
        """both scaled and non-empty, all attributes equal, but the affine maps x -> f*x + c differ in c"""
        np = self.np
        if not (am.scaled and bm.scaled and am.n and bm.n):
            return False
        ca = am.cur[0] - am.factor * am.orig[0]
        cb = bm.cur[0] - bm.factor * bm.orig[0]
        return bool(np.any(np.abs(ca - cb) > max(am.tol(), bm.tol()) * (1.0 + np.max(np.abs(np.atleast_1d(am.factor))))))

    # -- list_concatenate: the n-ary form, modelled as the pairwise fold of the concatenate model -------------------------
    def _fold_step(self, a, b):
        """one a.concatenate(b) of the fold on model level.  a, b: _Operand.  Returns (kind, operand-or-None, what):
        'result' (the operand describing the outcome), 'refuse' (ValueError required; what = cause),
        'either' (refusal and acceptance both fine, outcome not tracked), 'untracked' (accepted, no single original)."""
        if a.dim != b.dim:
            if b.m.n == 0:
                return "result", a, ""
            if a.m.n == 0:
                return "result", b, ""
            return "refuse", None, "dimension-mismatch"
        rel = self._scaling_relation(a, b)
        if (a.m.n == 0 or b.m.n == 0) and rel != "same":
            return "either", None, rel
        if rel.startswith("different"):
            return "refuse", None, rel.split(":")[1]
        m = self._union_model(a.m, b.m)
        if self._maps_differ(a.m, b.m):
            # accepted, but no single original exists any more; the library folds on with the attributes of a, so the
            # members that follow can still be refused (other dimension, other scaling): the fold continues on a stand-in
            return "untracked", _Operand(m, _Proxy(m.cur.shape[1] if m.n else 0, a.obj.get_scaling_range(), a.obj.get_scaling_factor()),
                                         None, borderline=True), "shift-history"
        return "result", _Operand(m, _Proxy(m.cur.shape[1] if m.n else 0, a.obj.get_scaling_range(), a.obj.get_scaling_factor()),
                                  None, borderline=(rel == "borderline") or a.borderline or b.borderline), ""

    def op_list_concatenate(self, op):
        np = self.np
        members = []
        for tok in op[1]:
            if isinstance(tok, str):
                # a FRESH empty set, every way the public API offers
                if tok == "E0":
                    obj = self.DataSet(np.array([]), print_level=100, log_level=100)
                elif tok == "E1":
                    obj = self.DataSet((np.array([]), np.array([])), print_level=100, log_level=100)
                else:
                    obj = self.DataSet.list_concatenate([])
                members.append(_Operand(Model(np, np.zeros((0, 0)), [], 0), obj, None, fresh=True))
            else:
                e = self.pick(tok)
                if e is None:
                    return
                members.append(_Operand(e.m, e.obj, e))
        if not members:
            return
        entries = []
        for v in members:
            if v.entry is not None and not any(v.entry is x for x in entries):
                entries.append(v.entry)
        snaps = [self.snapshot(e) for e in entries]
        res, exc = self.call_may_raise(lambda: self.DataSet.list_concatenate([v.obj for v in members]))
        # classes
        self.out.cls("list_concatenate")
        nonempty = [i for i, v in enumerate(members) if v.m.n]
        if len(members) == 1:
            self.out.cls("list_concatenate:single")
        if members[0].fresh and nonempty:
            self.out.cls("list_concatenate:fresh-empty-first")
        if nonempty and any(members[i].m.n == 0 for i in range(nonempty[0] + 1, nonempty[-1])):
            self.out.cls("list_concatenate:empty-middle")
        if nonempty and len(members) > 1 and members[-1].m.n == 0:
            self.out.cls("list_concatenate:empty-last")
        if len(set(id(v.obj) for v in members)) < len(members):
            self.out.cls("list_concatenate:same-object-twice")
        # the fold on model level
        acc, kind, what, untracked = members[0], "result", "", ""
        for v in members[1:]:
            kind, nxt, what = self._fold_step(acc, v)
            if kind == "untracked":
                kind, untracked = "result", what
            if kind != "result":
                break
            acc = nxt
        if kind == "result" and untracked:
            kind, what = "untracked", untracked
        for e, sn in zip(entries, snaps):
            self.check_unmodified(e, sn, "list_concatenate", "member of list_concatenate")
        rows = [v.m for v in members if v.m.n]
        oneD = [v for v in members if v.m.n == 0 and v.obj.get_dim() > 0 and np.asarray(v.obj.get_data()[0]).ndim == 1]

        def rows_only():
            """accepted although no single scaling describes the result: only the current rows are compared"""
            d = rows[0].cur.shape[1] if rows else 0
            EX = np.concatenate([r.cur for r in rows], axis=0) if rows else np.zeros((0, 0))
            Ey = np.concatenate([r.lab for r in rows]) if rows else np.zeros(0, dtype=np.int64)
            X, y = obs_rows(np, res)
            dd = diff_entry(np, X, y, EX.reshape(len(Ey), d), Ey, max([r.tol() for r in rows] + [1e-9]))
            if dd is not None:
                self.bad("data/%s/product-of-list_concatenate" % dd[0], dd[1])

        self.out.cls("list_concatenate-" + (kind if kind != "result" else "tracked") + ((":" + what) if what else ""))
        if kind == "refuse":
            if exc is None:
                if what == "dimension-mismatch":
                    self.bad("concatenate/dimension-mismatch-accepted", "list_concatenate of members with different dimensions")
                else:
                    self.bad("concatenate/different-scaling-not-refused/%s" % what, "list_concatenate of %d members: a pairwise "
                             "step joins differently scaled sets (%s) without ValueError" % (len(members), what))
            elif not isinstance(exc, ValueError):
                self.bad_exc(exc, "list_concatenate of differently scaled sets (ValueError expected)")
            return self.check_all("list_concatenate", targets=entries)
        if kind in ("either", "untracked"):
            if exc is not None:
                if isinstance(exc, ValueError) and "scaling" not in str(exc) and oneD and kind == "either":
                    self.bad("concatenate/fails-on-emptied-operand-whose-sample-array-became-1d", repr(exc))
                elif not (isinstance(exc, ValueError) and kind == "either"):
                    self.bad_exc(exc, "list_concatenate")
            else:
                rows_only()
            return self.check_all("list_concatenate", targets=entries)
        # tracked: must work, result = acc
        if exc is not None:
            if acc.borderline and isinstance(exc, ValueError) and "scaling" in str(exc):
                pass
            elif isinstance(exc, ValueError) and "scaling" not in str(exc) and oneD:
                self.bad("concatenate/fails-on-emptied-operand-whose-sample-array-became-1d", repr(exc))
            elif isinstance(exc, ValueError) and "scaling" in str(exc):
                self.bad("concatenate/same-scaling-refused", "list_concatenate: %r" % exc)
            else:
                self.bad_exc(exc, "list_concatenate of equally scaled sets")
            return self.check_all("list_concatenate", targets=entries)
        same = [e for e in entries if e.obj is res]
        if same:
            # the library handed back one of the members itself (single-element list, all others empty)
            if same[0].m.n != acc.m.n:
                self.bad("list_concatenate/returned-member-is-not-the-result", "returned member #%d has %d samples, the result should "
                         "have %d" % (same[0].eid, same[0].m.n, acc.m.n))
            else:
                self.pool.append(same[0])
                while len(self.pool) > MAX_POOL:
                    self.pool.pop(0)
            return self.check_all("list_concatenate", targets=entries)
        m = acc.m.child(np, list(range(acc.m.n)))
        if m.scaled and m.n:
            m.moved = True
        pe = self.add(res, m, "list_concatenate")
        self.check_all("list_concatenate", targets=entries, products=[pe])

    def op_copy(self, op):
        np = self.np
        e = self.pick(op[1])
        if e is None:
            return
        ok, c = self.call_must_work("copy", lambda: e.obj.copy())
        if not ok:
            return
        ce = self.add(c, e.m.child(np, list(range(e.m.n))), "copy")
        self.check_all("copy", targets=[e], products=[ce])

    def op_remove_labels(self, op):
        np = self.np
        _, k, p = op
        e = self.pick(k)
        if e is None:
            return
        m = e.m
        ok, _ = self.call_must_work("remove_labels", lambda: e.obj.remove_labels(p))
        if not ok:
            return self.quarantine(e)
        self.mark_moved(e)
        X, y = obs_rows(np, e.obj)
        if len(y) != m.n or len(X) != m.n:
            self.bad("remove_labels/size", "%d samples before, %d samples / %d labels after" % (m.n, len(X), len(y)))
            return self.quarantine(e)
        labelled = int(np.sum(m.lab >= 0))
        want = round((p if 0 <= p < 1 else 1.0) * labelled)
        used = np.zeros(m.n, dtype=bool)
        perm, un = match_rows(np, X, y, m.cur, m.lab, m.tol(), used=used)
        newly = 0
        if un:
            Xu, yu = X[un], np.asarray(y)[un]
            perm2, un2 = match_rows(np, Xu, yu, m.cur, m.lab, m.tol(), used=used, labels="ignore")
            if un2:
                self.bad("remove_labels/samples-changed", "rows %s are not samples of the set %s" % (
                    _fmt(np, Xu[un2], yu[un2]), _fmt(np, m.cur, m.lab)))
                return self.quarantine(e)
            if any(int(v) != -1 for v in yu):
                self.bad("remove_labels/label-changed-to-another-label", "rows %s vs before %s" % (_fmt(np, Xu, yu), _fmt(np, m.cur, m.lab)))
                return self.quarantine(e)
            for i, j in zip(un, perm2):
                perm[i] = j
            newly = len(un)
        if abs(newly - (p if 0 <= p < 1 else 1.0) * labelled) > 0.5 + 1e-9:      # rounding of .5 is not specified
            self.bad("remove_labels/number-of-removed-labels", "p=%s, %d labelled samples: %d labels removed, expected %d" % (p, labelled, newly, want))
        new_m = m.child(np, perm)
        new_m.lab = np.array(y, dtype=np.int64)
        e.m = new_m
        self.out.cls("remove_labels")
        self.check_all("remove_labels", targets=[e])

    # -- driver ----------------------------------------------------------------------------------------------------
    def run(self, ops):
        table = dict(create=self.op_create, scale_range=self.op_scale_range, scale_factor=self.op_scale_factor,
                     shift_value=self.op_shift_value, revert=self.op_revert, shuffle=self.op_shuffle, mbf=self.op_mbf,
                     split_labels=self.op_split, split_pieces=self.op_split, split_without_labels=self.op_split,
                     remove_samples=self.op_remove_samples, concatenate=self.op_concatenate, copy=self.op_copy,
                     list_concatenate=self.op_list_concatenate,
                     remove_labels=self.op_remove_labels)
        for op in ops:
            self.steps += 1
            if not self.pool and op[0] != "create":
                continue
            # identity of the factor objects before the step (to name the cause if a by-stander's factor changes)
            self.factor_before = {id(e): e.obj.get_scaling_factor() for e in self.live()}
            table[op[0]](op)
            if self.full():
                break


def run_history(case):
    out = Outcome()
    mach = Machine(out)
    mach.run(case["ops"])
    out.nontrivial = mach.nt
    out.info = dict(max_ops=len(case["ops"]), max_pool=len(mach.live()), max_tolerance=mach.max_tol,
                    max_revert_error_in_units_of_tolerance=mach.max_revert_err,
                    max_float32_error_in_units_of_tolerance=mach.max_f4_err)
    return out


# ----------------------------------------------------------------------------------------------------------------
# generator
# ----------------------------------------------------------------------------------------------------------------
RANGES = [(0.0, 1.0), (0.0, 1.0), (0.0, 1.0), (0.005, 0.995), (0.005, 0.995), (0.05, 0.95), (-1.0, 1.0), (0.0, 2.0), (2.0, 5.0), (-3.0, -1.0)]
FACTORS = [2.0, 0.5, -2.0, -1.0, -0.5, 1.5, 3.0, 0.25, 0.3]
SHIFTS = [1.0, -1.0, 0.5, 5.0, -2.25, 0.1, 0.0]
PERC = [0.0, 0.25, 0.4, 0.5, 0.75, 0.9, 0.999, 1.0, 1.5, -0.5]
KINDS = (["create"] * 2 + ["scale_range"] * 5 + ["scale_factor"] * 3 + ["shift_value"] * 3 + ["revert"] * 5 + ["shuffle"] * 2 +
         ["mbf"] * 3 + ["split_labels"] * 2 + ["split_pieces"] * 4 + ["split_without_labels"] * 2 + ["remove_in"] * 3 +
         ["remove_out"] * 1 + ["concatenate"] * 4 + ["list_concatenate"] * 4 + ["copy"] * 3 + ["remove_labels"] * 2)
S_DTYPE = ["f8"] * 8 + ["i8"] * 3 + ["i4"] * 2 + ["i2"] + ["f4"] * 2
S_LAYOUT = ["C"] * 5 + ["F", "cols", "rows", "rev"]
S_SHAPE = ["2d"] * 5 + ["flat", "flat", "3d-last", "3d-mid"]
S_LABEL = ["i8"] * 4 + ["i4", "f8", "strided"]
ARGFORM = ["float"] * 3 + ["int", "int", "npint", "np"]


@st.composite
def _create(draw):
    mode = draw(st.sampled_from(["labelled"] * 10 + ["unlabelled", "empty"]))
    d = draw(st.integers(1, 3))
    if mode == "empty":
        return ["create", "empty", d, [], []]
    n = draw(st.sampled_from([4, 3, 5, 2, 6, 3, 8, 1, 4, 12, 2, 1, 0]))
    # the form in which the arrays are handed to the constructor: [sample dtype, memory layout, shape, label form]
    form = [draw(st.sampled_from(S_DTYPE)), draw(st.sampled_from(S_LAYOUT)), draw(st.sampled_from(S_SHAPE)),
            draw(st.sampled_from(S_LABEL))]
    if form[2] == "flat" and d != 1:
        form[2] = "2d"
    whole = form[0] in ("i8", "i4", "i2")                       # an integer table holds whole numbers: lattice steps 1 and 3
    lattice = draw(st.sampled_from(["quarter", "narrow", "tenth"]))
    if lattice == "quarter":
        coord = st.integers(-8, 8).map((lambda k: k * 1.0) if whole else (lambda k: k * 0.25))
    elif lattice == "narrow":                                   # many ties in the extremes
        off = draw(st.sampled_from([3.0, 3.0, 13.0, -2.0]))     # equal extents at different positions
        coord = st.integers(-1, 1).map(lambda k: k * 1.0 + off)
    else:                                                       # not exactly representable (unless an integer table)
        coord = st.integers(-6, 6).map((lambda k: k * 3.0) if whole else (lambda k: k * 0.3))
    row = st.lists(coord, min_size=d, max_size=d)
    unique = draw(st.booleans()) or draw(st.booleans())
    npos = {"quarter": 17, "narrow": 3, "tenth": 13}[lattice] ** d
    if unique and npos >= n:
        rows = draw(st.lists(row, min_size=n, max_size=n, unique_by=tuple))
    else:
        rows = draw(st.lists(row, min_size=n, max_size=n))
    labels = draw(st.lists(st.sampled_from([-1, 0, 0, 1, 1, 2, 3]), min_size=n, max_size=n))
    return ["create", mode, d, rows, labels, form]


def history_strategy(tier):
    maxops = 14 if tier == "quick" else 26
    idx = st.integers(0, 47)
    scal_or_vec = lambda pool: st.one_of(st.sampled_from(pool), st.sampled_from(pool),
                                         st.lists(st.sampled_from(pool), min_size=3, max_size=3))

    @st.composite
    def s(draw):
        ops = [draw(_create())]
        nops = draw(st.integers(1, maxops))
        for _ in range(nops):
            k = draw(st.sampled_from(KINDS))
            if k == "create":
                ops.append(draw(_create()))
            elif k == "scale_range":
                lo, hi = draw(st.sampled_from(RANGES))
                target = draw(idx)
                ops.append([k, target, lo, hi, draw(st.sampled_from([0, 0, 1])), draw(st.sampled_from([0, 1])),
                            draw(st.sampled_from(["float", "float", "int", "int", "np"]))])
                # follow-up by construction: lose rows (preferably ones holding an extreme), then rescale to the SAME range
                follow = draw(st.sampled_from(["", "", "", "remove", "remove", "split_pieces", "split_labels"]))
                if follow == "remove":
                    ops.append(["remove_samples", target, draw(st.lists(st.integers(0, 23), min_size=1, max_size=2)), "", "extreme"])
                    ops.append([k, target, lo, hi, 0, 1])
                elif follow == "split_pieces":
                    ops.append([follow, target, draw(st.sampled_from([0.25, 0.4, 0.5, 0.75]))])
                    ops.append([k, draw(st.sampled_from([-1, -2])), lo, hi, 0, 1])
                elif follow == "split_labels":
                    ops.append([follow, target])
                    ops.append([k, draw(st.sampled_from([-1, -2])), lo, hi, 0, 1])
            elif k == "scale_factor":
                ops.append([k, draw(idx), draw(scal_or_vec(FACTORS)), draw(st.sampled_from([0, 0, 1])), draw(st.sampled_from(ARGFORM))])
            elif k == "shift_value":
                ops.append([k, draw(idx), draw(scal_or_vec(SHIFTS)), draw(st.sampled_from([0, 0, 1])), draw(st.sampled_from(ARGFORM))])
            elif k in ("revert", "shuffle", "mbf", "split_labels", "split_without_labels", "copy"):
                ops.append([k, draw(idx)])
            elif k == "split_pieces":
                ops.append([k, draw(idx), draw(st.sampled_from(PERC))])
            elif k == "remove_in":
                ops.append(["remove_samples", draw(idx), draw(st.lists(st.integers(0, 23), min_size=draw(st.sampled_from([0, 1, 1, 1])), max_size=4)), "",
                            "", draw(st.sampled_from(["py", "py", "np"]))])
            elif k == "remove_out":
                ops.append(["remove_samples", draw(idx), draw(st.lists(st.integers(0, 23), min_size=0, max_size=3)),
                            draw(st.sampled_from(["minus1", "len", "len+1", "len+5", "minus-len-1"])),
                            "", draw(st.sampled_from(["py", "py", "np"]))])
            elif k == "concatenate":
                ops.append([k, draw(idx), draw(idx)])
            elif k == "list_concatenate":
                member = st.one_of(st.integers(0, 35), st.integers(0, 35), st.integers(0, 35), st.integers(36, 59),
                                   st.sampled_from(["E0", "E1", "E2"]))
                lst = draw(st.lists(member, min_size=1, max_size=5))
                if draw(st.sampled_from([0, 0, 1])):                     # a fresh empty set in first position
                    lst = [draw(st.sampled_from(["E0", "E1", "E2"]))] + lst[:4]
                if len(lst) >= 2 and draw(st.sampled_from([0, 0, 0, 1])):  # the same member twice
                    lst[-1] = lst[0] if not isinstance(lst[0], str) else lst[1]
                ops.append([k, lst])
            elif k == "remove_labels":
                ops.append([k, draw(idx), draw(st.sampled_from([0.0, 0.3, 0.5, 1.0, 2.0]))])
        return dict(rng=draw(st.integers(0, 2 ** 31 - 1)), ops=ops)
    return s()


def fixed_cases():
    c4 = ["create", "labelled", 1, [[1.0], [0.0], [3.0], [2.0]], [0, 1, 2, 3]]
    table = [[3.0, 10.0], [7.0, 14.0], [0.0, 11.0], [12.0, 2.0], [5.0, 5.0], [9.0, 0.0], [1.0, 8.0], [6.0, 13.0]]
    ci = lambda sd, layout: ["create", "labelled", 2, table, [0, 1, 1, 0, 2, 1, 0, -1], [sd, layout, "2d", "i4"]]
    return [
        # F-C18 (repaired): a piece of split_pieces shared its label array with the parent
        dict(rng=1, ops=[c4, ["split_pieces", 0, 0.75], ["mbf", 1]]),
        dict(rng=2, ops=[c4, ["scale_range", 0, 0.0, 1.0, 0], ["split_pieces", 0, 0.75], ["mbf", 1], ["mbf", 2], ["revert", 0]]),
        # closed form: scale, shuffle, factor, shift, revert on the set itself
        dict(rng=3, ops=[["create", "labelled", 2, [[0.0, 5.0], [1.0, 5.0], [2.0, 7.0], [4.0, 6.0]], [0, 1, -1, 1]],
                         ["scale_range", 0, 0.0, 1.0, 0], ["shuffle", 0], ["scale_factor", 0, -2.0, 0], ["shift_value", 0, 5.0, 0],
                         ["scale_range", 0, 2.0, 5.0, 0], ["revert", 0]]),
        # revert on the second piece of a scaled set
        dict(rng=4, ops=[["create", "labelled", 1, [[0.0], [1.0], [2.0], [3.0]], [0, 1, 0, 1]], ["scale_range", 0, 0.0, 1.0, 0],
                         ["split_pieces", 0, 0.5], ["revert", 2]]),
        # parent rescaled after a copy was taken; the copy is reverted
        dict(rng=5, ops=[["create", "labelled", 1, [[0.0], [1.0], [2.0], [3.0]], [0, 1, 0, 1]], ["scale_range", 0, 0.0, 1.0, 0],
                         ["copy", 0], ["scale_factor", 0, 2.0, 0], ["revert", 1]]),
        # concatenation of a scaled with an unscaled set, and of sets with different ranges
        dict(rng=6, ops=[["create", "labelled", 1, [[0.0], [1.0], [2.0]], [0, 1, 0]], ["create", "labelled", 1, [[10.0], [14.0]], [1, 1]],
                         ["scale_range", 0, 0.0, 1.0, 0], ["concatenate", 0, 1], ["concatenate", 1, 0],
                         ["scale_range", 1, 0.0, 2.0, 0], ["concatenate", 1, 0]]),
        # same range and factor, different position of the original data
        dict(rng=7, ops=[["create", "labelled", 1, [[0.0], [1.0], [2.0]], [0, 1, 0]], ["create", "labelled", 1, [[10.0], [11.0], [12.0]], [1, 1, 0]],
                         ["scale_range", 0, 0.0, 1.0, 0], ["scale_range", 1, 0.0, 1.0, 0], ["concatenate", 0, 1]]),
        # a whole-number table handed in as an integer array; first scalings are a non-integral shift and factor
        dict(rng=8, ops=[ci("i8", "C"), ["shift_value", 0, 0.5, 0, "float"], ["scale_factor", 0, 0.25, 0, "float"], ["mbf", 0],
                         ["scale_range", 0, -1.0, 1.0, 0, 0, "int"], ["revert", 0]]),
        dict(rng=9, ops=[ci("i4", "F"), ["scale_factor", 0, [0.5, -1.5, 1.0], 0, "float"], ["split_pieces", 0, 0.5],
                         ["shift_value", -1, [0.25, 0.1, 0.0], 0, "np"], ["mbf", -1], ["revert", 0]]),
        # the repository's own call forms: scale_range((0, 1)), scale_factor(-2), shift_value(5) with Python ints, here on integer samples
        dict(rng=10, ops=[ci("i2", "cols"), ["scale_factor", 0, -2.0, 0, "int"], ["shift_value", 0, 5.0, 0, "int"], ["copy", 0],
                          ["scale_factor", 0, 0.3, 0, "np"], ["revert", 0], ["scale_range", 1, 0.0, 1.0, 0, 0, "int"], ["revert", 1]]),
        # float32 samples, strided labels, d = 1 handed in as a vector
        dict(rng=11, ops=[["create", "labelled", 1, [[0.5], [-1.25], [2.0], [0.75], [2.0]], [0, 1, -1, 1, 0], ["f4", "rows", "flat", "strided"]],
                          ["scale_range", 0, 0.005, 0.995, 0, 0, "float"], ["shuffle", 0], ["scale_factor", 0, 0.3, 0, "float"],
                          ["remove_samples", 0, [1], "", "", "np"], ["revert", 0]]),
    ]


# ----------------------------------------------------------------------------------------------------------------
# oracle self test
# ----------------------------------------------------------------------------------------------------------------
def selftest():
    import numpy as np
    from sparseSpACE.DEMachineLearning import DataSet
    # 1. closed form: the model's scale_range/factor/shift/revert arithmetic on 0,1,2,3
    out = Outcome()
    mach = Machine(out)
    mach.run([["create", "labelled", 1, [[0.0], [1.0], [2.0], [3.0]], [0, 1, 2, 3]], ["scale_range", 0, 0.0, 1.0, 0]])
    m = mach.pool[0].m
    assert not out.violations, out.violations
    assert np.allclose(sorted(m.cur[:, 0]), [0, 1 / 3, 2 / 3, 1]) and np.allclose(m.factor, [1 / 3]) and m.omin[0] == 0 and m.omax[0] == 3
    mach.run([["scale_factor", 0, -2.0, 0], ["shift_value", 0, 5.0, 0]])
    assert not out.violations, out.violations
    assert np.allclose(sorted(m.cur[:, 0]), [3, 3 + 2 / 3, 4 + 1 / 3, 5]) and np.allclose(m.factor, [-2 / 3])
    mach.run([["revert", 0]])
    assert not out.violations, out.violations
    assert np.allclose(sorted(mach.pool[0].m.cur[:, 0]), [0, 1, 2, 3]) and not mach.pool[0].m.scaled
    # 2. the matcher accepts a permutation with pairing intact and rejects detached labels, changed samples, sizes
    EX, Ey = np.array([[0., 1.], [2., 3.], [2., 3.], [4., 5.]]), np.array([0, 1, -1, 2])
    p = [2, 0, 3, 1]
    assert diff_entry(np, EX[p], Ey[p], EX, Ey, 1e-9) is None
    assert diff_entry(np, EX[p], Ey, EX, Ey, 1e-9)[0] == "labels-detached"
    y2 = Ey.copy(); y2[0] = 3
    assert diff_entry(np, EX, y2, EX, Ey, 1e-9)[0] == "labels-changed"
    X2 = EX.copy(); X2[3, 1] += 1e-6
    assert diff_entry(np, X2, Ey, EX, Ey, 1e-9)[0] == "samples"
    assert diff_entry(np, EX[:3], Ey[:3], EX, Ey, 1e-9)[0] == "size"
    # duplicates are counted: (2,3) twice with labels 1 and -1 is not (2,3,1) twice
    assert diff_entry(np, EX, np.array([0, 1, 1, 2]), EX, Ey, 1e-9) is not None
    # 3. a corrupted live object is rejected by the per-step comparison (labels swapped behind the model's back)
    out = Outcome()
    mach = Machine(out)
    mach.run([["create", "labelled", 1, [[1.0], [0.0], [3.0], [2.0]], [0, 1, 2, 3]], ["copy", 0]])
    assert not out.violations
    lab = mach.pool[0].obj.get_data()[1]
    lab[[0, 1]] = lab[[1, 0]]
    mach.run([["shuffle", 1]])
    sigs = [s for s, _ in out.violations]
    assert any("labels-detached" in s for s in sigs), sigs
    # 4. a corrupted scaling attribute is rejected
    out = Outcome()
    mach = Machine(out)
    mach.run([["create", "labelled", 1, [[1.0], [0.0], [3.0]], [0, 1, 2]], ["scale_range", 0, 0.0, 1.0, 0]])
    mach.pool[0].obj._original_min = np.array([0.5])
    mach.run([["create", "empty", 1, [], []]])
    assert any("attrs/original_min" in s for s, _ in out.violations), out.violations
    # 6. an integer-typed table: closed form of shift and factor in float64; samples cut back to whole numbers are rejected
    out = Outcome()
    mach = Machine(out)
    mach.run([["create", "labelled", 2, [[3.0, 10.0], [7.0, 14.0], [0.0, 11.0]], [0, 1, 1], ["i8", "F", "2d", "i4"]]])
    assert mach.pool[0].obj.get_data()[0].dtype.kind == "i" and mach.pool[0].obj.get_data()[1].dtype == np.int32
    mach.run([["shift_value", 0, 0.5, 0, "float"], ["scale_factor", 0, 0.25, 0, "np"]])
    assert not out.violations, out.violations
    assert sorted(map(tuple, mach.pool[0].m.cur.tolist())) == [(0.125, 2.875), (0.875, 2.625), (1.875, 3.625)]
    o = mach.pool[0].obj
    o._data = (np.trunc(o._data[0]), o._data[1])
    mach.run([["create", "empty", 1, [], []]])
    assert any("data/samples" in s for s, _ in out.violations), out.violations
    # 7. every form hands the constructor the same table, in the memory layout / dtype / shape its name says
    mach = Machine(Outcome())
    T = np.array([[1.0, -2.0, 4.0], [0.0, 5.0, 6.0], [3.0, 3.0, -7.0], [8.0, 1.0, 2.0]])
    for sd in SAMPLE_DTYPES:
        for layout in LAYOUTS:
            for shape in SHAPES:
                for lf in LABEL_FORMS:
                    for d in (1, 3):
                        A, y, Xs = mach.materialise(T[:, :d].copy(), [0, -1, 2, 1], [sd, layout, shape, lf])
                        assert A.dtype == np.dtype(SAMPLE_DTYPES[sd]) and np.array_equal(Xs, T[:, :d]) and A.flags.writeable
                        assert np.array_equal(np.reshape(A, (4, d)).astype(float), T[:, :d]) and y.tolist() == [0, -1, 2, 1]
                        assert A.ndim == (1 if (shape == "flat" and d == 1) else 3 if shape.startswith("3d") else 2)
                        if layout in ("cols", "rows", "rev") or (layout == "F" and d > 1):
                            assert not A.flags.c_contiguous or A.size == A.shape[0] == 1, (layout, shape, d)
                        assert (lf == "strided") == (not y.flags.c_contiguous)
    # 5. all deterministic cases are replayable from JSON
    import json
    for c in fixed_cases():
        assert json.loads(json.dumps(c)) == c


SUBS = [
    Sub(SUBN, history_strategy, run_history, dict(quick=24000, thorough=160000),
        budget_s=dict(quick=40, thorough=520), fixed_cases=fixed_cases),
]
