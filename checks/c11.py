"""C11 — Romberg extrapolation grids give consistent, exact-to-order weights.

Sub-checks
  sliced    random dyadic refinement tree  x  all 3 groupings x {ROMBERG_DEFAULT, TRAPEZOID} slices x
            {ROMBERG_DEFAULT, SIMPSON_ROMBERG} containers x forced balancing on/off through ExtrapolationGrid
            (fresh object, re-used object, integrate()).
  complete  complete dyadic grid of depth m: degree of exactness 2m+1 (sliced default Romberg variants) and 2m-1
            (BalancedExtrapolationGrid).
  balanced  balanced trees (both children added at once, or the output of GridBinaryTree) through
            BalancedExtrapolationGrid and GlobalBalancedRombergGrid.
  bintree   GridBinaryTree.init_tree / force_full_tree_invariant on random trees (singleton re-used for two trees).
  global    GlobalRombergGrid (1-3 dimensions, cache on/off, a sequence of set_grid calls that repeats keys).

All oracles are written from the definition (exact rational reference values, dyadic positions), none calls the
library code it judges.  Coordinates are dyadic rationals with short mantissas, so grid points, step widths and the
normalised coordinates t=(x-a)/(b-a) are exact in floating point.  The same grid is handed over in different container
forms and coordinate element types (float, int where whole, np.int64/np.int32, np.float32), see grid_arg().
"""
import contextlib
import io
import math
from fractions import Fraction as F

from hypothesis import strategies as st

from vlib.core import Outcome, Sub

PROPERTY = "C11"
RULE = ("A case is a dyadic refinement tree on [a, a+H] (a = k/8, H = odd*2^e: all coordinates exactly representable): "
        "a complete tree of depth 0..3 followed by 0..20 (thorough 30) random leaf splits (an interval between two "
        "neighbouring points is halved, the new point gets level max(neighbour levels)+1); for the balanced classes a "
        "leaf *node* receives both children. In every sub 8 of 21 draws put the interval into unusual units: length "
        "(and offset, or offset 0, or an O(1) offset with a scaled length) multiplied by 2^-40, 2^-30, ~1e-9, ~1e-7, "
        "~1e-6, ~1e-3, ~1e3 or 2^20 (the decimal ones rounded to an 11-bit mantissa), and about 1 in 7 trees is a "
        "one-sided chain of 20..31 levels (towards a, towards b or zig-zag) with <= 36 points; class counters "
        "domain-scale=*, offset=*, max-level>=27. 4 of 21 draws count the interval in cells of the finest (or 2nd/3rd finest) "
        "level (whole-number offset, length odd*2^(depth-j), j in 0,0,0,1,2; class domain-scale=whole-numbers), so that all or "
        "most grid points are whole numbers. Every tolerance is relative to the interval length. Every sub passes "
        "grid and level list in a drawn container form (list / tuple / ndarray / list of numpy scalars; class arg-form=*) "
        "and the coordinates in a drawn element type (4 of 9 float; 3 of 9 'int': every whole-number coordinate is a Python "
        "int resp. np.int64, the others stay floats, an ndarray is int64 only if all are whole; 1 of 9 the same with "
        "np.int32; 1 of 9 np.float32 scalars / float32 ndarray if every coordinate is a float32 number of moderate size, "
        "else float; classes coord-elem=*, coord-type=<container>[<element types>], coords=all-integer-typed / "
        "mixed-int-float, container>=2-slices-all-integer-typed / -mixed-int-float = a grouped container whose points "
        "were all / partly handed over integer-typed); weights, sums, moments and integrate() are judged exactly as for "
        "floats and compared with the weights of the same grid spelt as a plain list of floats. "
        "In half of the draws the caller goes on using ITS OWN containers after set_grid/init_tree (insert the next "
        "refinement point, refill with another grid, clear, reverse; before the first or between two get_weights calls; "
        "class caller-modified=*): the answers must be those of the grid given to set_grid (reference: an object that "
        "received private copies) and the library must not change the caller's containers. Every case is run through all 3 slice groupings x 2 slice versions x 2 "
        "container versions x forced balancing on/off. Non-trivial (sliced, global) = the tree has >= 3 distinct step "
        "widths AND the GROUPED/GROUPED_OPTIMIZED runs built at least one container with >= 2 slices. Non-trivial "
        "(complete) = depth >= 2. Non-trivial (balanced) = >= 3 distinct step widths (>= 7 points). Non-trivial "
        "(bintree) = forcing added at least one point and the tree has >= 3 levels. Distinct = distinct case dict.")
ASSUMPTIONS = [
    "grids are dyadic refinement trees with exactly representable coordinates: ExtrapolationGrid.set_grid asserts "
    "`step == (b-a)/2**level` with ==, so callers can only pass such grids (sparseSpACE's single-dimension refinement "
    "halves intervals and produces exactly these level lists when rebalancing is off)",
    "'integrates linear functions exactly' is evaluated as sum(w)==b-a and sum(w*(t-1/2))==0 with t=(x-a)/(b-a); together "
    "they are equivalent to sum(w*x)==(b^2-a^2)/2 and are better conditioned for intervals far from 0",
    "degree of exactness is evaluated with the monomials t^k and (2t-1)^k (degree of exactness is affine invariant)",
    "'default Romberg variants' on a complete grid = the configurations in which extrapolation is actually performed by "
    "default Romberg code: UNIT grouping with ROMBERG_DEFAULT slices (any container version, containers are unit), or "
    "GROUPED/GROUPED_OPTIMIZED with ROMBERG_DEFAULT containers (any slice version, the grid is one container)",
    "the grid [a,b] without inner point is passed to ExtrapolationGrid only without forced balancing "
    "(GridBinaryTree/BalancedExtrapolationGrid assert a root node)",
    "float tolerance 1e-11*max(H, sum|w|): rounding observed on the unchanged tree is <= 6e-16*H; the smallest real "
    "deviation seen is 1e-13*H only for the known Simpson finding on containers of >= 32 slices (which is then "
    "simply not reported), everything else is >= 1e-9*H",
    "LAGRANGE_* containers and ROMBERG_DEFAULT_CONST_SUBTRACTION slices are out of scope (statement)",
    "argument forms: grid as list, tuple, ndarray or list of np.float64; levels as list, tuple or list of np.int64. An "
    "ndarray level list is outside the accepted domain (every entry point calls grid_levels[...].index(min(...)))",
    "coordinate element types: the library neither converts nor rejects the coordinate objects it is given (slices keep "
    "the caller's own objects as left/right point, step widths are (b-a)/2**j with true division), the repository tests "
    "write whole-number coordinates as ints (test_ExtrapolationGrid.py: grid = [1, 1.5, 2, 2.5, 3], [1, 2, 2.25, 2.5, 3]); "
    "observed on the unchanged tree (7092 configurations x 33 spellings): Python int / np.int32 / np.int64 (lists, tuples, "
    "integer ndarrays, mixed with floats) give float weights within 1.5e-16*H of the float spelling, so they are judged with "
    "the float64 tolerance; np.int32 only for |x| < 2^30 (b-a must not overflow), otherwise np.int64",
    "float32 coordinates: the library then computes step widths and weights in single precision (weights come back as "
    "np.float32). The statement's 'exactly' is read as 'up to rounding of the caller's number type': tolerance TOL32=1e-4 "
    "relative (rounding observed on the unchanged tree <= 7e-7 for default containers over 3000 trees x 24 configurations; "
    "a Simpson-cause deviation below 1e-4 is then not reported). float32 is used only if it spells the same grid (every "
    "coordinate is a float32 number) and 2^-24 <= step, |x| <= 2^24 (h^3 in the Romberg coefficients stays inside the "
    "float32 range); otherwise the case falls back to float (class coord-elem-fallback=float32->float)",
    "GlobalRombergGrid / GlobalBalancedRombergGrid: after the caller changed its containers only the weights are "
    "compared (coordinate storage of GlobalGrid belongs to other properties)",
    "unusual units: scales ~1e-9 .. ~1e3 are rounded to an 11-bit mantissa (e.g. 1e-9 -> 1.00044e-9); a scale with a "
    "full 53-bit mantissa makes x_i+1 - x_i != (b-a)/2^level in floating point, which set_grid rejects by assertion, so "
    "such grids are outside the accepted input domain; magnitudes from 2^-40*0.25 to 2^20*7 and offsets up to 16 "
    "interval lengths (or O(1) offsets with lengths down to ~2^-32) are covered",
]

TOL = 1e-11
GROUPINGS = ["UNIT", "GROUPED", "GROUPED_OPTIMIZED"]
SLICE_VERSIONS = ["ROMBERG_DEFAULT", "TRAPEZOID"]
CONTAINER_VERSIONS = ["ROMBERG_DEFAULT", "SIMPSON_ROMBERG"]


# ----------------------------------------------------------------------------------------------------------------
# tree model (exact): a point is a Fraction t in [0,1]; level(t) = exponent of the reduced denominator
# ----------------------------------------------------------------------------------------------------------------
def dyadic_level(t: F) -> int:
    """level of a dyadic position: 0 for the end points, l for j/2^l with j odd; -1 if not dyadic."""
    if t == 0 or t == 1:
        return 0
    d = t.denominator
    if d & (d - 1):
        return -1
    return d.bit_length() - 1


def complete_ts(depth):
    n = 2 ** depth
    return [F(i, n) for i in range(n + 1)]


def tree_from_splits(base, splits):
    """complete tree of depth `base`, then each split halves the interval with index s % (#intervals)."""
    ts = complete_ts(base)
    for s in splits:
        i = s % (len(ts) - 1)
        ts.insert(i + 1, (ts[i] + ts[i + 1]) / 2)
    return ts


def balanced_tree_from_splits(splits):
    """[0,1/2,1]; each split gives both children to the leaf node with index s % (#leaf nodes)."""
    pts = {F(1, 2)}
    for s in splits:
        leaves = sorted(t for t in pts if (t - F(1, 2 ** (dyadic_level(t) + 1))) not in pts)
        t = leaves[s % len(leaves)]
        h = F(1, 2 ** (dyadic_level(t) + 1))
        pts.add(t - h)
        pts.add(t + h)
    return [F(0)] + sorted(pts) + [F(1)]


def to_grid(a, H, ts):
    """float grid and level list; exactness of the float coordinates is part of the construction (asserted)."""
    xs = [a + H * float(t) for t in ts]
    for x, t in zip(xs, ts):
        if F(x) != F(a) + F(H) * t:
            raise ValueError("harness: coordinate not exactly representable: a=%r H=%r t=%s" % (a, H, t))
    return xs, [dyadic_level(t) for t in ts]


def ts_of(a, H, xs):
    return [(F(x) - F(a)) / F(H) for x in xs]


def distinct_widths(ts):
    return len({ts[i + 1] - ts[i] for i in range(len(ts) - 1)})


def equal_width_runs(ts):
    runs, cur, n = [], None, 0
    for i in range(len(ts) - 1):
        w = ts[i + 1] - ts[i]
        if w == cur:
            n += 1
        else:
            if n:
                runs.append(n)
            cur, n = w, 1
    runs.append(n)
    return runs


# ----------------------------------------------------------------------------------------------------------------
# oracles
# ----------------------------------------------------------------------------------------------------------------
def moment_errors(w, ts, H, kmax):
    """[(k, basis, |sum w p_k(t) - H*int_0^1 p_k|, scale)] for p_k = t^k and (2t-1)^k, float evaluation."""
    res = []
    tf = [float(t) for t in ts]
    sf = [2.0 * t - 1.0 for t in tf]
    sabs = math.fsum(abs(x) for x in w)
    scale = max(abs(H), sabs)
    for k in range(kmax + 1):
        got = math.fsum(wi * ti ** k for wi, ti in zip(w, tf))
        res.append((k, "t", abs(got - H / (k + 1)), scale))
        got = math.fsum(wi * si ** k for wi, si in zip(w, sf))
        ref = H / (k + 1) if k % 2 == 0 else 0.0
        res.append((k, "s", abs(got - ref), scale))
    return res


def check_sum_linear(w, ts, H):
    """returns (dev0, dev1, scale): sum(w)-H and sum(w*(t-1/2)) ; exact for a rule that integrates linear functions"""
    wf = [float(x) for x in w]
    dev0 = math.fsum(wf) - H
    dev1 = math.fsum(wi * (float(t) - 0.5) for wi, t in zip(wf, ts))
    scale = max(abs(H), math.fsum(abs(x) for x in wf))
    return dev0, dev1, scale


def simpson_level0_prediction(containers, a, H):
    """Deviation predicted by the cause of F-C11a, computed from the containers the library actually built:
    RombergSimpsonWeights gives the level-0 term of a container [l,r] with 2^k >= 2 slices the mass 2(r-l)/3 (two end
    points with weight h_0/3, no midpoint) instead of (r-l); its extrapolation coefficient is
    c_{k,0} = prod_{i=1..k} 1/(1-8^i) (exponent 3).  => sum(w) is off by  -c_{k,0}*(r-l)/3  per container, and the
    first moment by that amount times the container midpoint (the container weights are symmetric)."""
    d0, d1 = F(0), F(0)
    for (left, right, n) in containers:
        if n < 2 or n & (n - 1):
            continue
        k = n.bit_length() - 1
        c0 = F(1)
        for i in range(1, k + 1):
            c0 *= F(1, 1 - 8 ** i)
        dc = -c0 * (F(right) - F(left)) / 3
        d0 += dc
        mid_t = ((F(left) + F(right)) / 2 - F(a)) / F(H)
        d1 += dc * (mid_t - F(1, 2))
    return float(d0), float(d1)


def check_full_tree(out_xs, out_levels, in_xs, in_levels, a, H):
    """Position based oracle for forced balancing. Returns list of (clause, message)."""
    bad = []
    if len(out_xs) != len(out_levels):
        return [("length-mismatch", "len(grid)=%d len(levels)=%d" % (len(out_xs), len(out_levels)))]
    if any(not (out_xs[i] < out_xs[i + 1]) for i in range(len(out_xs) - 1)):
        bad.append(("not-sorted", "output grid is not strictly increasing: %s" % out_xs[:12]))
        return bad
    if out_xs[0] != in_xs[0] or out_xs[-1] != in_xs[-1] or out_levels[0] != 0 or out_levels[-1] != 0:
        bad.append(("boundary-changed", "ends %s/%s levels %s/%s" % (out_xs[0], out_xs[-1], out_levels[0], out_levels[-1])))
    pos = {x: l for x, l in zip(out_xs, out_levels)}
    for x, l in zip(in_xs, in_levels):
        if x not in pos:
            bad.append(("input-point-lost", "input point %r (level %d) missing from the output" % (x, l)))
            break
        if pos[x] != l:
            bad.append(("input-level-changed", "input point %r level %d -> %d" % (x, l, pos[x])))
            break
    ts = ts_of(a, H, out_xs)
    tset = set(ts)
    inset = set(in_xs)
    for x, t, l in zip(out_xs[1:-1], ts[1:-1], out_levels[1:-1]):
        dl = dyadic_level(t)
        if dl != l:
            bad.append(("added-level-not-dyadic" if x not in inset else "input-level-changed",
                        "point %r has level %d in the output, its dyadic level is %d" % (x, l, dl)))
            break
    # zero or two children, (i) by position: children of t at level l are t -/+ 2^-(l+1)
    for x, t in zip(out_xs[1:-1], ts[1:-1]):
        l = dyadic_level(t)
        if l < 1:
            continue
        h = F(1, 2 ** (l + 1))
        if ((t - h) in tset) != ((t + h) in tset):
            bad.append(("one-child", "point %r (level %d) has exactly one child (by position)" % (x, l)))
            break
    # (ii) from the level list alone: in an in-order level list the left/right subtree of i is the maximal block of
    # larger levels next to it, so it is non-empty iff the direct neighbour has a larger level
    for i in range(1, len(out_levels) - 1):
        left = out_levels[i - 1] > out_levels[i]
        right = out_levels[i + 1] > out_levels[i]
        if left != right:
            if not any(c == "one-child" for c, _ in bad):
                bad.append(("one-child", "point %r (level %d) has exactly one child (by level list)" % (out_xs[i], out_levels[i])))
            break
    return bad


# ----------------------------------------------------------------------------------------------------------------
# library drivers
# ----------------------------------------------------------------------------------------------------------------
def _enums():
    from sparseSpACE.Extrapolation import SliceGrouping, SliceVersion, SliceContainerVersion
    return SliceGrouping, SliceVersion, SliceContainerVersion


def make_grid(sg, sv, cv, force):
    from sparseSpACE.Extrapolation import ExtrapolationGrid
    SG, SV, CV = _enums()
    return ExtrapolationGrid(slice_grouping=SG[sg], slice_version=SV[sv], container_version=CV[cv],
                             force_balanced_refinement_tree=force)


def quiet(fn, *a, **kw):
    with contextlib.redirect_stdout(io.StringIO()):
        return fn(*a, **kw)


def observed_containers(eg):
    """[(left, right, number of slices)]; the end points are the caller's own coordinate objects -> Python scalars"""
    left_right = plain([p for c in eg.slice_containers for p in (c.slices[0].left_point, c.slices[-1].right_point)])
    return [(left_right[2 * i], left_right[2 * i + 1], len(c.slices)) for i, c in enumerate(eg.slice_containers)]


# ----------------------------------------------------------------------------------------------------------------
# argument forms and caller-side aliasing
# ----------------------------------------------------------------------------------------------------------------
# (grid form, level form). An ndarray *level* list is outside the accepted domain: every entry point calls
# grid_levels[...].index(min(...)), which only list/tuple provide.
FORM_PAIRS = [["list", "list"], ["tuple", "tuple"], ["list", "list"], ["ndarray", "list"], ["list", "list"],
              ["list-np.float64", "list-np.int64"], ["list", "list"], ["ndarray", "tuple"], ["list", "list-np.int64"],
              ["tuple", "list"]]
MODS = ["none", "insert", "none", "overwrite", "none", "clear", "none", "reverse", "none", "insert"]
MODSUF = "/after-caller-modified-its-list"


def as_form(values, form):
    import numpy as np
    if form == "list":
        return list(values)
    if form == "tuple":
        return tuple(values)
    if form == "ndarray":
        return np.array(values, dtype=float)
    if form == "list-np.float64":
        return [np.float64(v) for v in values]
    if form == "list-np.int64":
        return [np.int64(v) for v in values]
    raise ValueError("harness: unknown form %r" % (form,))


# coordinate element types ("elem"): how the caller spells the numbers of one and the same grid
#   float    Python float / np.float64 (the form the library's own refinement produces)
#   int      every whole-number coordinate is an integer, as one writes [1, 1.5, 2, 2.5, 3] or [0, 1, 2, 4, 8] (the
#            repository tests do): Python int in list/tuple, np.int64 next to np.float64 in a list of numpy scalars,
#            an int64 ndarray if ALL coordinates are whole (NumPy promotes a mixed literal to float64 by itself)
#   int32    as int, with np.int32 in the numpy forms
#   float32  np.float32 scalars / a float32 ndarray (single precision data); only for grids whose coordinates and step
#            widths are float32 numbers of moderate magnitude, see float32_applicable()
ELEMS = ["float", "int", "float", "float32", "int", "float", "int32", "int", "float"]
TOL32 = 1e-4          # relative tolerance for single precision input (the library then computes in single precision)


def float32_applicable(all_xs):
    """single precision spelling is offered only if it describes the SAME grid: every coordinate is a float32 number,
    and cubes of the step widths (Romberg coefficients use h^2, h^3) stay far inside the float32 range"""
    import numpy as np
    flat = [x for xs in all_xs for x in xs]
    if any(float(np.float32(x)) != x for x in flat):
        return False
    steps = [xs[i + 1] - xs[i] for xs in all_xs for i in range(len(xs) - 1)]
    return min(steps) >= 2.0 ** -24 and max(abs(x) for x in flat) <= 2.0 ** 24


def effective_elem(elem, all_xs):
    """element type actually used for a case (pure function of the case): float32 / int32 fall back when they cannot
    represent the grid"""
    if elem == "float32" and not float32_applicable(all_xs):
        return "float"
    if elem == "int32" and max(abs(x) for xs in all_xs for x in xs) >= 2.0 ** 30:
        return "int"
    return elem


def grid_arg(values, form):
    """the coordinates `values` (exact floats) in container form form[0] with element type form[2]"""
    import numpy as np
    gform, elem = form[0], (form[2] if len(form) > 2 else "float")
    if elem == "float":
        return as_form(values, gform)
    if elem == "float32":
        if gform == "ndarray":
            return np.array(values, dtype=np.float32)
        vals = [np.float32(v) for v in values]
        return tuple(vals) if gform == "tuple" else vals
    if elem not in ("int", "int32"):
        raise ValueError("harness: unknown element type %r" % (elem,))
    npint = np.int64 if elem == "int" else np.int32
    whole = [float(v).is_integer() for v in values]
    if gform == "ndarray":
        return np.array([int(v) for v in values], dtype=npint) if all(whole) else np.array(values, dtype=float)
    if gform == "list-np.float64":
        return [npint(int(v)) if w else np.float64(v) for v, w in zip(values, whole)]
    vals = [int(v) if w else v for v, w in zip(values, whole)]
    return tuple(vals) if gform == "tuple" else vals


def coord_type_label(container):
    """what the library is actually handed: container type and the set of element types"""
    import numpy as np
    if isinstance(container, np.ndarray):
        return "ndarray[%s]" % container.dtype.name
    return "%s[%s]" % (type(container).__name__, ",".join(sorted({type(v).__name__ for v in container})))


def is_int_typed(v):
    import numpy as np
    return isinstance(v, (int, np.integer)) and not isinstance(v, bool)


def tol_of(form):
    return TOL32 if len(form) > 2 and form[2] == "float32" else TOL


def plain(container):
    """content of a container as Python scalars"""
    return [v.item() if hasattr(v, "item") else v for v in container]


def floats(seq):
    return [float(x) for x in seq]


def _modify_container(c, mod, idx, new_value, other):
    """the caller changes ITS OWN container in place (what the container type allows)"""
    import numpy as np
    if isinstance(c, tuple):
        return
    if isinstance(c, np.ndarray):          # a work buffer of fixed size: refilled, zeroed or reversed in place
        if mod in ("insert", "overwrite"):
            c[:] = c + (c[-1] - c[0])      # the grid of the neighbouring interval
        elif mod == "clear":
            c[:] = 0.0
        elif mod == "reverse":
            c[:] = c[::-1].copy()
        return
    conv = type(c[0]) if len(c) else float
    if mod == "insert":                    # the next refinement point is inserted in place
        c.insert(idx + 1, conv(new_value))
    elif mod == "overwrite":               # the buffer is refilled with another grid
        c[:] = [conv(v) for v in other]
    elif mod == "clear":
        del c[:]
    elif mod == "reverse":
        c.reverse()


class CallerArgs:
    """the caller's own grid / level containers in a drawn form, with a snapshot of what was given to the library"""

    def __init__(self, xs, levels, form):
        self.form = list(form)
        self.g = grid_arg(xs, form)
        self.l = as_form(levels, form[1])
        self.g0, self.l0 = plain(self.g), plain(self.l)
        self.ints0 = [is_int_typed(v) for v in self.g]     # per grid point: handed over integer-typed?
        self.lab = "%s+%s" % (coord_type_label(self.g), self.form[1])
        self.types = (type(self.g), type(self.l))

    def unmodified(self):
        return (type(self.g), type(self.l)) == self.types and plain(self.g) == self.g0 and plain(self.l) == self.l0

    def modify(self, mod, at, other_xs, other_levels):
        """returns True iff the content of one of the containers changed"""
        if mod == "none":
            return False
        i = at % (len(self.g0) - 1)
        _modify_container(self.g, mod, i, (self.g0[i] + self.g0[i + 1]) / 2, other_xs)
        _modify_container(self.l, mod, i, max(self.l0[i], self.l0[i + 1]) + 1, other_levels)
        return plain(self.g) != self.g0 or plain(self.l) != self.l0

    def label(self):
        return self.lab



def aliasing_params(case, all_xs):
    """(form, mod, when, at); form = [grid container form, level container form, coordinate element type]. all_xs = all
    grids of the case (the element type falls back to one that can spell every grid of the case)"""
    form = list(case.get("form", ["list", "list"]))[:2] + [effective_elem(case.get("elem", "float"), all_xs)]
    return (form, case.get("mod", "none"), case.get("mod_when", "before"), case.get("mod_at", 0))


def draw_aliasing(draw):
    return dict(form=draw(st.sampled_from(FORM_PAIRS)), elem=draw(st.sampled_from(ELEMS)), mod=draw(st.sampled_from(MODS)),
                mod_when=draw(st.sampled_from(["before", "between"])), mod_at=draw(st.integers(0, 40)))


def coord_classes(out, case, form, all_xs):
    """classes of the coordinate spelling: requested/used element type and what the containers really hold"""
    out.cls("coord-elem=%s" % form[2])
    if case.get("elem", "float") != form[2]:
        out.cls("coord-elem-fallback=%s->%s" % (case.get("elem"), form[2]))
    for xs in all_xs:
        g = grid_arg(xs, form)
        out.cls("coord-type=" + coord_type_label(g))
        ints = [is_int_typed(v) for v in g]
        if all(ints):
            out.cls("coords=all-integer-typed")
        elif any(ints):
            out.cls("coords=mixed-int-float")


def int_container_classes(out, args, containers):
    """class: a container with >= 2 slices all of whose points were handed over integer-typed / mixed"""
    ints = args.ints0
    pts = args.g0
    for (left, right, n) in containers:
        if n < 2:
            continue
        inside = [t for x, t in zip(pts, ints) if left <= x <= right]
        if inside and all(inside):
            out.cls("container>=2-slices-all-integer-typed")
        elif any(inside):
            out.cls("container>=2-slices-mixed-int-float")


def aliasing_classes(out, form, mod, when, modified):
    out.cls("arg-form=%s+%s" % tuple(form[:2]))
    if modified:
        out.cls("caller-modified=%s-%s-get_weights" % (mod, when))
    elif mod != "none":
        out.cls("caller-modification-not-possible(immutable)")


def read_back_grid(out, sub, eg, args, xs, levels, modified):
    """grid the weights of a non-forcing ExtrapolationGrid belong to = the grid that was given to set_grid.
    Returns False if get_grid()/get_grid_levels() disagree for a reason other than the (separately signed) cause
    'the object hands out the caller's own list'."""
    got_g, got_l = eg.get_grid(), eg.get_grid_levels()
    if plain(got_g) == xs and plain(got_l) == levels:
        return True
    if modified and (got_g is args.g or got_l is args.l):
        out.bad(sub + "/get-grid-returns-callers-list" + MODSUF,
                "get_grid()/get_grid_levels() return the caller's own container (same object), which the caller has changed "
                "since set_grid: %s instead of the grid given to set_grid %s" % (plain(got_g)[:12], xs[:12]))
        return True
    out.bad(sub + "/grid-changed-without-forcing" + (MODSUF if modified else ""),
            "get_grid()/get_grid_levels() differ from the grid given to set_grid (form %s)" % args.label())
    return False


def call_after_modification(fn, *a):
    """run a library call after the caller changed its containers; returns (value, None) or (None, exception) for an
    exception raised inside sparseSpACE (classified by the caller), re-raises harness exceptions"""
    from vlib.core import classify_exception
    try:
        return quiet(fn, *a), None
    except Exception as e:  # noqa
        kind, frag, text = classify_exception(e)
        if kind != "lib":
            raise
        return None, (e, frag)


def judge_weights(out, sub, w, used_xs, a, H, cfg, containers, tag, suffix="", rtol=TOL):
    """len / sum / linear clauses for one weight vector. cfg = (sg, sv, cv, force).
    Returns 'ok', 'simpson' (deviation explained by the known Simpson cause) or 'bad'."""
    sg, sv, cv, force = cfg
    multi = any(n >= 2 for (_, _, n) in containers)
    where = "%s-%s%s" % (cv.lower(), "grouped" if multi else "unit", suffix)
    desc = "%s grouping=%s slices=%s containers=%s forced=%s a=%r H=%r grid=%s" % (tag, sg, sv, cv, force, a, H, used_xs[:24])
    if len(w) != len(used_xs):
        out.bad("%s/length/%s" % (sub, where), "%d weights for %d grid points; %s" % (len(w), len(used_xs), desc))
        return "bad"
    ts = ts_of(a, H, used_xs)
    dev0, dev1, scale = check_sum_linear(w, ts, H)
    tol = rtol * scale
    simpson = False
    status = "ok"
    if abs(dev0) > tol or abs(dev1) > tol:
        status = "bad"
        p0, p1 = (0.0, 0.0)
        if cv == "SIMPSON_ROMBERG" and multi:
            p0, p1 = simpson_level0_prediction(containers, a, H)
        if (abs(p0) > tol or abs(p1) > tol) and abs(dev0 - p0) <= tol and abs(dev1 - p1) <= tol:
            simpson = True
            status = "simpson"
            if abs(dev0) > tol:
                out.bad("%s/sum/simpson-container-level0-mass" % sub,
                        "sum(w)-(b-a) = %.6g == predicted %.6g (level-0 Simpson term of each grouped container has mass "
                        "2h/3); %s" % (dev0, p0, desc))
            if abs(dev1) > tol:
                out.bad("%s/linear/simpson-container-level0-mass" % sub,
                        "sum(w*(t-1/2)) = %.6g == predicted %.6g; %s" % (dev1, p1, desc))
        else:
            if abs(dev0) > tol:
                out.bad("%s/sum/%s" % (sub, where), "sum(w)-(b-a) = %.6g (tol %.2g, simpson prediction %.6g); containers=%s; %s"
                        % (dev0, tol, p0, containers[:10], desc))
            if abs(dev1) > tol:
                out.bad("%s/linear/%s" % (sub, where), "sum(w*(t-1/2)) = %.6g (tol %.2g, simpson prediction %.6g); containers=%s; %s"
                        % (dev1, tol, p1, containers[:10], desc))
    key = "max_abs_dev_over_H" if rtol == TOL else "max_abs_dev_over_H(float32 input)"
    out.info[key] = max(out.info.get(key, 0.0), 0.0 if simpson else max(abs(dev0), abs(dev1)) / abs(H))
    return status


def all_configs():
    for sg in GROUPINGS:
        for sv in SLICE_VERSIONS:
            for cv in CONTAINER_VERSIONS:
                for force in (False, True):
                    yield sg, sv, cv, force


# ----------------------------------------------------------------------------------------------------------------
# sub: sliced
# ----------------------------------------------------------------------------------------------------------------
def run_sliced(case):
    from sparseSpACE.Function import Polynomial1d
    out = Outcome()
    sub = "sliced"
    a, H = case["a"], case["H"]
    ts = tree_from_splits(case["base"], case["splits"])
    xs, levels = to_grid(a, H, ts)
    ts2 = tree_from_splits(case["base2"], case["splits2"])
    xs2, levels2 = to_grid(a, H, ts2)
    b = xs[-1]
    c0, c1 = case["lin"]
    lin = Polynomial1d([c0, c1])
    lin_exact = float(F(c0) * (F(b) - F(a)) + F(c1) * (F(b) ** 2 - F(a) ** 2) / 2)
    any_multi = any_simpson = added = any_modified = False
    form, mod, when, at = aliasing_params(case, [xs, xs2])
    rtol = tol_of(form)
    f_lin = lambda x: c0 + c1 * x
    for cfg in all_configs():
        sg, sv, cv, force = cfg
        if force and len(xs) < 3:
            continue
        # object A: fresh; the caller keeps (and in a share of the cases changes) the containers it passed
        args = CallerArgs(xs, levels, form)
        eg = make_grid(*cfg)
        quiet(eg.set_grid, args.g, args.l)
        if not args.unmodified():
            out.bad(sub + "/set_grid/caller-argument-modified", "set_grid changed the caller's containers (form %s): %s %s -> %s %s; cfg=%s"
                    % (args.label(), xs[:10], levels[:10], plain(args.g)[:10], plain(args.l)[:10], cfg))
            continue
        modified = when == "before" and args.modify(mod, at, xs2, levels2)
        w = floats(eg.get_weights())
        if when == "between":
            modified = args.modify(mod, at, xs2, levels2)
        any_modified = any_modified or modified
        suffix = MODSUF if modified else ""
        if not force:
            if not read_back_grid(out, sub, eg, args, xs, levels, modified):
                continue
            used, used_levels = xs, levels
        else:
            used, used_levels = plain(eg.get_grid()), plain(eg.get_grid_levels())
            for clause, msg in check_full_tree(used, used_levels, xs, levels, a, H):
                out.bad("%s/forced-%s%s" % (sub, clause, suffix), "%s; cfg=%s input=%s levels=%s" % (msg, cfg, xs, levels))
            if any(v[0].startswith(sub + "/forced-") for v in out.violations):
                continue
            added = added or len(used) > len(xs)
        containers = observed_containers(eg)
        multi = any(n >= 2 for (_, _, n) in containers)
        any_multi = any_multi or (multi and sg != "UNIT" and not force)
        if sg != "UNIT" and not force:
            int_container_classes(out, args, containers)
        status = judge_weights(out, sub, w, used, a, H, cfg, containers, "fresh form=%s caller-mod=%s" % (args.label(), mod if modified else "none"),
                               suffix if when == "before" else "", rtol)
        any_simpson = any_simpson or status == "simpson"
        # the same call again must give the same weights (no hidden state in slices/containers, none in the caller's lists)
        w_again = floats(eg.get_weights()) if (max(levels) <= 16 or modified) else w       # (skipped on deep chains: cost)
        if w_again != w:
            out.bad(sub + "/get-weights-not-repeatable" + suffix, "second get_weights() differs (%d vs %d weights, sums %r vs %r); "
                    "caller-mod=%s form=%s cfg=%s" % (len(w), len(w_again), math.fsum(w), math.fsum(w_again), mod if modified else "none", args.label(), cfg))
        if not args.unmodified() and not modified:
            out.bad(sub + "/get_weights/caller-argument-modified", "get_weights changed the caller's containers (form %s); cfg=%s" % (args.label(), cfg))
        sc = max(abs(H), math.fsum(abs(x) for x in w)) * (abs(c0) + abs(c1) * max(abs(a), abs(b)))
        ref = math.fsum(wi * f_lin(x) for wi, x in zip(w, used)) if len(w) == len(used) else None
        # object B: private copies in the same form; re-used: other grid first (weights computed), then this grid;
        # integrate() must use the new weights; its answers are the reference for object A
        if len(xs2) >= 3 or not force:
            eg2 = make_grid(*cfg)
            quiet(eg2.set_grid, grid_arg(xs2, form), as_form(levels2, form[1]))
            quiet(eg2.integrate, lin)
            quiet(eg2.set_grid, grid_arg(xs, form), as_form(levels, form[1]))
            val = quiet(eg2.integrate, lin)
            w2 = floats(eg2.get_weights())
            if w2 != w:
                if modified:
                    out.bad(sub + "/weights-differ-from-private-copy-object" + MODSUF, "weights of the object whose argument lists the caller "
                            "changed (%s, %s get_weights) differ from an object that was given private copies: %d vs %d weights, sums "
                            "%r vs %r; form=%s cfg=%s" % (mod, when, len(w), len(w2), math.fsum(w), math.fsum(w2), args.label(), cfg))
                else:
                    out.bad(sub + "/reused-object-weights-differ", "weights after set_grid(other); set_grid(this) differ from a "
                            "fresh object; form=%s cfg=%s" % (args.label(), cfg))
            elif ref is not None:
                if abs(float(val) - ref) > rtol * sc:
                    out.bad(sub + "/integrate-differs-from-weights", "integrate(lin)=%r, sum(w*f(x))=%r after re-using the object; "
                            "cfg=%s" % (val, ref, cfg))
                elif status == "ok" and abs(float(val) - lin_exact) > rtol * sc:
                    out.bad(sub + "/integrate-linear", "integrate(%s+%s x)=%r exact %r; cfg=%s" % (c0, c1, val, lin_exact, cfg))
        # object A again: integrate() after the caller changed its lists must still be sum(w*f(x)) on the given grid
        if modified and ref is not None:
            valA, exc = call_after_modification(eg.integrate, lin)
            cur = plain(args.g)
            reads_callers_list = (not force) and (eg.get_grid() is args.g)
            if exc is not None:
                e, frag = exc
                if reads_callers_list and isinstance(e, AssertionError) and frag.endswith(":integrate") and (len(cur) != len(w) or len(cur) < 2):
                    out.bad(sub + "/integrate-reads-callers-list" + MODSUF, "integrate() after the caller %s its list: AssertionError (%s): "
                            "the object holds the caller's list (same object, now %d points) next to %d weights; cfg=%s"
                            % (mod, str(e)[:60], len(cur), len(w), cfg))
                else:
                    out.bad("%s/exception/%s%s" % (sub, frag, MODSUF), "%s: %s; caller-mod=%s cfg=%s" % (type(e).__name__, e, mod, cfg))
            elif abs(float(valA) - ref) > rtol * sc:
                pred = math.fsum(wi * f_lin(x) for wi, x in zip(w, cur)) if len(cur) == len(w) else None
                if reads_callers_list and pred is not None and abs(float(valA) - pred) <= rtol * sc:
                    out.bad(sub + "/integrate-reads-callers-list" + MODSUF, "integrate(lin)=%r after the caller %s its list, sum(w*f(x)) on the grid "
                            "given to set_grid is %r; the value equals sum(w_i*f(callers_list[i]))=%r (the object holds the caller's list, same "
                            "object); cfg=%s" % (valA, mod, ref, pred, cfg))
                else:
                    out.bad(sub + "/integrate" + MODSUF, "integrate(lin)=%r after the caller %s its list, expected %r; cfg=%s" % (valA, mod, ref, cfg))
        # object C: the same grid as plain Python lists of floats (only when another form / element type is in use):
        # two spellings of one grid must give the same weights
        if form != ["list", "list", "float"] and len(w) == len(used):
            eg3 = make_grid(*cfg)
            quiet(eg3.set_grid, list(xs), list(levels))
            w3 = floats(eg3.get_weights())
            tolw = (1e-13 if rtol == TOL else rtol) * max(abs(H), math.fsum(abs(x) for x in w))
            if len(w3) != len(w) or any(abs(x - y) > tolw for x, y in zip(w, w3)):
                out.bad("%s/weights/argument-form=%s" % (sub, args.label()), "weights for the grid passed as %s differ from the weights "
                        "for plain lists of floats: %s vs %s; cfg=%s" % (args.label(), w[:6], w3[:6], cfg))
    aliasing_classes(out, form, mod, when, any_modified)
    coord_classes(out, case, form, [xs, xs2])
    nwidths = distinct_widths(ts)
    runs = equal_width_runs(ts)
    out.nontrivial = nwidths >= 3 and any_multi
    if any_multi:
        out.cls("container>=2-slices")
    if any(r >= 3 and r & (r - 1) for r in runs):
        out.cls("run-not-power-of-2")
    if any(r >= 4 for r in runs):
        out.cls("run>=4")
    if added:
        out.cls("forcing-added-points")
    if any_simpson:
        out.cls("simpson-known-cause-hit")
    if max(levels) >= 8:
        out.cls("depth>=8")
    if len(xs) == 2:
        out.cls("no-inner-point")
    scale_classes(out, case.get("scale", "1"), case.get("offset", "scaled"), max(levels))
    out.info.update(max_points=len(xs), max_depth=max(levels), max_distinct_widths=nwidths)
    return out


def _quantised(x, bits=11):
    """nearest float with a `bits`-bit mantissa: 'about 1e-9' as a short dyadic number, so that the scaled grids stay
    exactly representable (the library compares step widths with ==, a full 53-bit scale cannot be used)."""
    m, e = math.frexp(x)
    return math.ldexp(round(m * 2 ** bits) / 2 ** bits, e)


# domains in unusual units: the interval (length and, in most cases, offset) is multiplied by one of these
SCALES = {"2^-40": 2.0 ** -40, "2^-30": 2.0 ** -30, "1e-9": _quantised(1e-9), "1e-7": _quantised(1e-7),
          "1e-6": _quantised(1e-6), "1e-3": _quantised(1e-3), "1e3": _quantised(1e3), "2^20": 2.0 ** 20}
# 8 of 17 entries are unusual units; interleaved, because sampled_from prefers the front of the list
# + 4 of 21: "whole-numbers" = coordinates counted in cells of the finest (or second/third finest) level, so that all
# (most) grid points are whole numbers - the grids on which integer-typed coordinates are natural
WHOLE = "whole-numbers"
SCALE_LABELS = [x for pair in zip(["2^-30", "1e-9", "2^-40", "1e-7", "2^20", "1e-6", "1e3", "1e-3"], ["1"] * 8) for x in pair] + ["1"]
for _i in (1, 6, 11, 16):
    SCALE_LABELS.insert(_i, WHOLE)
assert sorted(set(SCALE_LABELS) - {"1", WHOLE}) == sorted(SCALES)


def _low_bit(x):
    """exponent of the lowest set bit of the float x (None for 0)"""
    if x == 0:
        return None
    m, e = math.frexp(abs(x))
    n = int(m * 2 ** 53)
    return e - 53 + ((n & -n).bit_length() - 1)


def representable(a, H, depth):
    """True iff every a + H*j/2^depth (0 <= j <= 2^depth) is a float (so are all differences of such points)"""
    lows = [b for b in (_low_bit(a), _low_bit(H) - depth) if b is not None]
    top = max(abs(a), abs(a + H))
    return math.frexp(top)[1] - min(lows) <= 52


def tree_params(draw, tier, depth):
    """interval for a tree of the given depth: (a, H, scale label, offset mode). By construction every grid point is
    exactly representable (checked again in to_grid)."""
    k = draw(st.integers(-32, 32))
    H0 = draw(st.sampled_from([1.0, 1.0, 2.0, 4.0, 0.5, 0.25, 3.0, 0.75, 5.0, 1.5, 7.0, 0.375]))
    label = draw(st.sampled_from(SCALE_LABELS))
    sc = SCALES.get(label, 1.0)
    mode = draw(st.sampled_from(["scaled", "scaled", "scaled", "zero", "unscaled"]))
    if label == WHOLE:
        # length = odd * 2^(depth-j) cells, whole-number offset: every point (j=0) or every point down to level
        # depth-j is a whole number, the deeper ones are halves / quarters
        odd = draw(st.sampled_from([1, 1, 3, 5, 7]))
        j = draw(st.sampled_from([0, 0, 0, 1, 2]))
        a = 0.0 if mode == "zero" else float(k)
        return a, float(odd * 2 ** max(depth - j, 0)), label, ("zero" if a == 0.0 else "whole")
    H = H0 * sc
    candidates = {"scaled": [k / 8.0 * sc, 0.0], "zero": [0.0], "unscaled": [k / 8.0, k / 8.0 * sc, 0.0]}[mode]
    for idx, a in enumerate(candidates):
        if representable(a, H, depth):
            if a == 0.0:
                mode = "zero"
            elif mode == "unscaled" and idx == 1:
                mode = "scaled"
            return a, H, label, mode
    raise ValueError("harness: no representable offset for H=%r depth=%d" % (H, depth))


def depth_of(base, splits):
    return max(dyadic_level(t) for t in tree_from_splits(base, splits))


def chain_splits(draw, tier):
    """one-sided deep refinement on base 0: a single path of 20..31 levels (towards a, towards b, or zig-zag through
    the interior) plus 0..3 arbitrary splits; few points, very different step widths"""
    n = draw(st.integers(20, 31))
    kind = draw(st.sampled_from(["left", "right", "zigzag"]))
    bits = [0] * n if kind == "left" else [1] * n if kind == "right" else draw(st.lists(st.integers(0, 1), min_size=n, max_size=n))
    splits, idx = [0], 0
    for b in bits[1:]:
        idx += b
        splits.append(idx)
    return splits + draw(st.lists(st.integers(0, 63), min_size=0, max_size=3))


def splits_strategy(tier, lo=0):
    hi = 20 if tier == "quick" else 30
    # wide indices spread the splits over the tree, narrow indices nest them (deep chains at the left end,
    # long runs of equal widths to their right)
    return st.one_of(st.lists(st.integers(0, 63), min_size=lo, max_size=hi),
                     st.lists(st.integers(0, 63), min_size=lo, max_size=hi),
                     st.lists(st.integers(0, 3), min_size=lo, max_size=hi))


def base_and_splits(draw, tier, bases, chain_share=8):
    """(base, splits): one in `chain_share` draws is a one-sided deep tree"""
    if draw(st.integers(0, chain_share - 1)) == 0:
        return 0, chain_splits(draw, tier)
    return draw(st.sampled_from(bases)), draw(splits_strategy(tier))


def scale_classes(out, label, mode, max_level):
    out.cls("domain-scale=" + label, "offset=" + mode)
    if max_level >= 27:
        out.cls("max-level>=27")


def sliced_strategy(tier):
    @st.composite
    def s(draw):
        base, splits = base_and_splits(draw, tier, [0, 0, 1, 1, 2, 3])
        base2 = draw(st.integers(0, 2))
        splits2 = draw(st.lists(st.integers(0, 63), min_size=0, max_size=6))
        a, H, label, mode = tree_params(draw, tier, max(depth_of(base, splits), depth_of(base2, splits2)))
        lin = [draw(st.integers(-3, 3)), draw(st.sampled_from([1, -2, 3, 0.5]))]
        case = dict(a=a, H=H, scale=label, offset=mode, base=base, splits=splits, base2=base2, splits2=splits2, lin=lin)
        case.update(draw_aliasing(draw))
        return case
    return s()


def sliced_fixed():
    # the 5-point grid of the repository tests, the grid of F-C11 in DESIGN.md, [a,b] alone, a run of 3 / 5 / 7 slices
    return [
        dict(a=0.0, H=1.0, base=1, splits=[1, 1], base2=0, splits2=[], lin=[1, 2]),
        dict(a=2.0, H=1.0, base=1, splits=[0, 0], base2=1, splits2=[1], lin=[1, 2]),
        dict(a=-1.0, H=4.0, base=0, splits=[], base2=2, splits2=[], lin=[0, 1]),
        dict(a=1.0, H=2.0, base=2, splits=[3], base2=0, splits2=[0], lin=[2, -2]),
        dict(a=1.0, H=2.0, base=3, splits=[0, 8, 9], base2=3, splits2=[], lin=[2, 3]),
        dict(a=0.0, H=1.0, base=3, splits=[7], base2=1, splits2=[], lin=[-1, 1]),
        # unusual magnitudes: refinement towards a down to level 30 on [0,1]; a depth-2 grid on [0,2^-30], on [1,1+2^-30]
        # and on [3e6, 5e6]
        dict(a=0.0, H=1.0, scale="1", offset="zero", base=0, splits=[0] * 30, base2=1, splits2=[], lin=[1, 2]),
        dict(a=0.0, H=2.0 ** -30, scale="2^-30", offset="zero", base=2, splits=[], base2=1, splits2=[], lin=[1, 2]),
        dict(a=1.0, H=2.0 ** -30, scale="2^-30", offset="unscaled", base=2, splits=[1], base2=1, splits2=[], lin=[1, 2]),
        dict(a=3.0 * 2 ** 20, H=2.0 ** 21, scale="2^20", offset="scaled", base=2, splits=[1], base2=1, splits2=[], lin=[1, 2]),
        # the spellings of the repository tests, [1, 1.5, 2, 2.5, 3] and [1, 2, 2.25, 2.5, 3] (whole numbers as ints), an
        # all-whole adaptive grid [2, 3, 4, 6, 10] as ints / int64 array / float32 array, a complete one on [-4, 4]
        dict(a=1.0, H=2.0, base=2, splits=[], base2=1, splits2=[], lin=[1, 2], elem="int"),
        dict(a=1.0, H=2.0, base=1, splits=[1, 1], base2=1, splits2=[], lin=[1, 2], elem="int", form=["tuple", "tuple"]),
        dict(a=2.0, H=8.0, scale=WHOLE, offset="whole", base=1, splits=[0, 0], base2=1, splits2=[], lin=[1, 2], elem="int"),
        dict(a=2.0, H=8.0, scale=WHOLE, offset="whole", base=1, splits=[0, 0], base2=1, splits2=[], lin=[1, 2], elem="int", form=["ndarray", "list"]),
        dict(a=2.0, H=8.0, scale=WHOLE, offset="whole", base=1, splits=[0, 0], base2=1, splits2=[], lin=[1, 2], elem="float32", form=["ndarray", "list"]),
        dict(a=-4.0, H=8.0, scale=WHOLE, offset="whole", base=3, splits=[], base2=2, splits2=[], lin=[-1, 3], elem="int32", form=["list-np.float64", "list-np.int64"]),
    ]


# ----------------------------------------------------------------------------------------------------------------
# sub: complete
# ----------------------------------------------------------------------------------------------------------------
def balanced_weights(out, sub, xs, levels, case, other_xs, other_levels, all_xs=None):
    """weights of BalancedExtrapolationGrid for the grid (xs, levels) from an object that was given private copies (the
    reference, judged by the callers' oracles); a second object is given containers which the caller keeps using."""
    from sparseSpACE.Extrapolation import BalancedExtrapolationGrid
    form, mod, when, at = aliasing_params(case, all_xs or [xs, other_xs])
    ref_obj = BalancedExtrapolationGrid()
    quiet(ref_obj.set_grid, grid_arg(xs, form), as_form(levels, form[1]))
    w_ref = floats(ref_obj.get_weights())
    args = CallerArgs(xs, levels, form)
    bg = BalancedExtrapolationGrid()
    quiet(bg.set_grid, args.g, args.l)
    if not args.unmodified():
        out.bad(sub + "/set_grid/caller-argument-modified", "BalancedExtrapolationGrid.set_grid changed the caller's containers (form %s)" % args.label())
        return w_ref, False
    modified = when == "before" and args.modify(mod, at, other_xs, other_levels)
    answers = [call_after_modification(bg.get_weights)]
    if when == "between":
        modified = args.modify(mod, at, other_xs, other_levels)
        answers.append(call_after_modification(bg.get_weights))
    suffix = MODSUF if modified else ""
    refmap = dict(zip(xs, w_ref))
    for i, (w, exc) in enumerate(answers):
        after_mod = modified and (when == "before" or i == 1)
        if exc is not None:
            e, frag = exc
            out.bad("%s/exception/%s%s" % (sub, frag, suffix if after_mod else ""), "%s: %s (balanced get_weights, caller-mod=%s)" % (type(e).__name__, e, mod))
            continue
        w = floats(w)
        if w == w_ref:
            continue
        if after_mod and len(w_ref) == len(xs) and w == [refmap.get(p, 0.0) for p in plain(args.g)]:
            out.bad(sub + "/weights-follow-callers-list" + MODSUF, "BalancedExtrapolationGrid.get_weights() after the caller %s its list: "
                    "%d weights (sum %r) = [weight of p if p was in the given grid else 0 for p in the caller's CURRENT list]; the "
                    "grid given to set_grid has %d points, weight sum %r" % (mod, len(w), math.fsum(w), len(xs), math.fsum(w_ref)))
        else:
            out.bad(sub + "/weights-differ-from-private-copy-object" + (suffix if after_mod else ""), "balanced weights differ from an object "
                    "that was given private copies: %s vs %s (form %s, caller-mod=%s)" % (w[:6], w_ref[:6], args.label(), mod if after_mod else "none"))
    if not modified and not args.unmodified():
        out.bad(sub + "/get_weights/caller-argument-modified", "BalancedExtrapolationGrid.get_weights changed the caller's containers")
    if form != ["list", "list", "float"]:
        plain_obj = BalancedExtrapolationGrid()
        quiet(plain_obj.set_grid, list(xs), list(levels))
        w3 = floats(plain_obj.get_weights())
        tolw = (1e-13 if form[2] != "float32" else TOL32) * max(abs(xs[-1] - xs[0]), math.fsum(abs(x) for x in w_ref))
        if len(w3) != len(w_ref) or any(abs(x - y) > tolw for x, y in zip(w_ref, w3)):
            out.bad("%s/weights/argument-form=%s" % (sub, args.label()), "balanced weights for the grid passed as %s differ from the weights "
                    "for plain lists of floats: %s vs %s" % (args.label(), w_ref[:6], w3[:6]))
    return w_ref, modified


def default_romberg_effective(sg, sv, cv):
    return (sg == "UNIT" and sv == "ROMBERG_DEFAULT") or (sg != "UNIT" and cv == "ROMBERG_DEFAULT")


def run_complete(case):
    out = Outcome()
    sub = "complete"
    a, H, m = case["a"], case["H"], case["m"]
    ts = complete_ts(m)
    xs, levels = to_grid(a, H, ts)
    worst = 0.0
    other_xs, other_levels = to_grid(a, H, complete_ts(m + 1))      # what the caller refills its buffers with
    form, mod, when, at = aliasing_params(case, [xs, other_xs])
    rtol = tol_of(form)
    any_modified = False
    for cfg in all_configs():
        sg, sv, cv, force = cfg
        args = CallerArgs(xs, levels, form)
        eg = make_grid(*cfg)
        quiet(eg.set_grid, args.g, args.l)
        if not args.unmodified():
            out.bad(sub + "/set_grid/caller-argument-modified", "set_grid changed the caller's containers (form %s); cfg=%s" % (args.label(), cfg))
            continue
        modified = when == "before" and args.modify(mod, at, other_xs, other_levels)
        w = floats(eg.get_weights())
        suffix = MODSUF if modified else ""
        if when == "between":
            modified = args.modify(mod, at, other_xs, other_levels)
            if modified and floats(eg.get_weights()) != w:
                out.bad(sub + "/get-weights-not-repeatable" + MODSUF, "second get_weights() differs after the caller %s its list; cfg=%s" % (mod, cfg))
        any_modified = any_modified or modified
        changed = False
        if not force:
            if not read_back_grid(out, sub, eg, args, xs, levels, modified):
                continue
            used = xs
        else:
            used = plain(eg.get_grid())
            changed = used != xs or plain(eg.get_grid_levels()) != levels
        if changed:
            # forcing may only add points; the degree clause speaks about the complete grid, so it is skipped then
            out.cls("forcing-changed-a-complete-grid")
            bad_tree = check_full_tree(used, plain(eg.get_grid_levels()), xs, levels, a, H)
            for clause, msg in bad_tree:
                out.bad("%s/forced-%s%s" % (sub, clause, suffix), "%s; cfg=%s" % (msg, cfg))
            if bad_tree:
                continue
        containers = observed_containers(eg)
        if sg != "UNIT" and not force:
            int_container_classes(out, args, containers)
        status = judge_weights(out, sub, w, used, a, H, cfg, containers, "complete m=%d form=%s caller-mod=%s" % (m, args.label(), mod if suffix else "none"), suffix, rtol)
        if changed or len(w) != len(xs) or not default_romberg_effective(sg, sv, cv):
            continue
        for k, basis, err, scale in moment_errors([float(x) for x in w], ts, H, 2 * m + 1):
            worst = max(worst, err / scale)
            if err > rtol * scale:
                out.bad("%s/degree/sliced-%s%s" % (sub, "grouped" if sg != "UNIT" else "unit", suffix),
                        "depth m=%d grouping=%s slices=%s containers=%s forced=%s form=%s: monomial %s^%d (<= 2m+1=%d) error %.3g "
                        "(tol %.2g) on [%r,%r]" % (m, sg, sv, cv, force, args.label(), basis, k, 2 * m + 1, err, rtol * scale, a, a + H))
                break
    w, bal_modified = balanced_weights(out, sub, xs, levels, case, other_xs, other_levels)
    aliasing_classes(out, form, mod, when, any_modified or bal_modified)
    coord_classes(out, case, form, [xs])
    if len(w) != len(xs):
        out.bad(sub + "/length/balanced", "%d weights for %d points" % (len(w), len(xs)))
    else:
        for k, basis, err, scale in moment_errors(w, ts, H, 2 * m - 1):
            worst = max(worst, err / scale)
            if err > rtol * scale:
                out.bad("%s/degree/balanced" % sub, "depth m=%d balanced grid: monomial %s^%d (<= 2m-1=%d) error %.3g (tol %.2g) on "
                        "[%r,%r]" % (m, basis, k, 2 * m - 1, err, rtol * scale, a, a + H))
                break
    out.nontrivial = m >= 2
    out.cls("m=%d" % m)
    scale_classes(out, case.get("scale", "1"), case.get("offset", "scaled"), m)
    out.info.update({"max_depth": m, "max_rel_moment_error" if rtol == TOL else "max_rel_moment_error(float32 input)": worst})
    return out


def complete_strategy(tier):
    @st.composite
    def s(draw):
        m = draw(st.integers(1, 6 if tier == "quick" else 7))
        a, H, label, mode = tree_params(draw, tier, m + 1)
        case = dict(a=a, H=H, scale=label, offset=mode, m=m)
        case.update(draw_aliasing(draw))
        return case
    return s()


def complete_fixed():
    return [dict(a=a, H=H, m=m) for (a, H) in [(0.0, 1.0), (1.0, 2.0), (-2.5, 0.75)] for m in range(1, 7)] + \
           [dict(a=a, H=H, scale=lab, offset=mode, m=m)
            for (a, H, lab, mode) in [(0.0, 2.0 ** -30, "2^-30", "zero"), (1.0, 2.0 ** -30, "2^-30", "unscaled"),
                                      (-3.0 * 2.0 ** -40, 2.0 ** -40, "2^-40", "scaled"), (2.0 ** 20, 3.0 * 2 ** 20, "2^20", "scaled")]
            for m in (2, 4, 6)] + \
           [dict(a=a, H=H, scale=WHOLE, offset=mode, m=m, elem=elem, form=form)
            for (a, H, mode) in [(0.0, 64.0, "zero"), (-5.0, 3.0 * 32, "whole")]
            for (elem, form) in [("int", ["list", "list"]), ("int", ["ndarray", "tuple"]), ("float32", ["list", "list"])]
            for m in (2, 3, 5)]


# ----------------------------------------------------------------------------------------------------------------
# sub: balanced
# ----------------------------------------------------------------------------------------------------------------
def run_balanced(case):
    from sparseSpACE.Extrapolation import GridBinaryTree
    from sparseSpACE.Grid import GlobalBalancedRombergGrid
    out = Outcome()
    sub = "balanced"
    a, H = case["a"], case["H"]
    if case["source"] == "both-children":
        ts = balanced_tree_from_splits(case["splits"])
        xs, levels = to_grid(a, H, ts)
    else:  # output of the library's forced balancing of an arbitrary tree (judged by sub bintree); used as a generator
        ts0 = tree_from_splits(case["base"], case["splits"])
        xs0, levels0 = to_grid(a, H, ts0)
        tree = GridBinaryTree()
        quiet(tree.init_tree, list(xs0), list(levels0))
        quiet(tree.force_full_tree_invariant)
        xs, levels = plain(tree.get_grid()), plain(tree.get_grid_levels())
        if check_full_tree(xs, levels, xs0, levels0, a, H):
            out.cls("forced-tree-invalid(skipped)")   # reported by sub bintree, not here
            return out
        ts = ts_of(a, H, xs)
    other_xs, other_levels = to_grid(a, H, complete_ts(2))
    a2, H2 = case["a2"], case["H2"]
    xs_b, _ = to_grid(a2, H2, ts)
    all_xs = [xs, other_xs, xs_b]
    form, mod, when, at = aliasing_params(case, all_xs)
    rtol = tol_of(form)
    w, modified = balanced_weights(out, sub, xs, levels, case, other_xs, other_levels, all_xs)
    aliasing_classes(out, form, mod, when, modified)
    coord_classes(out, case, form, [xs, xs_b])
    desc = "a=%r H=%r grid=%s levels=%s" % (a, H, xs[:30], levels[:30])
    if len(w) != len(xs):
        out.bad(sub + "/length/balanced", "%d weights for %d points; %s" % (len(w), len(xs), desc))
        return out
    dev0, dev1, scale = check_sum_linear(w, ts, H)
    if abs(dev0) > rtol * scale:
        out.bad(sub + "/sum/balanced", "sum(w)-(b-a)=%.6g (tol %.2g); form=%s %s" % (dev0, rtol * scale, form, desc))
    if abs(dev1) > rtol * scale:
        out.bad(sub + "/linear/balanced", "sum(w*(t-1/2))=%.6g (tol %.2g); form=%s %s" % (dev1, rtol * scale, form, desc))
    key = "max_abs_dev_over_H" if rtol == TOL else "max_abs_dev_over_H(float32 input)"
    out.info[key] = max(abs(dev0), abs(dev1)) / abs(H)
    # global wrapper (no boundary): inner weights of every dimension equal the direct ones; second dimension is another interval
    gg = GlobalBalancedRombergGrid([a, a2], [a + H, a2 + H2], boundary=False)
    gargs = [CallerArgs(xs, levels, form), CallerArgs(xs_b, levels, form)]
    quiet(gg.set_grid, [g.g for g in gargs], [g.l for g in gargs])
    if not all(g.unmodified() for g in gargs):
        out.bad(sub + "/set_grid/caller-argument-modified", "GlobalBalancedRombergGrid.set_grid changed the caller's containers (form %s)" % gargs[0].label())
    for d, (xx, aa, HH) in enumerate([(xs, a, H), (xs_b, a2, H2)]):
        wd = [float(x) for x in gg.weights[d]]
        if len(wd) != len(xx) - 2 or plain(gg.coordinate_array[d]) != xx[1:-1]:
            out.bad(sub + "/length/global-balanced", "dimension %d: %d weights for %d inner points" % (d, len(wd), len(xx) - 2))
            continue
        dev0, dev1, scale = check_sum_linear(wd, ts[1:-1], HH)
        if abs(dev0) > rtol * scale:
            out.bad(sub + "/sum/global-balanced", "dimension %d sum(w)-(b-a)=%.6g; a=%r H=%r" % (d, dev0, aa, HH))
        if abs(dev1) > rtol * scale:
            out.bad(sub + "/linear/global-balanced", "dimension %d sum(w*(t-1/2))=%.6g; a=%r H=%r" % (d, dev1, aa, HH))
    nw = distinct_widths(ts)
    out.nontrivial = nw >= 3 and len(xs) >= 7
    out.cls("source=" + case["source"])
    scale_classes(out, case.get("scale", "1"), case.get("offset", "scaled"), max(levels))
    out.cls("domain-scale=" + case.get("scale2", "1"))
    if max(levels) >= 5:
        out.cls("depth>=5")
    complete = len(xs) == 2 ** max(levels) + 1
    out.cls("complete" if complete else "adaptive")
    out.info.update(max_points=len(xs), max_depth=max(levels))
    return out


def balanced_strategy(tier):
    @st.composite
    def s(draw):
        source = draw(st.sampled_from(["both-children", "both-children", "forced"]))
        if source == "both-children":
            # narrow indices keep refining the leftmost leaves: a one-sided balanced tree of depth up to 29
            splits = draw(st.one_of(st.lists(st.integers(0, 63), min_size=0, max_size=14 if tier == "quick" else 24),
                                    st.lists(st.integers(0, 63), min_size=0, max_size=14 if tier == "quick" else 24),
                                    st.lists(st.integers(0, 1), min_size=16, max_size=28)))
            depth = max(dyadic_level(t) for t in balanced_tree_from_splits(splits))
            case = dict(source=source, splits=splits)
        else:
            base, splits = base_and_splits(draw, tier, [1, 2, 3])
            if base == 0:
                base = 1        # the forced source needs an inner point; a chain on base 1 is still one-sided
            depth = depth_of(base, splits) + 1          # forcing adds siblings, never deeper than the deepest input level
            case = dict(source=source, base=base, splits=splits)
        a, H, label, mode = tree_params(draw, tier, depth)
        a2, H2, label2, mode2 = tree_params(draw, tier, depth)
        case.update(a=a, H=H, a2=a2, H2=H2, scale=label, offset=mode, scale2=label2)
        case.update(draw_aliasing(draw))
        return case
    return s()


def balanced_fixed():
    return [
        dict(a=0.0, H=1.0, a2=1.0, H2=2.0, source="both-children", splits=[]),
        dict(a=0.0, H=1.0, a2=1.0, H2=2.0, source="both-children", splits=[0, 0]),     # grid of the repository test
        dict(a=0.0, H=1.0, a2=-1.0, H2=0.5, source="both-children", splits=[0, 0, 1, 2, 3]),
        dict(a=0.0, H=1.0, a2=-1.0, H2=0.5, source="forced", base=1, splits=[1, 1]),
    ]


# ----------------------------------------------------------------------------------------------------------------
# sub: bintree
# ----------------------------------------------------------------------------------------------------------------
def run_bintree(case):
    from sparseSpACE.Extrapolation import GridBinaryTree
    out = Outcome()
    sub = "bintree"
    a, H = case["a"], case["H"]
    trees = []
    for base, splits in ((case["base2"], case["splits2"]), (case["base"], case["splits"])):
        ts = tree_from_splits(base, splits)
        trees.append((ts,) + to_grid(a, H, ts))
    added = modified = False
    form, mod, when, at = aliasing_params(case, [t[1] for t in trees])
    for idx, (ts, xs, levels) in enumerate(trees):     # the singleton is re-used: other tree first, then this one
        tree = GridBinaryTree()
        args = CallerArgs(xs, levels, form)
        quiet(tree.init_tree, args.g, args.l)
        if not args.unmodified():
            out.bad(sub + "/init_tree/caller-argument-modified", "init_tree changed the caller's containers (form %s)" % args.label())
            continue
        g0, l0 = plain(tree.get_grid()), plain(tree.get_grid_levels())
        if g0 != xs or l0 != levels:
            out.cls("init_tree-changed-the-grid")       # not a clause of the statement by itself; judged after forcing
        suffix = ""
        if idx == 1 and when == "before":               # the caller goes on using its lists before the tree is completed
            modified = args.modify(mod, at, trees[0][1], trees[0][2])
            suffix = MODSUF if modified else ""
        quiet(tree.force_full_tree_invariant)
        g1, l1 = plain(tree.get_grid()), plain(tree.get_grid_levels())
        if idx == 1 and when == "between":
            modified = args.modify(mod, at, trees[0][1], trees[0][2])
            suffix = MODSUF if modified else ""
            if modified and (plain(tree.get_grid()) != g1 or plain(tree.get_grid_levels()) != l1):
                out.bad(sub + "/get-grid-not-repeatable" + MODSUF, "get_grid()/get_grid_levels() of the completed tree changed after "
                        "the caller %s its list" % mod)
        if not modified and not args.unmodified():
            out.bad(sub + "/force_full_tree_invariant/caller-argument-modified", "forcing changed the caller's containers (form %s): %s -> %s"
                    % (args.label(), xs, plain(args.g)))
        for clause, msg in check_full_tree(g1, l1, xs, levels, a, H):
            out.bad("%s/forced-%s%s" % (sub, clause, suffix), "%s; input=%s levels=%s output=%s levels=%s" % (msg, xs, levels, g1, l1))
        if out.violations:
            continue
        if idx == 1:
            added = len(g1) > len(xs)
            out.info.update(max_points=len(xs), max_added=len(g1) - len(xs), max_depth=max(levels))
    ts, xs, levels = trees[1]
    out.nontrivial = added and max(levels) >= 3
    if added:
        out.cls("forcing-added-points")
    else:
        out.cls("already-full")
    if max(levels) >= 8:
        out.cls("depth>=8")
    scale_classes(out, case.get("scale", "1"), case.get("offset", "scaled"), max(levels))
    aliasing_classes(out, form, mod, when, modified)
    coord_classes(out, case, form, [t[1] for t in trees])
    return out


def bintree_strategy(tier):
    @st.composite
    def s(draw):
        base, splits = base_and_splits(draw, tier, [1, 1, 1, 2, 3])
        if base == 0:
            base = 1
        base2 = draw(st.integers(1, 2))
        splits2 = draw(st.lists(st.integers(0, 63), min_size=0, max_size=8))
        a, H, label, mode = tree_params(draw, tier, max(depth_of(base, splits), depth_of(base2, splits2)) + 1)
        case = dict(a=a, H=H, scale=label, offset=mode, base=base, splits=splits, base2=base2, splits2=splits2)
        case.update(draw_aliasing(draw))
        return case
    return s()


def bintree_fixed():
    # the four grids of test_BinaryTreeGrid.py
    return [
        dict(a=0.0, H=1.0, base=1, splits=[0], base2=1, splits2=[]),
        dict(a=0.0, H=1.0, base=1, splits=[0, 0, 2], base2=1, splits2=[1]),
        dict(a=0.0, H=1.0, base=1, splits=[0, 1], base2=1, splits2=[]),
        dict(a=0.0, H=1.0, base=1, splits=[0, 0, 2, 3], base2=2, splits2=[0]),
    ]


# ----------------------------------------------------------------------------------------------------------------
# sub: global
# ----------------------------------------------------------------------------------------------------------------
def run_global(case):
    from sparseSpACE.Grid import GlobalRombergGrid
    SG, SV, CV = _enums()
    out = Outcome()
    sub = "global"
    sg, sv, cv = case["cfg"]
    dims = case["dims"]          # list of dict(a, H, trees=[[base, splits], ...])  (one tree per grid set)
    dim = len(dims)
    nsets = len(dims[0]["trees"])
    grid = GlobalRombergGrid(a=[d["a"] for d in dims], b=[d["a"] + d["H"] for d in dims], boundary=True,
                             modified_basis=False, do_cache=case["do_cache"], slice_grouping=SG[sg],
                             slice_version=SV[sv], container_version=CV[cv])
    sets = []
    for k in range(nsets):
        pts, lvs, tss = [], [], []
        for d in dims:
            base, splits = d["trees"][k]
            ts = tree_from_splits(base, splits)
            xs, levels = to_grid(d["a"], d["H"], ts)
            pts.append(xs)
            lvs.append(levels)
            tss.append(ts)
        sets.append((pts, lvs, tss))
    first = {}
    any_multi = any_simpson = repeated = any_modified = False
    all_xs = [xs for (pts, _, _) in sets for xs in pts]
    form, mod, when, at = aliasing_params(case, all_xs)
    rtol = tol_of(form)
    nw = 0
    for step, k in enumerate(case["seq"]):
        k = k % nsets
        pts, lvs, tss = sets[k]
        if case["reset_between"]:
            grid.initialize_grid()
        gargs = [CallerArgs(pts[d], lvs[d], form) for d in range(dim)]
        quiet(grid.set_grid, [g.g for g in gargs], [g.l for g in gargs])
        if not all(g.unmodified() for g in gargs):
            out.bad(sub + "/set_grid/caller-argument-modified", "GlobalRombergGrid.set_grid changed the caller's containers (form %s)" % gargs[0].label())
            break
        coords_ok = [plain(grid.coordinate_array[d]) == pts[d] for d in range(dim)]
        # the caller re-uses its buffers (next refinement step / next grid) before it reads the weights
        other = sets[(k + 1) % nsets]
        modified = [gargs[d].modify(mod, at, other[0][d], other[1][d]) for d in range(dim)]
        any_modified = any_modified or any(modified)
        for d in range(dim):
            w = [float(x) for x in grid.weights[d]]
            suffix = MODSUF if modified[d] else ""
            if not coords_ok[d]:
                out.bad(sub + "/coordinates-changed", "step %d dim %d" % (step, d))
                continue
            eg = make_grid(sg, sv, cv, False)          # fresh, uncached reference for container structure and weights
            quiet(eg.set_grid, grid_arg(pts[d], form), as_form(lvs[d], form[1]))
            containers = observed_containers(eg)
            if sg != "UNIT":
                int_container_classes(out, gargs[d], containers)
            any_multi = any_multi or any(n >= 2 for (_, _, n) in containers)
            nw = max(nw, distinct_widths(tss[d]))
            status = judge_weights(out, sub, w, pts[d], dims[d]["a"], dims[d]["H"], (sg, sv, cv, False), containers,
                                    "global step %d dim %d do_cache=%s form=%s" % (step, d, case["do_cache"], gargs[d].label()), suffix, rtol)
            any_simpson = any_simpson or status == "simpson"
            fresh = [float(x) for x in eg.get_weights()]
            if w != fresh:
                out.bad(sub + "/cached-differs-from-uncached" + suffix, "step %d (grid set %d) dim %d: weights from GlobalRombergGrid(do_cache=%s) "
                        "differ from a fresh ExtrapolationGrid: %s vs %s; grid=%s" % (step, k, d, case["do_cache"], w[:8], fresh[:8], pts[d][:16]))
            key = (k, d)
            if key in first:
                repeated = True
                if first[key] != w:
                    out.bad(sub + "/same-grid-twice-differs" + suffix, "step %d (grid set %d) dim %d: weights differ from the first time" % (step, k, d))
            else:
                first[key] = w
    out.nontrivial = nw >= 3 and any_multi and repeated
    out.cls("dim=%d" % dim, "cache=%s" % case["do_cache"])
    aliasing_classes(out, form, mod, when, any_modified)
    coord_classes(out, case, form, all_xs)
    for d in range(dim):
        scale_classes(out, dims[d].get("scale", "1"), dims[d].get("offset", "scaled"),
                      max(max(lv[d]) for (_, lv, _) in sets))
    if repeated:
        out.cls("key-repeated")
    if any_simpson:
        out.cls("simpson-known-cause-hit")
    if any_multi:
        out.cls("container>=2-slices")
    return out


def global_strategy(tier):
    @st.composite
    def s(draw):
        dim = draw(st.integers(1, 3))
        nsets = draw(st.integers(1, 3))
        cfg = [draw(st.sampled_from(["GROUPED", "GROUPED_OPTIMIZED", "UNIT"])),
               draw(st.sampled_from(SLICE_VERSIONS)), draw(st.sampled_from(CONTAINER_VERSIONS))]
        dims = []
        def one_tree():
            if draw(st.integers(0, 7)) == 0:
                return [0, chain_splits(draw, tier)]
            return [draw(st.integers(0, 3)), draw(st.lists(st.integers(0, 63), min_size=0, max_size=12))]
        shared = [one_tree() for _ in range(nsets)]
        for d in range(dim):
            trees = []
            for k in range(nsets):
                # dimensions frequently share the tree *shape* (same level list) on different intervals
                if d > 0 and draw(st.booleans()):
                    trees.append(shared[k])
                elif d == 0:
                    trees.append(shared[k])
                else:
                    trees.append(one_tree())
            a, H, label, mode = tree_params(draw, tier, max(depth_of(b, sp) for b, sp in trees))
            dims.append(dict(a=a, H=H, scale=label, offset=mode, trees=trees))
        seq = draw(st.lists(st.integers(0, 2), min_size=2, max_size=6))
        case = dict(cfg=cfg, dims=dims, seq=seq, do_cache=draw(st.sampled_from([True, True, False])),
                    reset_between=draw(st.booleans()))
        case.update(draw_aliasing(draw))
        return case
    return s()


def global_fixed():
    return [dict(cfg=["GROUPED", "ROMBERG_DEFAULT", "ROMBERG_DEFAULT"], do_cache=True, reset_between=False, seq=[0, 1, 0, 1],
                 dims=[dict(a=0.0, H=1.0, trees=[[1, [1, 1]], [2, [0]]]), dict(a=2.0, H=4.0, trees=[[1, [1, 1]], [2, [3]]])])]


# ----------------------------------------------------------------------------------------------------------------
# oracle self test
# ----------------------------------------------------------------------------------------------------------------
def selftest():
    # dyadic levels and tree construction
    ts = tree_from_splits(1, [1, 1])
    assert ts == [F(0), F(1, 2), F(5, 8), F(3, 4), F(1)], ts
    assert [dyadic_level(t) for t in ts] == [0, 1, 3, 2, 0]
    assert to_grid(0.0, 1.0, ts) == ([0, 0.5, 0.625, 0.75, 1], [0, 1, 3, 2, 0])
    assert balanced_tree_from_splits([0, 0]) == [F(0), F(1, 8), F(1, 4), F(3, 8), F(1, 2), F(3, 4), F(1)]
    assert dyadic_level(F(1, 3)) == -1
    assert equal_width_runs(complete_ts(2)) == [4] and equal_width_runs(ts) == [1, 2, 1]
    # coordinate spellings: same values, the intended element types
    import numpy as np
    vals = [1.0, 1.5, 2.0, 2.5, 3.0]
    g = grid_arg(vals, ["list", "list", "int"])
    assert g == vals and [type(v) for v in g] == [int, float, int, float, int] and coord_type_label(g) == "list[float,int]"
    g = grid_arg([0.0, 1.0, 2.0, 4.0, 8.0], ["ndarray", "list", "int"])
    assert g.dtype == np.int64 and coord_type_label(g) == "ndarray[int64]" and plain(g) == [0, 1, 2, 4, 8]
    assert grid_arg(vals, ["ndarray", "list", "int"]).dtype == np.float64
    g = grid_arg(vals, ["list-np.float64", "list", "int32"])
    assert [type(v) for v in g] == [np.int32, np.float64, np.int32, np.float64, np.int32] and plain(g) == vals
    g = grid_arg(vals, ["tuple", "list", "float32"])
    assert isinstance(g, tuple) and {type(v) for v in g} == {np.float32} and plain(g) == vals
    assert [type(v) for v in grid_arg(vals, ["list", "list", "float"])] == [float] * 5
    assert float32_applicable([vals]) and not float32_applicable([[0.0, 2.0 ** -30, 2.0 ** -29]]) and not float32_applicable([[1.0, 1.0 + 2.0 ** -30, 1.0 + 2.0 ** -29]])
    assert effective_elem("float32", [[0.0, 2.0 ** -30, 2.0 ** -29]]) == "float" and effective_elem("int32", [[0.0, 2.0 ** 31]]) == "int"
    assert CallerArgs([0.0, 1.0, 1.5, 2.0], [0, 2, 3, 1], ["list", "list", "int"]).ints0 == [True, True, False, True]
    # closed forms: trapezoid on [0,1] is exact to degree 1, Simpson (= Romberg depth 1) to degree 3, not 4
    H = 2.0
    trap = [1.0, 1.0]
    e = moment_errors(trap, [F(0), F(1)], H, 2)
    assert all(err < 1e-15 for k, b, err, s in e if k <= 1) and any(err > 0.1 for k, b, err, s in e if k == 2)
    simp = [H / 6, 4 * H / 6, H / 6]
    e = moment_errors(simp, complete_ts(1), H, 4)
    assert all(err < 1e-15 for k, b, err, s in e if k <= 3) and any(err > 1e-3 for k, b, err, s in e if k == 4)
    # Boole's rule (Romberg depth 2) is exact to degree 5
    boole = [H * c / 90 for c in (7, 32, 12, 32, 7)]
    e = moment_errors(boole, complete_ts(2), H, 6)
    assert all(err < 1e-15 for k, b, err, s in e if k <= 5) and any(err > 1e-4 for k, b, err, s in e if k == 6)
    d0, d1, sc = check_sum_linear(simp, complete_ts(1), H)
    assert abs(d0) < 1e-15 and abs(d1) < 1e-15
    d0, d1, sc = check_sum_linear([H / 6, 4 * H / 6, H / 6 + 1e-9], complete_ts(1), H)
    assert abs(d0) > TOL * sc and abs(d1) > TOL * sc, "corrupted weights not rejected"
    # Simpson level-0 prediction: container [2,2.25] with two slices -> +0.25/21
    p0, p1 = simpson_level0_prediction([(2.0, 2.125 + 0.125, 2), (2.25, 2.5, 1)], 2.0, 1.0)
    assert abs(p0 - 0.25 / 21) < 1e-15 and abs(p1 - (0.25 / 21) * (0.125 - 0.5)) < 1e-15, (p0, p1)
    # full-tree oracle accepts the expected expansion of the repository test and rejects corrupted ones
    gin, lin_ = [0.0, 0.25, 0.375, 0.5, 1.0], [0, 2, 3, 1, 0]
    gout, lout = [0.0, 0.125, 0.25, 0.375, 0.5, 0.75, 1.0], [0, 3, 2, 3, 1, 2, 0]
    assert check_full_tree(gout, lout, gin, lin_, 0.0, 1.0) == []
    assert [c for c, _ in check_full_tree(gin, lin_, gin, lin_, 0.0, 1.0)] == ["one-child"]
    assert "input-point-lost" in [c for c, _ in check_full_tree([0.0, 0.25, 0.5, 0.75, 1.0], [0, 2, 1, 2, 0], gin, lin_, 0.0, 1.0)]
    assert "added-level-not-dyadic" in [c for c, _ in check_full_tree(gout, [0, 3, 2, 3, 1, 3, 0], gin, lin_, 0.0, 1.0)]
    assert "input-level-changed" in [c for c, _ in check_full_tree(gout, [0, 3, 3, 3, 1, 2, 0], gin, lin_, 0.0, 1.0)]
    assert "not-sorted" in [c for c, _ in check_full_tree([0.0, 0.25, 0.125, 0.375, 0.5, 0.75, 1.0], lout, gin, lin_, 0.0, 1.0)]
    # end to end on the pinned 5-point grid of the repository (UNIT / ROMBERG_DEFAULT): the check must be silent,
    # and must fire on a corrupted weight vector
    o = Outcome()
    judge_weights(o, "t", [0.25, 0.5, 0.25], [0.0, 0.5, 1.0], 0.0, 1.0, ("UNIT", "TRAPEZOID", "ROMBERG_DEFAULT", False),
                  [(0.0, 0.5, 1), (0.5, 1.0, 1)], "selftest")
    assert not o.violations, o.violations
    judge_weights(o, "t", [0.25, 0.5, 0.26], [0.0, 0.5, 1.0], 0.0, 1.0, ("UNIT", "TRAPEZOID", "ROMBERG_DEFAULT", False),
                  [(0.0, 0.5, 1), (0.5, 1.0, 1)], "selftest")
    assert {s for s, _ in o.violations} == {"t/sum/romberg_default-unit", "t/linear/romberg_default-unit"}, o.violations
    # a Simpson deviation that does NOT match the level-0 prediction must not get the known signature
    o = Outcome()
    judge_weights(o, "t", [0.2, 0.5, 0.25], [0.0, 0.5, 1.0], 0.0, 1.0, ("GROUPED", "TRAPEZOID", "SIMPSON_ROMBERG", False),
                  [(0.0, 1.0, 2)], "selftest")
    assert {s for s, _ in o.violations} == {"t/sum/simpson_romberg-grouped", "t/linear/simpson_romberg-grouped"}, o.violations


SUBS = [
    # quick: ~4 CPU-minutes in total (15-20 s wall on 16 idle cores); the budgets only cut in on a loaded machine
    Sub("sliced", sliced_strategy, run_sliced, dict(quick=3200, thorough=50000),
        budget_s=dict(quick=30, thorough=280), fixed_cases=sliced_fixed),
    Sub("complete", complete_strategy, run_complete, dict(quick=320, thorough=1500),
        budget_s=dict(quick=10, thorough=60), fixed_cases=complete_fixed),
    Sub("balanced", balanced_strategy, run_balanced, dict(quick=4000, thorough=40000),
        budget_s=dict(quick=12, thorough=90), fixed_cases=balanced_fixed),
    Sub("bintree", bintree_strategy, run_bintree, dict(quick=6400, thorough=60000),
        budget_s=dict(quick=10, thorough=70), fixed_cases=bintree_fixed),
    Sub("global", global_strategy, run_global, dict(quick=4000, thorough=30000),
        budget_s=dict(quick=12, thorough=90), fixed_cases=global_fixed),
]
