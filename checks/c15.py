"""C15 — weighted UQ quadrature is a probability measure; moments transform correctly."""
import math

import numpy as np
from hypothesis import strategies as st

from vlib.core import Outcome, Sub
from vlib import drive
from vlib.drive import Q, quiet

PROPERTY = "C15"
RULE = ("set-up (all subs): 1-5 dimensions (4-5 in ~40%, with few points per dimension); the per-dimension "
        "(distribution, interval) list is a PATTERN over 1-3 distinct entries with repeats in arbitrary positions "
        "([A,A,B,B], [A,B,B,A,C], ...; entries may share the distribution info on different intervals), passed as a list "
        "or, where all infos agree, in the string/tuple short form; every dimension is judged against the distribution "
        "SPECIFIED for it. Half of the entries are given in an unusual unit: support / location / scale multiplied by s in "
        "{1e-15, 1e-12, 1e-9, 1e-6, 1e-3, 1e3, 1e6, 1e9} (per entry different, e.g. Uniform[4e-12, 5e-12]), so that 1D "
        "intervals get narrower than 1e-12 absolute in ~1/3 of the cases; the moment model is written in the normalised "
        "coordinate (x - location)/width of each parameter. weights: each dimension with its distribution (Uniform(a,b), Triangle(a,mid,b), Normal(mu,sigma) on "
        "(-inf,inf) or truncated to mu+-k*sigma; the families usable offline) set up through UncertaintyQuantification as "
        "callers do (list of infos, or the string short form), one GlobalTrapezoidalGridWeighted (boundary on/off; off "
        "whenever a Normal is present), per dimension either a refinement tree built with the library's own get_mid_point "
        "(random / leftmost / rightmost / targeted splits, depth <= 18; every midpoint is judged) or an arbitrary strictly "
        "ascending grid (positions or quantiles, optionally clustered); all dimensions are handed to ONE set_grid call, "
        "first for a coarser grid of the same trees (so that cached per-interval moments are in play), then for the full "
        "grid. Non-trivial = some dimension has a non-Uniform distribution and a non-equidistant grid with >= 6 points. "
        "midpoint: one interval (the support, a tree path of L/R choices of depth <= 20, or two arbitrary quantiles) of a "
        "1-5 dimensional set-up, midpoint taken in a drawn dimension; non-trivial = non-Uniform family, primary (ppf) "
        "branch taken, P(interval) >= 1e-6. moments: the model is a user Function subclass whose eval returns its values as "
        "Python float (scalar model) / list / tuple / fresh float64 ndarray / float64 ndarray kept in the model's own table "
        "and handed out again (table must be unchanged afterwards) / float32 ndarray / int64 ndarray (integer valued model), "
        "output length 1-7, model cache on/off; 30% of the cases take the basis-grid route (GlobalBSplineGrid / "
        "GlobalLagrangeGrid, p 1/3, Uniform inputs, d 1-3, calculate_expectation_and_variance(..., scale_weights=True)); "
        "further drawn options: dim= given explicitly, set_moments_Function([1,2]) instead of "
        "set_expectation_variance_Function(), modified_basis=True (all-Uniform, no boundary; identities only); a vector model (1-2 nowhere-exact base components, 1-3 affine images "
        "c*f+e, the constants 1 and K) is integrated by SpatiallyAdaptiveSingleDimensions2 on the weighted grid (d 1-5; "
        "d>=4 with lmin=1, lmax=2 and <=3 steps; lmin 1-2, versions 6/2/3/7/8, rebalancing, volume weighting on/off) driven by a scripted decision tape for up to "
        "8 steps; the moment identities AND the weight clauses for the 1D grids of the component grid evaluated last are "
        "evaluated after EVERY evaluate_operation, and the identities once more for the nodes-and-weights path "
        "(use_combiinstance_solution=False) at the end. Non-trivial = >=1 step refined a strict subset of the intervals "
        "and some non-Uniform dimension has >= 6 points. Distinct = distinct case dict.")
ASSUMPTIONS = [
    "distribution families: Uniform, Triangle (mode strictly inside, 2%..98% of the interval), Normal; chaospy 4.3.21 in "
    "/venv cannot construct Laplace(mu=, scale=) (TypeError), so Laplace is unreachable offline",
    "boundary=True only with finite support (boundary points at +-inf cannot be evaluated; every caller of a Normal uses "
    "boundary=False); a truncated Normal domain [mu-k sigma, mu+k sigma] only with boundary=False (the rule is "
    "renormalised there; with boundary points its mass is cdf(b)-cdf(a) < 1 by construction; UQ/TestsUQ.py does the same)",
    "grids have >= 2 points with boundary and >= 3 points without (compute_weights asserts this), strictly ascending, "
    "neighbouring points at least 1e-9*(b-a) apart",
    "|sum(w)-1| <= 1e-6 (1e-4 when a Normal is involved: the library's own warning threshold, DESIGN 3.6); seen: 7e-16",
    "Uniform: |w - trapezoid/(b-a)| <= 1e-12 + 200*eps*max|x|/min h (the library differences cdf values, so the rounding "
    "of a weight grows with |x|/h; seen: <= 0.4% of this bound)",
    "affine identities are asserted in the algebraic form the code can satisfy: E[cf+e]=cE[f]+e*S and "
    "Var[cf+e]=c^2Var[f]+(2ceE[f]+e^2 S)(1-S), S = E[1] on the same grid (|S-1| <= 1.3e-13 on the unchanged tree), "
    "tolerance 1e-9*scale (seen 2e-13)",
    "constant model: |E[K]-K*S| <= 1e-10|K|, Var[K] <= 1e-10 K^2 + K^2|S||1-S| (the stated 1e-12 is only 2x above the "
    "rounding 5e-13 seen for combinations of ~100 component grids; 1e-10 keeps the 100x margin)",
    "modified_basis=True is not generated (documented in compute_weights as Uniform-only; its extrapolation weights are "
    "not trapezoidal weights)",
    "equal-probability clause: |P(left)-P(right)| <= 1e-6 P(interval) + 1e-13 on the primary (ppf) branch (seen 2e-9 "
    "relative); a fallback branch is accepted (strict interiority only) where P(interval) < 1e-9 or the interval is "
    "narrower than 1e-9|x|, i.e. where the halving point cannot be resolved; elsewhere taking the fallback is a violation",
    "the nodes-and-weights path (use_combiinstance_solution=False, third cell of the UQ tutorial) must satisfy the same "
    "identities and agree with the combined-moment path to 1e-9 relative",
    "offset/width ratios |a|/(b-a) <= 20 in the regular classes; a separate low-frequency 'far-offset' Triangle class "
    "(ratio 200..2000) exists because the first-moment quadrature loses accuracy there (F-C15b)",
    "all tolerances of the harness are scale free: probabilities and weights are dimensionless, grid separations and the "
    "fallback-feasibility bound are relative to the interval / coordinate magnitude, moment tolerances relative to the "
    "magnitude of the moments; class counters parameter-scale=s, min-interval-width<1e-12",
    "moment signatures carry the suffix /model-returns=<form>; float32 models: identities to 1e-5 relative (the library "
    "squares float32 values in float32), constants to 1e-6; int models use integer c, e, K and 8*f rounded; output "
    "length 1 has no constant-1 component: S = 1 is assumed and the bounds are widened by the allowed weight-sum deviation; "
    "class counters model-returns=, output-length=, model-cache=",
    "basis-grid route: the nodes-and-weights path ignores scale_weights and the weight clauses do not apply to unweighted "
    "basis grids, so only the moment identities (with S = E[1]) are asserted there; class counters route=, "
    "scale_weights=, volume!=1, modified_basis=True",
    "class counters: dims=4+, distinct=k, pattern-with-repeat, pattern-with-late-repeat (a repeated entry whose first "
    "occurrence is not at the index equal to the number of distinct entries before it, e.g. [A,A,B,B])",
]

A_CHOICES = [0.0, -1.0, 2.0, 0.3, -3.5, 10.0]
W_CHOICES = [1.0, 3.0, 0.5, 0.7, 2.0]
SQRT2 = math.sqrt(2.0)


# ------------------------------------------------------------------------------------------------------------
# reference distributions, written from the definitions (independent of chaospy / scipy.stats / the library)
# ------------------------------------------------------------------------------------------------------------
class Ref:
    def __init__(self, spec):
        self.fam = spec["fam"]
        if self.fam == "Normal":
            self.mu, self.sigma = float(spec["mu"]), float(spec["sigma"])
            k = spec.get("trunc", 0)
            self.a = self.mu - k * self.sigma if k else -math.inf
            self.b = self.mu + k * self.sigma if k else math.inf
            self.info = ("Normal", self.mu, self.sigma)
        else:
            self.a, self.b = float(spec["a"]), float(spec["b"])
            if self.fam == "Triangle":
                self.mid = float(spec["mid"])
                self.info = ("Triangle", self.mid)
            else:
                self.info = ("Uniform",)
        self.finite = not (math.isinf(self.a) or math.isinf(self.b))

    # --- density, cdf
    def pdf(self, x):
        if self.fam == "Normal":
            z = (x - self.mu) / self.sigma
            return math.exp(-0.5 * z * z) / (self.sigma * math.sqrt(2 * math.pi)) if not math.isinf(z) else 0.0
        if x < self.a or x > self.b:
            return 0.0
        L = self.b - self.a
        if self.fam == "Uniform":
            return 1.0 / L
        if x <= self.mid:
            return 2.0 * (x - self.a) / (L * (self.mid - self.a))
        return 2.0 * (self.b - x) / (L * (self.b - self.mid))

    def cdf(self, x):
        return self.prob(self.a if self.fam != "Normal" else -math.inf, x)

    # --- probability of [x1,x2] without cancellation
    def prob(self, x1, x2):
        if self.fam == "Normal":
            z1, z2 = (x1 - self.mu) / self.sigma, (x2 - self.mu) / self.sigma
            if z1 >= 0:
                return 0.5 * (math.erfc(z1 / SQRT2) - math.erfc(z2 / SQRT2))
            return 0.5 * (math.erfc(-z2 / SQRT2) - math.erfc(-z1 / SQRT2))
        x1, x2 = max(x1, self.a), min(x2, self.b)
        if x2 <= x1:
            return 0.0
        L = self.b - self.a
        if self.fam == "Uniform":
            return (x2 - x1) / L
        m = self.mid
        p = 0.0
        if x1 < m:
            y2 = min(x2, m)
            p += (y2 - x1) * (y2 + x1 - 2 * self.a) / (L * (m - self.a))
        if x2 > m:
            y1 = max(x1, m)
            p += (x2 - y1) * (2 * self.b - y1 - x2) / (L * (self.b - m))
        return p

    # --- int_{x1}^{x2} (x - x1) pdf(x) dx   (finite x1, x2)
    def m1c(self, x1, x2):
        if self.fam == "Normal":
            return (self.mu - x1) * self.prob(x1, x2) + self.sigma ** 2 * (self.pdf(x1) - self.pdf(x2))
        if self.fam == "Uniform":
            return (x2 - x1) ** 2 / (2.0 * (self.b - self.a))

        def lin(y1, y2):        # pdf is linear on [y1,y2]; moment about y1
            h = y2 - y1
            s = (self.pdf(y2) - self.pdf(y1)) / h
            return self.pdf(y1) * h * h / 2.0 + s * h ** 3 / 3.0
        m = self.mid
        if x2 <= m or x1 >= m:
            return lin(x1, x2)
        return lin(x1, m) + lin(m, x2) + (m - x1) * self.prob(m, x2)

    # --- quantile (used by the generators only, never by an oracle)
    def ppf(self, u):
        if self.fam == "Normal":
            from scipy.special import ndtri
            return self.mu + self.sigma * float(ndtri(u))
        L = self.b - self.a
        if self.fam == "Uniform":
            return self.a + u * L
        fm = (self.mid - self.a) / L
        if u <= fm:
            return self.a + math.sqrt(u * L * (self.mid - self.a))
        return self.b - math.sqrt((1 - u) * L * (self.b - self.mid))

    def describe(self):
        return "%s on [%r,%r]" % (self.info, self.a, self.b)


def ref_weights(ref, pts, boundary):
    """Weighted trapezoidal weights from exact zeroth/first moments (method of undetermined coefficients)."""
    n = len(pts)
    w = np.zeros(n)
    for i in range(n - 1):
        x1, x2 = pts[i], pts[i + 1]
        m0 = ref.prob(x1, x2)
        if math.isinf(x1):
            w2 = m0
        elif math.isinf(x2):
            w2 = 0.0
        else:
            w2 = ref.m1c(x1, x2) / (x2 - x1)
        w[i] += m0 - w2
        w[i + 1] += w2
    if not boundary:
        w = w[1:-1]
        if n == 3:
            return np.array([1.0])
        w = w / w.sum()
    return w


def trapezoid(pts):
    p = np.asarray(pts, dtype=float)
    w = np.zeros(len(p))
    h = np.diff(p)
    w[:-1] += 0.5 * h
    w[1:] += 0.5 * h
    return w


# ------------------------------------------------------------------------------------------------------------
# library set-up (as the callers do it) and the clause functions
# ------------------------------------------------------------------------------------------------------------
def case_specs(case):
    """per-dimension (distribution, interval) list: a pattern over the distinct entries of the case"""
    if "entries" in case:
        return [dict(case["entries"][i]) for i in case["pattern"]]
    return [dict(s_) for s_ in case["dims"]]


def spec_key(spec):
    return tuple(sorted(spec.items()))


def pattern_classes(out, specs):
    """dims=4+ ; pattern-with-repeat ; pattern-with-late-repeat = some (distribution, interval) occurs more than once and
    the dimension whose index equals the number of distinct entries before its first occurrence holds another entry."""
    keys = [spec_key(s_) for s_ in specs]
    if len(keys) >= 4:
        out.cls("dims=4+")
    distinct = []
    for k in keys:
        if k not in distinct:
            distinct.append(k)
    out.cls("distinct=%d" % len(distinct))
    if len(distinct) < len(keys):
        out.cls("pattern-with-repeat")
    for r, k in enumerate(distinct):
        if keys.count(k) > 1 and keys[r] != k:
            out.cls("pattern-with-late-repeat")
            break


def scale_spec(spec, s):
    """the same distribution in another unit: support / location / scale multiplied by s"""
    out = dict(spec)
    if s != 1.0:
        for k in ("a", "b", "mid", "mu", "sigma"):
            if k in out:
                out[k] = out[k] * s
    out["s"] = s
    return out


def scale_classes(out, specs, grids=None):
    for s_ in specs:
        out.cls("parameter-scale=%g" % s_.get("s", 1.0))
    if grids is not None:
        w = [y - x for p_ in grids for x, y in zip(p_, p_[1:]) if not (math.isinf(x) or math.isinf(y))]
        if w and min(w) < 1e-12:
            out.cls("min-interval-width<1e-12")
        if w:
            out.info["min_interval_width"] = -min(w)        # the runner keeps maxima: stored negated


def lib_setup(specs, boundary, f=None, string_form=False, explicit_dim=False):
    from sparseSpACE.GridOperation import UncertaintyQuantification
    from sparseSpACE.Grid import GlobalTrapezoidalGridWeighted
    from sparseSpACE.Function import FunctionCustom
    refs = [Ref(s) for s in specs]
    a = np.array([r.a for r in refs], dtype=float)
    b = np.array([r.b for r in refs], dtype=float)
    infos = [r.info for r in refs]
    if string_form and all(i == infos[0] for i in infos):
        # short forms accepted by the constructor: one string / one tuple for every dimension
        infos = "Uniform" if infos[0] == ("Uniform",) else infos[0]
    if f is None:
        f = FunctionCustom(lambda x: 1.0)
    with quiet():
        if explicit_dim:
            op = UncertaintyQuantification(f, infos, a, b, dim=len(a), print_level=Q, log_level=Q)
        else:
            op = UncertaintyQuantification(f, infos, a, b, print_level=Q, log_level=Q)
        grid = GlobalTrapezoidalGridWeighted(a, b, op, boundary=boundary)
    return op, grid, refs, a, b


def judge_mid(out, sub, ref, x1, x2, m, fallback):
    """midpoint clauses; returns True if m can be inserted into a tree"""
    if not (isinstance(m, float) and x1 < m < x2):
        out.bad("%s/midpoint/not-strictly-inside/%s" % (sub, "fallback" if fallback else "primary"),
                "%s: get_mid_point(%r, %r) = %r" % (ref.describe(), x1, x2, m))
        return False
    P = ref.prob(x1, x2)
    if fallback:
        out.cls("mid-fallback")
        # A fallback is legitimate only where the halving point cannot be resolved in double precision. Where the
        # interval carries a probability >= 1e-9 (cdf values 1e7 ulps apart) and is wider than 1e-9 of its end points
        # the ppf branch must succeed; otherwise a fallback result is only required to be strictly interior.
        feasible = P >= 1e-9 and (math.isinf(x1) or math.isinf(x2) or x2 - x1 > 1e-9 * max(abs(x1), abs(x2), 1e-300))
        if not feasible:
            return True
        out.bad("%s/midpoint/fallback-taken-although-halving-point-exists" % sub,
                "%s: get_mid_point(%r, %r) = %r, P(interval)=%.6g" % (ref.describe(), x1, x2, m, P))
        return True
    out.cls("mid-primary")
    pl, pr = ref.prob(x1, m), ref.prob(m, x2)
    # tolerance: 1e-6 relative (statement), absolute slack 1e-13 = 100x the cdf rounding (1e-15) seen in deep tails
    if not abs(pl - pr) <= 1e-6 * P + 1e-13:
        out.bad("%s/midpoint/unequal-probability" % sub,
                "%s: get_mid_point(%r, %r) = %r: P(left)=%.12g P(right)=%.12g" % (ref.describe(), x1, x2, m, pl, pr))
    out.info["max_mid_imbalance_rel"] = max(out.info.get("max_mid_imbalance_rel", 0.0), abs(pl - pr) / P if P > 1e-9 else 0.0)
    return True


def lib_mid(grid, x1, x2, d):
    with quiet() as buf:
        m = grid.get_mid_point(x1, x2, d)
    txt = buf.getvalue()
    return m, ("Could not calculate" in txt)


def sum_tol(refs):
    return 1e-4 if any(r.fam == "Normal" for r in refs) else 1e-6


def judge_weights(out, sub, ref, pts, w, boundary, tol_sum):
    """weight clauses for one dimension. w = what set_grid stored for that dimension."""
    w = np.asarray(w, dtype=float)
    n_expected = len(pts) if boundary else len(pts) - 2
    tag = "%s boundary=%s grid=%s" % (ref.describe(), boundary, [float(x) for x in pts][:12])
    if len(w) != n_expected:
        out.bad(sub + "/weights/wrong-number", "%s: %d weights" % (tag, len(w)))
        return
    if not np.all(np.isfinite(w)):
        out.bad(sub + "/weights/not-finite", "%s: %s" % (tag, w[:12]))
        return
    if np.any(w < 0.0):                                       # exact: the library clips to 0
        out.bad(sub + "/weights/negative", "%s: min weight %.3e" % (tag, w.min()))
    s = float(w.sum())
    out.info["max_sum_dev"] = max(out.info.get("max_sum_dev", 0.0), abs(s - 1.0))
    if not abs(s - 1.0) <= tol_sum:
        out.bad(sub + "/weights/sum", "%s: sum = %.12g" % (tag, s))
    if ref.fam == "Uniform":
        t = trapezoid(pts) / (ref.b - ref.a)
        if boundary:
            want, lab = t, "boundary=on"
        else:
            want, lab = (t[1:-1] / t[1:-1].sum()), "boundary=off"
        dev = float(np.max(np.abs(w - want)))
        out.info["max_uniform_dev"] = max(out.info.get("max_uniform_dev", 0.0), dev)
        # the library forms w2 = (m1 - m0*x1)/h with m0 = cdf(x2)-cdf(x1) (absolute rounding eps): the rounding of a
        # weight is eps*max|x|/min h (seen: 1.3e-12 at |x|/h = 4e4); 1e-12 + 200*eps*|x|/h is >= 100x above that and far
        # below a wrong formula (>= 1e-3)
        p_ = np.asarray(pts, dtype=float)
        tol = 1e-12 + 4.4e-14 * float(np.max(np.abs(p_))) / float(np.min(np.diff(p_)))
        out.info["max_uniform_dev_over_tol"] = max(out.info.get("max_uniform_dev_over_tol", 0.0), dev / tol)
        if not dev <= tol:
            out.bad(sub + "/weights/uniform-vs-trapezoid/" + lab, "%s: max deviation %.3e; got %s want %s" % (tag, dev, w[:8], want[:8]))
    else:
        # not a clause of the statement; recorded so that the evidence shows how exact the moments are
        dev = float(np.max(np.abs(w - ref_weights(ref, pts, boundary))))
        key = "max_dev_from_exact_moment_weights" + ("_far_offset" if max(abs(ref.a), abs(ref.b)) > 25 * (ref.b - ref.a) else "")
        out.info[key] = max(out.info.get(key, 0.0), dev)


def explain_negative_assert(op, refs, grids):
    """The library raised 'calculated negative weight'. Observed cause F-C15b: with the first moments the library
    itself computed (cached get_first_moment) some composite weight is < -1e-5, with exact first moments none is."""
    dists = op.get_distributions()
    for d, (ref, pts) in enumerate(zip(refs, grids)):
        n = len(pts)
        wl, we = np.zeros(n), np.zeros(n)
        worst = (0.0, None)
        for i in range(n - 1):
            x1, x2 = pts[i], pts[i + 1]
            if math.isinf(x1) or math.isinf(x2):
                continue
            m0 = ref.prob(x1, x2)
            m1_lib = float(dists[d].get_first_moment(x1, x2))
            m1_ref = ref.m1c(x1, x2) + x1 * m0
            w2l = (m1_lib - float(dists[d].get_zeroth_moment(x1, x2)) * x1) / (x2 - x1)
            w2e = ref.m1c(x1, x2) / (x2 - x1)
            wl[i] += m0 - w2l
            wl[i + 1] += w2l
            we[i] += m0 - w2e
            we[i + 1] += w2e
            err = abs(m1_lib - m1_ref)
            if err > worst[0]:
                worst = (err, (x1, x2, m1_lib, m1_ref))
        if wl.min() <= -1e-5 and we.min() >= 0.0:
            return "dimension %d %s grid %s: first moment from quad(epsrel=1e-2, epsabs=inf) off by %.3e on %s -> weight %.3e" % (
                d, ref.describe(), [float(x) for x in pts][:10], worst[0], worst[1], wl.min())
    return None


SIG_FIRST_MOMENT = "/negative-weight-assertion/first-moment-quadrature-inaccurate"


# ------------------------------------------------------------------------------------------------------------
# sub-check 1: weights
# ------------------------------------------------------------------------------------------------------------
def build_points(out, sub, grid, ref, d, gspec, check_mid=True):
    a, b = ref.a, ref.b
    if gspec["kind"] == "sorted":
        span = (b - a) if ref.finite else 6 * ref.sigma
        qs = list(gspec["qs"])
        if gspec.get("cluster") and qs:
            c = qs[0]
            qs = [c] + [min(0.999, max(0.001, c + (q - 0.5) * 1e-4)) for q in qs[1:]]
        if gspec["by"] == "position" and ref.finite:
            xs = sorted(a + (b - a) * q for q in qs)
        else:
            xs = sorted(ref.ppf(q) for q in qs)
        pts = [a]
        for x in xs:
            if x - pts[-1] >= 1e-9 * span and b - x >= 1e-9 * span:
                pts.append(float(x))
        pts.append(b)
        return pts, [0] * len(pts)
    pts, lev = [a, b], [0, 0]
    bias = gspec["bias"]
    tq = (gspec["splits"][0] % 64 + 0.5) / 64.0
    tx = ref.ppf(tq)
    for s in gspec["splits"]:
        n = len(pts) - 1
        if bias == "first":
            i = 0
        elif bias == "last":
            i = n - 1
        elif bias == "target":
            i = max([j for j in range(n) if pts[j] <= tx] or [0])      # tx may lie outside a truncated domain
        else:
            i = s % n
        m, fb = lib_mid(grid, pts[i], pts[i + 1], d)
        if check_mid:
            ok = judge_mid(out, sub, ref, pts[i], pts[i + 1], m, fb)
        else:
            ok = isinstance(m, float) and pts[i] < m < pts[i + 1]
        if not ok:
            break
        pts.insert(i + 1, float(m))
        lev.insert(i + 1, max(lev[i], lev[i + 1]) + 1)
    return pts, lev


def nonequidistant(pts):
    p = [x for x in pts if not math.isinf(x)]
    if len(p) < 3:
        return False
    h = np.diff(p)
    return float(h.max() - h.min()) > 1e-9 * float(h.max())


def run_weights(case):
    out = Outcome()
    sub = "weights"
    specs = case_specs(case)
    pattern_classes(out, specs)
    boundary = case["boundary"]
    string_form = case.get("string_form", False)
    op, grid, refs, a, b = lib_setup(specs, boundary, string_form=string_form)
    gspecs = list(case["grids"])
    dim = len(specs)
    grids, levels = [], []
    for d in range(dim):
        pts, lv = build_points(out, sub, grid, refs[d], d, gspecs[d])
        grids.append(pts)
        levels.append(lv)
    if not boundary and any(len(p) < 3 for p in grids):
        return out                                             # cannot happen by construction (a split always succeeds or is reported)
    # the same grid object (and so the same cached per-interval moments) first sees a coarser grid of the same tree
    coarse = []
    for d in range(dim):
        pts, lv = grids[d], levels[d]
        if gspecs[d]["kind"] == "tree":
            cut = max(lv) // 2 if max(lv) > 1 else max(lv)
            keep = [i for i in range(len(pts)) if lv[i] <= cut]
        else:
            keep = [i for i in range(len(pts)) if i % 2 == 0 or i == len(pts) - 1]
        if len(keep) < (2 if boundary else 3):
            keep = list(range(len(pts)))
        coarse.append(keep)
    def set_grid(glist, llist):
        try:
            with quiet():
                grid.set_grid(glist, llist)
            return True
        except AssertionError as e:
            if "calculated negative weight" not in str(e):
                raise
            why = explain_negative_assert(op, refs, glist)
            if why is None:
                raise
            out.bad(sub + SIG_FIRST_MOMENT, why)
            out.cls("negative-weight-assertion")
            return False

    cgrids = [[grids[d][i] for i in coarse[d]] for d in range(dim)]
    if not set_grid(cgrids, [[levels[d][i] for i in coarse[d]] for d in range(dim)]):
        return out
    for d in range(dim):
        judge_weights(out, sub, refs[d], cgrids[d], grid.weights[d], boundary, 1e-4 if refs[d].fam == "Normal" else 1e-6)
    if not set_grid(grids, levels):
        return out
    nt = False
    for d in range(dim):
        judge_weights(out, sub, refs[d], grids[d], grid.weights[d], boundary, 1e-4 if refs[d].fam == "Normal" else 1e-6)
        npts = len(grids[d])
        out.cls("fam=%s" % refs[d].fam + ("-truncated" if refs[d].fam == "Normal" and refs[d].finite else ""),
                "grid=%s" % gspecs[d]["kind"])
        if refs[d].fam != "Uniform" and npts >= 6 and nonequidistant(grids[d]):
            nt = True
        out.info["max_points_1d"] = max(out.info.get("max_points_1d", 0), npts)
    out.nontrivial = nt
    scale_classes(out, specs, grids)
    out.cls("boundary=%s" % boundary, "d=%d" % dim)
    if case.get("far"):
        out.cls("far-offset")
    return out


# ------------------------------------------------------------------------------------------------------------
# sub-check 2: midpoint
# ------------------------------------------------------------------------------------------------------------
def run_midpoint(case):
    out = Outcome()
    sub = "midpoint"
    specs = case_specs(case)
    pattern_classes(out, specs)
    op, grid, refs, a, b = lib_setup(specs, case["boundary"], string_form=case.get("string_form", False))
    d = case.get("d", len(specs) - 1) % len(specs)
    ref = refs[d]
    x1, x2 = ref.a, ref.b
    iv = case["interval"]
    if iv["kind"] == "quantiles":
        q1, q2 = sorted(iv["q"])
        x1 = ref.ppf(q1) if q1 > 0.0 else ref.a
        x2 = ref.ppf(q2) if q2 < 1.0 else ref.b
        if not x1 < x2:
            return out
        m, fb = lib_mid(grid, x1, x2, d)
        judge_mid(out, sub, ref, x1, x2, m, fb)
        depth = 0
    else:
        depth = 0
        for step in iv["path"] + ["end"]:
            m, fb = lib_mid(grid, x1, x2, d)
            if not judge_mid(out, sub, ref, x1, x2, m, fb):
                break
            if step == "end":
                break
            depth += 1
            if step == "L":
                x2 = float(m)
            else:
                x1 = float(m)
    P = ref.prob(x1, x2)
    out.nontrivial = ref.fam != "Uniform" and "mid-primary" in out.classes and P >= 1e-6 and not out.violations
    out.cls("fam=%s" % ref.fam, "interval=%s" % iv["kind"], "parameter-scale=%g" % specs[d].get("s", 1.0))
    if not (math.isinf(x1) or math.isinf(x2)) and x2 - x1 < 1e-12:
        out.cls("min-interval-width<1e-12")
    if math.isinf(x1) or math.isinf(x2):
        out.cls("infinite-end")
    out.info["max_depth"] = depth
    return out


# ------------------------------------------------------------------------------------------------------------
# sub-check 3: moments
# ------------------------------------------------------------------------------------------------------------
RETURN_FORMS = ["ndarray", "list", "ndarray-kept", "tuple", "float32", "int", "float"]


def judge_moments(out, sub, E, V, layout, tol_s, tag="", rel=1e-9, suffix=""):
    """layout = dict(nb=number of base comps, affine=[(j, c, e)], one=index or None, const=(index, K) or None); affine
    image k is component nb+k. E, V = what calculate_expectation_and_variance returned. rel = relative tolerance of the
    identities (1e-9; 1e-5 for a float32 model whose squares the library forms in float32). Without a constant-1
    component S = 1 is assumed and every bound is widened by the allowed deviation tol_s of the weight sum.
    suffix = '/model-returns=<form>' appended to every signature."""
    E = np.asarray(E, dtype=float).ravel()
    V = np.asarray(V, dtype=float).ravel()
    has_one = layout["one"] is not None
    ncomp = layout["nb"] + len(layout["affine"]) + int(has_one) + int(layout["const"] is not None)
    relc = max(rel * 0.1, 1e-10)          # constants: 1e-10 (see below), 1e-6 for float32
    if len(E) != ncomp or len(V) != ncomp:
        out.bad(sub + "/shape" + suffix, "%s %d expectations, %d variances for %d components" % (tag, len(E), len(V), ncomp))
        return
    if not (np.all(np.isfinite(E)) and np.all(np.isfinite(V))):
        out.bad(sub + "/not-finite" + suffix, "%s E=%s V=%s" % (tag, E, V))
        return
    if has_one:
        S = float(E[layout["one"]])
        slack = 0.0
        out.info["max_S_dev"] = max(out.info.get("max_S_dev", 0.0), abs(S - 1.0))
        if not abs(S - 1.0) <= tol_s:
            out.bad(sub + "/sum-of-weights" + suffix, "%s E[1] = %.12g" % (tag, S))
    else:
        S, slack = 1.0, tol_s
    if np.any(V < 0.0):
        out.bad(sub + "/variance-negative" + suffix, "%s Var = %s" % (tag, V))
    for k, (j, c, e) in enumerate(layout["affine"]):
        t = layout["nb"] + k
        want = c * E[j] + e * S
        scale = 1.0 + abs(c * E[j]) + abs(e)
        dev = abs(E[t] - want)
        out.info["max_E_affine_dev_rel"] = max(out.info.get("max_E_affine_dev_rel", 0.0), dev / scale / (rel / 1e-9))
        if not dev <= (rel + slack) * scale:
            out.bad(sub + "/expectation-affine" + suffix, "%s E[%g f%d + %g] = %.15g, c E[f] + e S = %.15g" % (tag, c, j, e, E[t], want))
        wantv = c * c * V[j] + (2 * c * e * E[j] + e * e * S) * (1.0 - S)
        scale = 1.0 + (V[t] + E[t] ** 2) + c * c * (V[j] + E[j] ** 2)
        dev = abs(V[t] - wantv)
        out.info["max_Var_affine_dev_rel"] = max(out.info.get("max_Var_affine_dev_rel", 0.0), dev / scale / (rel / 1e-9))
        if not dev <= (rel + 3 * slack) * scale:
            out.bad(sub + "/variance-affine" + suffix, "%s Var[%g f%d + %g] = %.15g, c^2 Var[f] = %.15g" % (tag, c, j, e, V[t], wantv))
    consts = ([(layout["one"], 1.0)] if has_one else []) + ([layout["const"]] if layout["const"] is not None else [])
    for idx, K in consts:
        dev = abs(E[idx] - K * S)
        out.info["max_const_E_rel"] = max(out.info.get("max_const_E_rel", 0.0), dev / abs(K) / (relc / 1e-10))
        # 1e-10: the combination sums up to ~100 component grids with coefficients +-1..3 over up to 3500 points;
        # rounding seen on the unchanged tree 8e-13 (variance, relative to K^2) and 3e-13 (expectation)
        if not dev <= (relc + slack) * abs(K):
            out.bad(sub + "/constant-expectation" + suffix, "%s E[%g] = %.15g with S = %.15g" % (tag, K, E[idx], S))
        lim = (relc + 3 * slack) * K * K + K * K * abs(S) * abs(1.0 - S)
        out.info["max_const_var_rel"] = max(out.info.get("max_const_var_rel", 0.0), V[idx] / (K * K) / (relc / 1e-10))
        if not V[idx] <= lim:
            out.bad(sub + "/constant-variance" + suffix, "%s Var[%g] = %.3e" % (tag, K, V[idx]))


def make_model(comps, form):
    """A user model: Function subclass whose eval returns its values in the drawn form.
    comps = scalar callables (already integer valued for form 'int')."""
    from sparseSpACE.Function import Function
    n = len(comps)

    class UserModel(Function):
        def __init__(self):
            super().__init__()
            self.table = {}                      # the model's own lookup table (form 'ndarray-kept')
            self.calls = 0

        def output_length(self):
            return n

        def values(self, x):
            return [float(g(x)) for g in comps]

        def eval(self, coordinates):
            self.calls += 1
            x = tuple(float(c) for c in coordinates)
            v = self.values(x)
            if form == "float":
                return v[0]
            if form == "list":
                return v
            if form == "tuple":
                return tuple(v)
            if form == "ndarray":
                return np.array(v, dtype=np.float64)
            if form == "ndarray-kept":
                if x not in self.table:
                    self.table[x] = np.array(v, dtype=np.float64)
                return self.table[x]             # the very same array object on every request
            if form == "float32":
                return np.array(v, dtype=np.float32)
            if form == "int":
                return np.array([int(round(t)) for t in v], dtype=np.int64)
            raise ValueError(form)

    return UserModel()


def build_model(case, dim, base):
    """components, layout and the effective (c, e, K) for the drawn output length and return form"""
    form = case.get("ret", "list")
    L = case.get("L", 0)
    if form == "float" and L != 1:
        form = "list"
    integer = form == "int"

    def eff(v, zero_ok=True):
        if not integer:
            return float(v)
        r = float(round(v))
        return r if (zero_ok or r != 0.0) else 7.0
    if integer:                                   # integer valued base components
        base = [(lambda g: (lambda x: float(round(8.0 * g(x)))))(g) for g in base]
    K = eff(case["K"], zero_ok=False)
    pairs = [(eff(c), eff(e)) for c, e in case["affine"]]
    nb = case["nb"]
    if L == 0:                                    # full layout: nb base comps, their affine images, 1, K
        pass
    elif L == 1:
        nb, pairs = (1, []) if case.get("l1", "f") == "f" else (0, [])
    elif L == 2:
        nb, pairs = 1, []
    else:
        nb, pairs = 1, pairs[:1]
    base = base[:nb]
    comps = list(base)
    affine = []
    for k, (c, e) in enumerate(pairs):
        j = k % nb
        affine.append((j, c, e))
        comps.append((lambda g, c, e: (lambda x: c * g(x) + e))(base[j], c, e))
    one = const = None
    if L == 0 or L >= 2:
        one = len(comps)
        comps.append(lambda x: 1.0)
    if L == 0 or L == 4 or (L == 1 and nb == 0):
        const = (len(comps), K)
        comps.append(lambda x: K)
    if form == "float32":                         # the values the library sees are the float32 roundings
        if const is not None:
            const = (const[0], float(np.float32(K)))
    layout = dict(nb=nb, affine=affine, one=one, const=const)
    return comps, layout, form


def run_moments(case):
    from sparseSpACE.spatiallyAdaptiveSingleDimension2 import SpatiallyAdaptiveSingleDimensions2
    out = Outcome()
    sub = "moments"
    specs = case_specs(case)
    pattern_classes(out, specs)
    dim = len(specs)
    nb = case["nb"]
    # the model is written in the units of its parameters: z_d = (x_d - location_d) / width_d, so that it is equally
    # "nowhere exact" for a capacitance in Farad and for a parameter of size 1
    refs0 = [Ref(s_) for s_ in specs]
    loc = [r.mu if r.fam == "Normal" else r.a for r in refs0]
    wid = [r.sigma if r.fam == "Normal" else r.b - r.a for r in refs0]

    def in_units(g):
        return lambda x: g([(x[d] - loc[d]) / wid[d] for d in range(dim)])
    base = [in_units(drive.driver_function(dim, case["fseed"] + 17 * j)) for j in range(nb)]
    comps, layout, form = build_model(case, dim, base)
    suffix = "/model-returns=" + form
    rel = 1e-5 if form == "float32" else 1e-9
    f = make_model(comps, form)
    if not case.get("cache", True):
        f.deactivate_caching()
    out.cls("model-returns=" + form, "output-length=%d" % len(comps), "model-cache=%s" % case.get("cache", True))
    op, grid, refs, a, b = lib_setup(specs, case["boundary"], f=f, string_form=case.get("string_form", False),
                                     explicit_dim=case.get("explicit_dim", False))
    route = case.get("route", "weighted")
    basis = route != "weighted"
    if basis:
        # the basis-grid route: Uniform inputs, an unweighted global basis grid, and the documented switch
        # scale_weights=True, which divides the combined moments by the volume of the box
        from sparseSpACE.Grid import GlobalBSplineGrid, GlobalLagrangeGrid
        assert all(r.fam == "Uniform" for r in refs) and case["boundary"]
        with quiet():
            grid = (GlobalBSplineGrid if route == "bspline" else GlobalLagrangeGrid)(a, b, boundary=True, p=case.get("p", 3))
    modified = (not basis and case.get("modified", False) and not case["boundary"]
                and all(r.fam == "Uniform" for r in refs))
    if modified:
        # documented as Uniform-only: extrapolating basis without boundary points. Its weights are not trapezoidal
        # weights (they may be negative), so only the moment identities are asserted for it.
        from sparseSpACE.Grid import GlobalTrapezoidalGridWeighted
        with quiet():
            grid = GlobalTrapezoidalGridWeighted(a, b, op, boundary=False, modified_basis=True)
        out.cls("modified_basis=True")
    ev_kwargs = dict(scale_weights=True) if basis else {}
    volume = float(np.prod(b - a)) if all(r.finite for r in refs) else math.inf
    out.cls("route=" + route, "scale_weights=%s" % basis)
    if not math.isinf(volume) and abs(volume - 1.0) > 1e-9:
        out.cls("volume!=1")
    op.set_grid(grid)
    if case.get("ks_form", False):
        op.set_moments_Function([1, 2])             # the general form of set_expectation_variance_Function()
    else:
        op.set_expectation_variance_Function()
    with quiet():
        if basis:
            sa = SpatiallyAdaptiveSingleDimensions2(a, b, operation=op, norm=2, version=case["version"],
                                                    rebalancing=case["rebalancing"], margin=case["margin"],
                                                    rebalancing_safety_factor=case["safety"], print_level=Q, log_level=Q)
        else:
            sa = SpatiallyAdaptiveSingleDimensions2(a, b, operation=op, norm=2, use_volume_weighting=case["vw"],
                                                    grid_surplusses=op.get_grid(), version=case["version"],
                                                    rebalancing=case["rebalancing"], margin=case["margin"],
                                                    rebalancing_safety_factor=case["safety"], print_level=Q, log_level=Q)
    tol_s = sum_tol(refs)
    st_ = dict(strict=0, steps=0, before=None, evals=0)

    def on_eval(k):
        st_["evals"] += 1
        with quiet():
            E, V = op.calculate_expectation_and_variance(sa, **ev_kwargs)
        judge_moments(out, sub, E, V, layout, tol_s, "after evaluation %d:" % k, rel=rel, suffix=suffix)
        # the 1D grids of the component grid evaluated last are refinement-tree grids produced by the real history
        # (including rebalancing): the weight clauses apply to them as well (weighted route only)
        for d in range(dim if not (basis or modified) else 0):
            pts = [float(x) for x in grid.coordinate_array_with_boundary[d]]
            if len(pts) >= (2 if case["boundary"] else 3):
                judge_weights(out, sub, refs[d], pts, grid.weights[d], case["boundary"],
                              1e-4 if refs[d].fam == "Normal" else 1e-6)

    def before_refine(k):
        st_["before"] = [len(drive.dw_objects(sa, d)) for d in range(dim)]

    def after_refine(k):
        st_["steps"] += 1
        after = [len(drive.dw_objects(sa, d)) for d in range(dim)]
        nsplit = sum(x - y for x, y in zip(after, st_["before"]))
        if 0 < nsplit < sum(st_["before"]):
            st_["strict"] += 1

    hist = dict(kind="dw", lmin=case["lmin"], lmax=case["lmax"], maxev=case["maxev"], maxsteps=case["maxsteps"],
                tape=case["tape"], mode=case["mode"])
    last_set = {}
    orig_set_grid = grid.set_grid

    def recording_set_grid(points, levels):
        last_set["points"] = [[float(x) for x in p_] for p_ in points]
        return orig_set_grid(points, levels)
    grid.set_grid = recording_set_grid              # instance-level observer: which 1D grids were handed over last
    try:
        drive.run_history(sa, hist, on_eval=on_eval, before_refine=before_refine, after_refine=after_refine)
    except AssertionError as e:
        if "calculated negative weight" not in str(e) or "points" not in last_set:
            raise
        why = explain_negative_assert(op, refs, last_set["points"])
        if why is None:
            raise
        out.bad(sub + SIG_FIRST_MOMENT, why)
        out.cls("negative-weight-assertion")
        scale_classes(out, specs)
        return out
    finally:
        del grid.set_grid
    # (the nodes-and-weights path ignores scale_weights, so it is compared on the weighted route only)
    if st_["evals"] and not out.violations and not basis:
        with quiet():
            E, V = op.calculate_expectation_and_variance(sa)
            Ea, Va = op.calculate_expectation_and_variance(sa, use_combiinstance_solution=False)
        judge_moments(out, sub + "/nodes-and-weights-path", Ea, Va, layout, tol_s, "use_combiinstance_solution=False:",
                      rel=rel, suffix=suffix)
        E, V, Ea, Va = (np.asarray(x, dtype=float).ravel() for x in (E, V, Ea, Va))
        if len(Ea) == len(E):
            devE = float(np.max(np.abs(E - Ea) / (1.0 + np.abs(E))))
            devV = float(np.max(np.abs(V - Va) / (1.0 + V + E * E)))
            out.info["max_path_dev_rel"] = max(devE, devV) / (rel / 1e-9)      # in units of the 1e-9 tolerance scale
            if not (devE <= rel and devV <= rel):
                out.bad(sub + "/nodes-and-weights-path/differs-from-combined-moments" + suffix,
                        "E %s vs %s ; Var %s vs %s" % (E, Ea, V, Va))
    if form == "ndarray-kept":
        # the arrays belong to the model: the library may read them, never write them
        changed = [(x, arr.tolist(), f.values(x)) for x, arr in f.table.items() if arr.tolist() != f.values(x)]
        if changed:
            out.bad(sub + "/model-table-modified" + suffix, "%d of %d arrays handed out by the model were changed, e.g. at %s: now %s, handed out %s"
                    % (len(changed), len(f.table), changed[0][0], changed[0][1], changed[0][2]))
        out.info["max_model_table_entries"] = len(f.table)
    npts = [len(drive.dw_points(sa, d)) for d in range(dim)]
    scale_classes(out, specs, [[float(x) for x in drive.dw_points(sa, d)] for d in range(dim)])
    nonuni = any(refs[d].fam != "Uniform" and npts[d] >= 6 for d in range(dim))
    out.nontrivial = st_["strict"] >= 1 and nonuni
    for r in refs:
        out.cls("fam=%s" % r.fam + ("-truncated" if r.fam == "Normal" and r.finite else ""))
    out.cls("d=%d" % dim, "boundary=%s" % case["boundary"], "version=%d" % case["version"], "vw=%s" % case["vw"],
            "rebalancing=%s" % case["rebalancing"])
    if st_["strict"]:
        out.cls("strict-subset-step")
    out.info.update(max_steps=st_["steps"], max_points_1d=max(npts), max_total_points=sa.get_total_num_points())
    return out


# ------------------------------------------------------------------------------------------------------------
# strategies
# ------------------------------------------------------------------------------------------------------------
def _fl(lo, hi):
    return st.floats(lo, hi, allow_nan=False, allow_infinity=False)


def draw_spec(draw, boundary, prev, far=False, uniform_only=False):
    """one distinct (distribution, interval) entry; prev = the entries drawn before"""
    fams = ["Uniform", "Triangle", "Triangle"] if boundary else ["Uniform", "Triangle", "Triangle", "Normal", "Normal", "NormalT"]
    if uniform_only:
        fams = ["Uniform"]
    finite_prev = [p for p in prev if p["fam"] != "Normal"]
    if finite_prev and not far and draw(st.integers(0, 2)) == 0:
        # same distribution info on another interval (the info alone does not identify a Uniform / Triangle)
        p = finite_prev[-1]
        if p["fam"] == "Uniform":
            a = draw(st.sampled_from([x for x in A_CHOICES if x != p["a"]]))
            return dict(fam="Uniform", a=a, b=a + draw(st.sampled_from(W_CHOICES)))
        al, be = draw(_fl(0.05, 2.0)), draw(_fl(0.05, 2.0))
        return dict(fam="Triangle", a=p["mid"] - al, b=p["mid"] + be, mid=p["mid"])
    normal_prev = [p for p in prev if p["fam"] == "Normal"]
    if normal_prev and draw(st.integers(0, 3)) == 0:
        # same Normal on another (truncated / infinite) domain
        p = normal_prev[-1]
        return dict(p, trunc=draw(st.sampled_from([t for t in (0, 1.5, 2.326, 3.5, 7.0) if t != p["trunc"]])))
    fam = "Triangle" if far else draw(st.sampled_from(fams))
    if fam in ("Normal", "NormalT"):
        mu = draw(st.one_of(st.sampled_from([0.0, 0.2, -1.5, 50.0]), _fl(-3.0, 3.0)))
        sigma = draw(st.one_of(st.sampled_from([1.0, 2.0, 0.05, 5.0]), _fl(0.2, 3.0)))
        trunc = draw(st.sampled_from([1.5, 2.326, 3.5, 7.0])) if fam == "NormalT" else 0
        return dict(fam="Normal", mu=mu, sigma=sigma, trunc=trunc)
    a = draw(st.sampled_from(A_CHOICES))
    w = draw(st.sampled_from(W_CHOICES))
    if far:
        a = draw(st.sampled_from([200.0, 1000.0, -300.0, 2000.0])) * w
    if fam == "Uniform":
        return dict(fam="Uniform", a=a, b=a + w)
    frac = draw(st.one_of(_fl(0.02, 0.98), st.sampled_from([0.5, 0.75, 0.02, 0.98])))
    mid = a + w * frac
    if not a < mid < a + w:
        mid = a + 0.5 * w
    return dict(fam="Triangle", a=a, b=a + w, mid=mid)


DIM_CHOICES = [1, 2, 2, 3, 3, 3, 4, 4, 4, 5]
SCALES = [1e-15, 1e-12, 1e-12, 1e-9, 1e-9, 1e-6, 1e-3, 1e3, 1e6, 1e9]


def draw_dims(draw, maxdim, far=False, uniform_boundary=False):
    """(entries, pattern, boundary): 1..maxdim dimensions whose (distribution, interval) list is a pattern over 1-3
    distinct entries with repeats in arbitrary positions ([A,A,B,B], [A,B,B,A,C], ...)"""
    dim = draw(st.sampled_from([x for x in DIM_CHOICES if x <= maxdim]))
    boundary = True if uniform_boundary else draw(st.booleans())
    k = draw(st.integers(1, min(3, dim))) if dim <= 3 else draw(st.sampled_from([1, 2, 2, 2, 3, 3]))
    raw, scales = [], []
    for _ in range(k):
        e = draw_spec(draw, boundary, raw, far=far, uniform_only=uniform_boundary)
        if any(spec_key(e) == spec_key(x) for x in raw):
            continue
        # unit of the parameter: half of the entries keep s = 1, the others live at 1e-15 .. 1e9 (per entry different);
        # an entry that repeats the INFO of an earlier one on another interval (Triangle mode, Normal mu/sigma) keeps
        # the unit of that entry, otherwise the info would not be the same any more
        src = [i for i, x in enumerate(raw) if x["fam"] == e["fam"] and e["fam"] != "Uniform"
               and all(x.get(k_) == e.get(k_) for k_ in ("mid", "mu", "sigma"))]
        if src:
            sc = scales[src[-1]]
        elif draw(st.booleans()):
            sc = 1.0
        else:
            sc = draw(st.sampled_from(SCALES))
        raw.append(e)
        scales.append(sc)
    entries = [scale_spec(e, sc) for e, sc in zip(raw, scales)]
    k = len(entries)
    # every entry occurs at least once, the remaining positions are free, then an arbitrary order
    pattern = list(range(k)) + [draw(st.integers(0, k - 1)) for _ in range(dim - k)]
    pattern = list(draw(st.permutations(pattern)))
    if dim >= 4 and k >= 2 and draw(st.integers(0, 1)) == 0:
        pattern = sorted(pattern)                   # blocks: [A,A,B,B], [A,A,A,B,C], ...
    return entries, pattern, boundary


def draw_grid(draw, boundary, maxsplits, maxq=14):
    if draw(st.integers(0, 2)) < 2:
        return dict(kind="tree", bias=draw(st.sampled_from(["random", "random", "random", "first", "last", "target"])),
                    splits=draw(st.lists(st.integers(0, 63), min_size=1, max_size=maxsplits)))
    return dict(kind="sorted", by=draw(st.sampled_from(["position", "quantile"])), cluster=draw(st.sampled_from([False, False, True])),
                qs=draw(st.lists(_fl(0.001, 0.999), min_size=(0 if boundary else 1), max_size=maxq)))


def weights_strategy(tier):
    @st.composite
    def s(draw):
        far = draw(st.integers(0, 19)) == 0
        entries, pattern, boundary = draw_dims(draw, 5, far=far)
        dim = len(pattern)
        # 4-5 dimensions stay cheap: few points per dimension (the cost is one quad per interval)
        ms, mq = {1: (18, 14), 2: (18, 14), 3: (12, 10), 4: (4, 4), 5: (3, 3)}[dim]
        grids = [draw_grid(draw, boundary, ms, mq) for _ in range(dim)]
        return dict(entries=entries, pattern=pattern, boundary=boundary, grids=grids, far=far, string_form=draw(st.booleans()))
    return s()


def midpoint_strategy(tier):
    @st.composite
    def s(draw):
        entries, pattern, boundary = draw_dims(draw, 5)
        if draw(st.booleans()):
            iv = dict(kind="path", path=draw(st.lists(st.sampled_from(["L", "R"]), min_size=0, max_size=20)))
            if draw(st.integers(0, 3)) == 0:        # one-sided chains into a tail
                iv["path"] = [draw(st.sampled_from(["L", "R"]))] * len(iv["path"])
        else:
            q = [draw(st.one_of(st.sampled_from([0.0, 1.0]), _fl(0.0, 1.0))), draw(_fl(0.0, 1.0))]
            if abs(q[0] - q[1]) < 1e-6:
                q = [0.25, 0.75]
            iv = dict(kind="quantiles", q=q)
        return dict(entries=entries, pattern=pattern, boundary=boundary, interval=iv, string_form=draw(st.booleans()),
                    d=draw(st.integers(0, len(pattern) - 1)))
    return s()


def moments_strategy(tier):
    @st.composite
    def s(draw):
        route = draw(st.sampled_from(["weighted"] * 7 + ["bspline", "bspline", "lagrange"]))
        modified = draw(st.sampled_from([False, False, False, True]))
        if route == "weighted" and modified:
            entries, pattern, boundary = draw_dims(draw, 3, uniform_boundary=True)
            boundary = False                   # modified basis: all-Uniform, no boundary points
        elif route == "weighted":
            entries, pattern, boundary = draw_dims(draw, 5)
        else:
            entries, pattern, boundary = draw_dims(draw, 3, uniform_boundary=True)
        dim = len(pattern)
        tape, mode = drive.st_tape(draw, maxlen=24)
        if route != "weighted":
            lmin, lmax = 1, 2
            steps = [1, 2, 3]
        elif dim <= 3:
            lmin = draw(st.integers(1, 2))
            lmax = min(lmin + draw(st.integers(1, 2)), 3 if dim == 3 else 4)
            steps = [1, 2, 3, 4, 6, 8]
        else:                                   # 4-5 dimensions: the smallest scheme and few steps keep the case cheap
            lmin, lmax = 1, 2
            steps = [1, 1, 2, 3]
        hi = {1: 60, 2: 220, 3: 260, 4: 200, 5: 200}[dim] * (2 if tier == "thorough" else 1)
        ret = draw(st.sampled_from(RETURN_FORMS))
        # a Python float can only be returned by a scalar model (output length 1)
        L = 1 if ret == "float" else draw(st.sampled_from([0, 0, 0, 1, 2, 3, 4, 4]))
        return dict(entries=entries, pattern=pattern, boundary=boundary, string_form=draw(st.booleans()),
                    lmin=lmin, lmax=lmax,
                    version=draw(st.sampled_from([6, 6, 6, 2, 3, 7, 8])), rebalancing=draw(st.booleans()),
                    vw=draw(st.booleans()), margin=draw(st.sampled_from([0.9, 0.5, 1.0, 0.0])),
                    safety=draw(st.sampled_from([0.1, 0.0, 0.5])),
                    maxev=draw(st.integers(hi // 3, hi)), maxsteps=draw(st.sampled_from(steps)),
                    tape=tape, mode=mode, fseed=draw(st.integers(0, 10 ** 6)), nb=draw(st.integers(1, 2)),
                    affine=draw(st.lists(st.tuples(st.sampled_from([2.5, -1.0, 0.5, -3.0, 10.0, 0.0, 1e-3, 1.0]),
                                                   st.sampled_from([-1.25, 0.0, 3.0, 100.0, -0.5])).map(list),
                                         min_size=1, max_size=3)),
                    K=draw(st.sampled_from([3.0, -2.0, 1e3, 0.1])),
                    # the user model: output length (0 = full layout nb + affine + 2, i.e. 4..7), form of the value
                    # returned by eval, value cache of the model on/off
                    L=L, l1=draw(st.sampled_from(["f", "const"])), ret=ret, cache=draw(st.sampled_from([True, True, False])),
                    # further documented options: explicit dim=, set_moments_Function([1, 2]), basis-grid route with degree p
                    route=route, p=draw(st.sampled_from([3, 3, 1])), explicit_dim=draw(st.booleans()),
                    ks_form=draw(st.sampled_from([False, False, True])),
                    modified=modified)                  # effective for all-Uniform set-ups without boundary
    return s()


# ------------------------------------------------------------------------------------------------------------
# oracle self test
# ------------------------------------------------------------------------------------------------------------
def selftest():
    # reference distributions against closed forms
    t = Ref(dict(fam="Triangle", a=0.0, b=1.0, mid=0.25))
    assert abs(t.prob(0.0, 1.0) - 1.0) < 1e-15 and abs(t.prob(0.0, 0.25) - 0.25) < 1e-15
    assert abs(t.prob(0.25, 1.0) - 0.75) < 1e-15 and abs(t.cdf(t.ppf(0.6)) - 0.6) < 1e-14
    assert abs(t.m1c(0.0, 1.0) - (0.0 + 0.25 + 1.0) / 3.0) < 1e-15            # mean of a triangle = (a+mid+b)/3
    n = Ref(dict(fam="Normal", mu=0.2, sigma=2.0, trunc=0))
    assert abs(n.prob(-math.inf, 0.2) - 0.5) < 1e-15 and abs(n.prob(0.2 - 2.0, 0.2 + 2.0) - 0.6826894921370859) < 1e-14
    assert abs(n.m1c(-1.0, 3.0) - (0.2 + 1.0) * n.prob(-1.0, 3.0) - 4.0 * (n.pdf(-1.0) - n.pdf(3.0))) < 1e-15
    u = Ref(dict(fam="Uniform", a=-1.0, b=2.0))
    assert np.allclose(trapezoid([0, .25, 1]), [.125, .5, .375])
    pts = [-1.0, -0.5, 0.5, 0.75, 2.0]
    assert np.allclose(ref_weights(u, pts, True), trapezoid(pts) / 3.0, atol=1e-15)
    wt = ref_weights(t, [0.0, 0.1, 0.25, 0.6, 1.0], True)
    assert abs(wt.sum() - 1) < 1e-15 and abs(np.dot(wt, [0.0, 0.1, 0.25, 0.6, 1.0]) - 1.25 / 3) < 1e-15   # exact for x
    # weight clauses accept the exact weights and reject corrupted ones
    o = Outcome()
    judge_weights(o, "t", u, pts, trapezoid(pts) / 3.0, True, 1e-6)
    tint = trapezoid(pts)[1:-1]
    judge_weights(o, "t", u, pts, tint / tint.sum(), False, 1e-6)
    judge_weights(o, "t", t, [0.0, 0.1, 0.25, 0.6, 1.0], wt, True, 1e-6)
    assert not o.violations, o.violations
    o = Outcome()
    bad = trapezoid(pts) / 3.0
    bad[1] += 1e-9
    bad[2] -= 1e-9
    judge_weights(o, "t", u, pts, bad, True, 1e-6)
    assert [s for s, _ in o.violations] == ["t/weights/uniform-vs-trapezoid/boundary=on"], o.violations
    o = Outcome()
    judge_weights(o, "t", t, [0.0, 0.1, 0.25, 0.6, 1.0], wt * 1.00001, True, 1e-6)
    assert [s for s, _ in o.violations] == ["t/weights/sum"], o.violations
    o = Outcome()
    w2 = wt.copy()
    w2[0], w2[1] = -1e-7, w2[1] + w2[0] + 1e-7
    judge_weights(o, "t", t, [0.0, 0.1, 0.25, 0.6, 1.0], w2, True, 1e-6)
    assert [s for s, _ in o.violations] == ["t/weights/negative"], o.violations
    # midpoint clauses
    o = Outcome()
    assert judge_mid(o, "t", t, 0.0, 1.0, t.ppf(0.5), False) and not o.violations
    assert judge_mid(o, "t", n, -math.inf, math.inf, 0.2, False) and not o.violations
    judge_mid(o, "t", t, 0.0, 1.0, t.ppf(0.5 + 1e-5), False)
    assert [s for s, _ in o.violations] == ["t/midpoint/unequal-probability"], o.violations
    o = Outcome()
    assert not judge_mid(o, "t", t, 0.25, 1.0, 0.25, True) and o.violations[0][0] == "t/midpoint/not-strictly-inside/fallback"
    # moment clauses: E f = 2, Var f = 3, c = 2, e = 1 -> E = 5, Var = 12
    lay = dict(nb=1, affine=[(0, 2.0, 1.0)], one=2, const=(3, 4.0))
    o = Outcome()
    judge_moments(o, "t", [2.0, 5.0, 1.0, 4.0], [3.0, 12.0, 0.0, 1e-14], lay, 1e-6)
    assert not o.violations, o.violations
    for E, V, sig in (([2.0, 5.0 + 1e-7, 1.0, 4.0], [3.0, 12.0, 0.0, 0.0], "t/expectation-affine"),
                      ([2.0, 5.0, 1.0, 4.0], [3.0, 12.0 + 1e-6, 0.0, 0.0], "t/variance-affine"),
                      ([2.0, 5.0, 1.0, 4.0], [3.0, 12.0, 0.0, 1e-7], "t/constant-variance"),
                      ([2.0, 5.0, 1.0, 4.0 + 1e-8], [3.0, 12.0, 0.0, 0.0], "t/constant-expectation"),
                      ([2.0, 5.0, 1.0, 4.0], [3.0, 12.0, -1e-18, 0.0], "t/variance-negative")):
        o = Outcome()
        judge_moments(o, "t", E, V, lay, 1e-6)
        assert [s for s, _ in o.violations] == [sig], (sig, o.violations)
    # layouts without a constant-1 component (output length 1): S = 1 is assumed within tol_s
    o = Outcome()
    judge_moments(o, "t", [7.0 * (1 + 5e-7)], [1e-9], dict(nb=0, affine=[], one=None, const=(0, 7.0)), 1e-6, suffix="/model-returns=float")
    assert not o.violations, o.violations
    judge_moments(o, "t", [49.0], [2352.0], dict(nb=0, affine=[], one=None, const=(0, 7.0)), 1e-6, suffix="/model-returns=ndarray")
    assert sorted(s for s, _ in o.violations) == ["t/constant-expectation/model-returns=ndarray", "t/constant-variance/model-returns=ndarray"], o.violations
    # the user model hands out its values in every form with the right length; the kept form returns the same object
    for form in RETURN_FORMS:
        m = make_model([lambda x: 2.0] if form == "float" else [lambda x: 2.0, lambda x: x[0]], form)
        v = m((0.5,))
        assert list(v) == ([2.0] if form == "float" else [2.0, 0.0 if form == "int" else 0.5]), (form, v)
    m = make_model([lambda x: 2.0, lambda x: x[0]], "ndarray-kept")
    assert m.eval((0.5,)) is m.eval((0.5,))
    # the library on a closed-form case: Uniform(0,1), grid [0,.25,1]
    o = run_weights(dict(dims=[dict(fam="Uniform", a=0.0, b=1.0)], boundary=True, far=False,
                         grids=[dict(kind="sorted", by="position", cluster=False, qs=[0.25])]))
    assert not o.violations, o.violations


SUBS = [
    Sub("weights", weights_strategy, run_weights, dict(quick=1600, thorough=30000), budget_s=dict(quick=18, thorough=200)),
    Sub("midpoint", midpoint_strategy, run_midpoint, dict(quick=2400, thorough=40000), budget_s=dict(quick=8, thorough=100)),
    Sub("moments", moments_strategy, run_moments, dict(quick=480, thorough=8000), budget_s=dict(quick=26, thorough=300)),
]
