"""C09 — global adaptive 1D quadrature rules are exact on every refinement-tree grid.

Grids under test (sparseSpACE/Grid.py): GlobalTrapezoidalGrid (boundary on / off / off+modified basis),
GlobalHighOrderGrid (boundary on/off, max_degree, split_up), GlobalLagrangeGrid and GlobalBSplineGrid (order p).
They are fed exactly like SpatiallyAdaptiveSingleDimensions2 feeds them: per dimension a sorted python list of
coordinates (including both domain ends) and a list of integer tree levels, `grid.set_grid(points, levels)`, then
`grid.weights` / `grid.integrate(f, levelvec, a, b)`.

Oracles are written from the definitions and never call the weight formulas of the library:
  * trapezoid: exact integral of the reference interpolant of the unit nodal vectors (piecewise linear through the
    nodes; end values = nodal value / zero / linear extrapolation of the two outermost interior nodes);
  * polynomial exactness: closed-form monomial integrals.
"""
import math

from hypothesis import strategies as st

from vlib.core import Outcome, Sub

PROPERTY = "C09"
RULE = ("A case is an interval [a,b] (a from a fixed list of integers/dyadic/irrational-ish floats, b-a from a list "
        "containing 2 and non-2 lengths; both multiplied by a per-dimension unit s from {1 (6/13 of the draws), 2^-30, 1e-9, "
        "1e-7, 1e-6, 1e-3, 1e3, 2^20}, offsets included, e.g. [2e-9, 1.1e-8]; d=2 mixes units), a grid configuration and, per dimension (d=1 mostly, d=2 tensor spot checks), "
        "a refinement tree given as an explicit list of splits [leaf index, ratio]: start with the leaf [a,b] (levels 0,0), "
        "every split inserts leaf_left + ratio*(leaf width) with level max(neighbour levels)+1. Shapes: random leaf, always "
        "left-most / right-most leaf (strongly graded, up to 2^-25), zig-zag towards an interior point, complete binary "
        "prefix of depth 1-3 followed by random splits, nearly-uniform (complete depth 1-4 whose splits miss the midpoint "
        "by a relative 1e-6..1e-4, so the widths are nearly but not equal); ratios: 0.5 (dyadic), uniform in [0.2,0.8], {0.2,0.8} extremes or "
        "mixed; 1-40 splits (3-42 points). A quarter (hierarchical: a third) of the cases carries 'seq': ONE grid object is "
        "driven through 2-3 set_grid calls (another tree on the same [a,b], a refined superset, the same points "
        "relabelled, back to the first tree) and every clause is evaluated after EVERY set_grid; a violation that "
        "only shows in a later round and not on a fresh object gets the signature suffix "
        "/only-after-earlier-set_grid-calls-on-the-same-grid-object. Three quarters of the cases hand the point / level "
        "sequences to set_grid in a drawn container form (tuple, list of numpy scalars, float64/int64 ndarray, view "
        "into a larger array, int64 ndarray of integer-valued points; GlobalBSplineGrid: list-like forms only) and "
        "assert: the caller's containers are bit-identical after set_grid and after integrate/get_weights; all "
        "clauses hold; coordinates, weights and a probe integral equal those of the plain-list form (1e-12 rel.); in "
        "half of the cases the caller then overwrites its own containers and the grid's answers must not move "
        "(1e-13 rel.). Suffixes /argument-form=points|levels:<form>, .../caller-argument-modified, "
        ".../after-caller-reused-its-container. Sub-checks: trapezoid (boundary / noboundary / modified), highorder "
        "(boundary T/F, do_nnls T/F, max_degree 1-5, split_up T/F), hierarchical (Lagrange p 1-6, B-spline p 1,3,5 with boundary; "
        "B-spline boundary-off modified for the constant clause). Non-trivial = some dimension has >= 5 points and two "
        "leaves of different width. Distinct = distinct case dict. Class counters show the 3/4/5-point special cases, "
        "even/odd point counts, weighted and graded trees, reported high-order degrees, d=2. Sub-check large (trapezoidal "
        "family, all three modes): LARGE refinement-tree grids with more than 2^15 and up to ~1.4e5 tensor points - d=1 "
        "complete dyadic trees of depth 15-16 plus 0-4 extra (also weighted) splits, one-sided chains of 1-35 splits "
        "towards an end with a complete subtree of depth 15-16 in one of the leaves; d=2,3 tensor grids whose complete "
        "depths sum to 15-16 (e.g. 513x95, 257x257, 33^3), each dimension complete or one-sided; fixed cases plus a few "
        "generated ones. One vectorised, 4-component integrand (1, a random linear function, a smooth function, a table "
        "of random nodal values) goes through grid.integrate and every component must equal (1e-10 relative to sum "
        "|w||f| + vol*max|f|) the exact integral of the reference piecewise-linear interpolant (numpy, dimension by "
        "dimension), the sum of the tensor product of grid.weights times the nodal values, and for constants / linear "
        "functions the analytic integral (boundary, modified). Non-trivial = more than 2^15 tensor points.")
ASSUMPTIONS = [
    "large sub, modified basis: the library's own assertion on the stripe weight sum (1e-12 relative, naive summation) can fire through summation rounding alone on stripes of more than ~9000 points; such cases are counted as a precision limit of that self check (only when n * 1.1e-16 > 1e-12 explains it), never reported",
    "grids are fed as SpatiallyAdaptiveSingleDimensions2 feeds them: python lists of sorted floats incl. both domain ends, "
    "integer tree levels (ends 0, exactly one level-1 point, child level = max(neighbour levels)+1), at least 3 points",
    "modified_basis only together with boundary=False (the constructors assert this)",
    "argument forms: any Sequence of numbers is legitimate input for points and levels (test/test_Integrator.py passes "
    "np.linspace arrays and int ndarrays of levels); GlobalBSplineGrid needs a sequence with .index (the same test "
    "converts to list for this class only), so it gets list / tuple / list of np.float64 only",
    "every tolerance is relative: to max|reference weight| / (b-a), to sum|w_i f(x_i)| + (b-a)*max|f| for integrals, to "
    "the magnitude of the closed-form value for monomials; nothing in the harness is absolute in the unit of [a,b]",
    "'enough points' for degree k of a hierarchical rule := the tree contains the complete binary tree of depth m with "
    "k <= min(p, m+1) (Lagrange) / k <= min(p, 2^m) (B-spline); for k=p this is depth p-1 / ceil(log2(p+1)) "
    "(DESIGN section 3 item 2); m>=1 always, so constants, linears (and quadratics for p>=2) are demanded on every tree",
    "trapezoid, modified basis: linear exactness demanded only with >= 2 interior points (a single interior point is "
    "extrapolated constantly, DESIGN section 3 item 3)",
    "high-order rule: 'polynomials up to their order' := up to the degree the rule itself reports "
    "(get_1D_weights_and_order / recursive_splitting3), which is bounded by max_degree and by the non-negativity test of "
    "the library; with boundary=False linear exactness is demanded only when the reported degree is >= 2 (degree 1 is "
    "also what the constant-only fallback reports); constants are demanded for both flags",
    "hierarchical rules are asserted with boundary=True; zero-boundary bases (boundary=False, unmodified) cannot "
    "integrate constants by construction; GlobalLagrangeGrid(boundary=False, modified_basis=True) has no caller and "
    "raises IndexError on every grid (reported, not generated); for GlobalBSplineGrid(boundary=False, "
    "modified_basis=True) (only in commented-out callers) only the constant clause is asserted",
    "hierarchical polynomial clauses use the tolerance scale*(1e-10 + 1e-14*cond) with cond = product over the dimensions "
    "of the 2-norm condition numbers of the 1D collocation matrices, and are skipped (counted as class "
    "'ill-conditioned-skipped', never a violation) when cond > 1e9",
    "high-order rule, attained order: only on uniform grids (>= 3 points, boundary on) is a minimum order demanded "
    "(min(2, max_degree); the degree-2 moment-matched weights are positive there: Simpson for 3 points, trapezoid*(1-O(h^2)) beyond); elsewhere the attained order depends on the "
    "library's non-negativity test and only 'exact up to what it reports' is demanded",
    "constructor options covered: GlobalTrapezoidalGrid(boundary, modified_basis); GlobalHighOrderGrid(boundary, do_nnls, "
    "max_degree 1-5, split_up) - do_nnls=True has the same clauses as False; GlobalLagrangeGrid(p 1-6, boundary=True); "
    "GlobalBSplineGrid(p 1/3/5, boundary=True | boundary=False+modified). Not generated, because the unchanged tree does "
    "not support them: GlobalHighOrderGrid(modified_basis=True) (its only caller is dead code marked 'does not work'; "
    "raises ValueError/ZeroDivisionError/IndexError on most trees because the modified trapezoidal weights it uses as a "
    "discrete measure are negative), GlobalBSplineGrid(chebyshev=True) (no caller; its own get_mid_point gives unsorted "
    "points for [a,b] != [0,1]), GlobalSimpsonGrid (TypeError on every even point count; boundary=False loses mass), "
    "GlobalRombergGrid (property C11), the *Weighted classes (need a UQ operation, property C15)",
    "sub-check large covers GlobalTrapezoidalGrid only: the high-order / Lagrange / B-spline global grids need minutes "
    "for a single grid of > 2^15 points (measured: no result within 10 min for 3 grids), so large grids of those "
    "families are not generated; the integrand is a Function subclass with eval_vectorized (the documented way to "
    "vectorise, cf. the Function classes of the library)",
    "GlobalBSplineGrid trees are generated with tree level <= 11 (quick) / 13 (thorough): the class materialises the "
    "complete dyadic hierarchy (2^level entries per level), deeper trees are infeasible for the library itself; the "
    "other grids see levels up to 40/60",
]

_A = [0.0, -1.0, 2.0, -3.0, 0.25, 0.1, -0.7071067811865476, 1.0]
_LEN = [1.0, 3.0, 0.5, 2.0, 9.0, 0.75, 1.4142135623730951, 0.3]


# ----------------------------------------------------------------------------------------------------------------
# trees
# ----------------------------------------------------------------------------------------------------------------
def build_tree(a, b, splits, max_level=None):
    """splits: [[leaf_index, ratio], ...] -> (points, levels) as python lists (floats / ints).
    A split that would create a level above max_level (if given) is ignored."""
    pts = [float(a), float(b)]
    lev = [0, 0]
    for idx, ratio in splits:
        i = int(idx) % (len(pts) - 1)
        r = min(0.8, max(0.2, float(ratio)))
        m = pts[i] + (pts[i + 1] - pts[i]) * r
        if not (pts[i] < m < pts[i + 1]):
            continue        # leaf too small to be split in floating point; ignore this split
        if max_level is not None and max(lev[i], lev[i + 1]) + 1 > max_level:
            continue
        pts.insert(i + 1, m)
        lev.insert(i + 1, max(lev[i], lev[i + 1]) + 1)
    return pts, lev


def complete_depth(lev):
    """largest m such that levels 1..m are completely present (level l has 2^(l-1) points)."""
    cnt = {}
    for l in lev:
        cnt[l] = cnt.get(l, 0) + 1
    m = 0
    while cnt.get(m + 1, 0) == 2 ** m:
        m += 1
    return m


def relabel(pts, rng, balanced=False):
    """another valid tree labelling of the same sorted point set (random binary tree over the interior points;
    balanced: every root is taken from the middle third of its range, so the depth stays <= log_1.5(n) + 1)."""
    lev = [0] * len(pts)
    stack = [(1, len(pts) - 1, 1)]
    while stack:
        lo, hi, l = stack.pop()
        if lo >= hi:
            continue
        if balanced:
            third = (hi - lo) // 3
            r = int(rng.integers(lo + third, hi - third))
        else:
            r = int(rng.integers(lo, hi))
        lev[r] = l
        stack.append((lo, r, l + 1))
        stack.append((r + 1, hi, l + 1))
    return lev


def tree_classes(out, pts, lev, splits):
    n = len(pts)
    out.cls("n=%s" % (n if n <= 5 else ">5"), "n-even" if n % 2 == 0 else "n-odd")
    w = [pts[i + 1] - pts[i] for i in range(n - 1)]
    if max(w) > 1.5 * min(w):
        out.cls("non-uniform")
    if max(w) > 1000 * min(w):
        out.cls("strongly-graded(>1e3)")
    if min(w) * (1 + 1e-9) < max(w) <= min(w) * (1 + 1e-3):
        out.cls("nearly-equidistant")
    if any(abs(r - 0.5) > 1e-12 for _, r in splits):
        out.cls("weighted-midpoints")


def is_nontrivial_tree(pts):
    w = [pts[i + 1] - pts[i] for i in range(len(pts) - 1)]
    return len(pts) >= 5 and max(w) > (1 + 1e-9) * min(w)


# ----------------------------------------------------------------------------------------------------------------
# reference model for the trapezoidal rule
# ----------------------------------------------------------------------------------------------------------------
def ref_interpolant_integral(pts, v, mode):
    """exact integral over [pts[0], pts[-1]] of the reference interpolant.

    mode 'boundary'  : v has len(pts) values, piecewise linear through all nodes
    mode 'noboundary': v has len(pts)-2 values (interior nodes); the interpolant is zero at both ends
    mode 'modified'  : v has len(pts)-2 values; on the first/last cell the interpolant continues the straight line
                       through the two outermost interior nodes (constant if there is only one interior node)
    """
    n = len(pts)
    v = [float(t) for t in v]
    if mode == "boundary":
        assert len(v) == n
        y = v
    elif mode == "noboundary":
        assert len(v) == n - 2
        y = [0.0] + v + [0.0]
    elif mode == "modified":
        assert len(v) == n - 2 and n >= 3
        if len(v) == 1:
            y = [v[0], v[0], v[0]]
        else:
            sl = (v[1] - v[0]) / (pts[2] - pts[1])
            sr = (v[-1] - v[-2]) / (pts[-2] - pts[-3])
            y = [v[0] + sl * (pts[0] - pts[1])] + v + [v[-1] + sr * (pts[-1] - pts[-2])]
    else:
        raise ValueError(mode)
    return math.fsum(0.5 * (y[i] + y[i + 1]) * (pts[i + 1] - pts[i]) for i in range(n - 1))


def ref_trap_weights(pts, mode):
    """weights of the reference rule = integrals of the reference interpolants of the unit nodal vectors."""
    k = len(pts) if mode == "boundary" else len(pts) - 2
    res = []
    for i in range(k):
        e = [0.0] * k
        e[i] = 1.0
        res.append(ref_interpolant_integral(pts, e, mode))
    return res


def mono_integral(a, b, k):
    return (b ** (k + 1) - a ** (k + 1)) / (k + 1)


def check_trap_weights(out, sub, pts, w, mode, tag=""):
    """clauses on one dimension's weight vector w (python floats) of the trapezoidal rule on pts."""
    a, b = pts[0], pts[-1]
    wref = ref_trap_weights(pts, mode)
    if len(w) != len(wref):
        out.bad(sub + "/structure/weight-count", "%s %d weights for %d nodes" % (tag, len(w), len(wref)))
        return None
    scale = max([abs(t) for t in wref] + [b - a])
    # tolerance 1e-12*scale*kappa. Both sides are sums of <= 4 products of differences of the same floats (rounding
    # seen <= 7e-16*scale), except the library's closed form for 4 points with the modified basis,
    # (b^2/2 - b*x1 - a^2/2 + a*x1)/(x2-x1), which subtracts numbers of size max(|a|,|b|)^2: its absolute rounding error
    # is eps*max(|a|,|b|)^2/(x2-x1) in BOTH weights (seen: 3.1e-16*kappa*scale), however small the weight itself is.
    kappa = 1.0
    if mode == "modified" and len(pts) == 4:
        kappa = 1.0 + max(abs(a), abs(b)) ** 2 / ((b - a) * (pts[2] - pts[1]))
    tolw = 1e-12 * scale * kappa
    err = max(abs(w[i] - wref[i]) for i in range(len(w)))
    if not err <= tolw:
        i = max(range(len(w)), key=lambda j: abs(w[j] - wref[j]))
        where = "first" if i == 0 else "last" if i == len(w) - 1 else "second" if i == 1 else \
            "second-last" if i == len(w) - 2 else "inner"
        out.bad("%s/interpolant-integral/%s/%s-node" % (sub, mode, where),
                "%s weight[%d]=%r but the integral of the reference interpolant of e_%d is %r (n=%d) pts=%s"
                % (tag, i, w[i], i, wref[i], len(pts), pts[:8]))
    if mode != "modified":
        neg = [i for i in range(len(w)) if w[i] < 0]
        if neg:
            out.bad("%s/non-negative/%s" % (sub, mode), "%s weight[%d]=%r < 0" % (tag, neg[0], w[neg[0]]))
    if mode == "boundary" or (mode == "modified" and len(w) >= 2):
        x = pts if mode == "boundary" else pts[1:-1]
        # test functions al*t + be in the dimensionless coordinate t = (x-a)/(b-a) (so that the tolerance is relative
        # to b-a whatever the unit of the interval is) and the raw coordinate x itself
        for (al, be) in ((0.0, 1.0), (1.0, 0.0), (3.0, -2.0), (None, None)):
            if al is None:
                fx = [float(t) for t in x]
                ref = mono_integral(a, b, 1)
                fmax = max(abs(a), abs(b))
                name = "x"
            else:
                fx = [al * ((t - a) / (b - a)) + be for t in x]
                ref = (0.5 * al + be) * (b - a)
                fmax = max(abs(be), abs(al + be))
                name = "%g*t%+g, t=(x-a)/(b-a)" % (al, be)
            got = math.fsum(w[i] * fx[i] for i in range(len(w)))
            # scale: what the rule sums up, and (b-a) * max|f| on [a,b] (the exact value may vanish by symmetry)
            # (plus the absolute rounding allowance of every weight, see kappa above)
            sc = math.fsum(abs(w[i]) * abs(fx[i]) for i in range(len(w))) + (b - a) * fmax * kappa
            if not abs(got - ref) <= 1e-11 * sc:      # rounding seen: < 1e-14*sc
                out.bad("%s/linear-exactness/%s" % (sub, mode),
                        "%s integral of %s is %r, exact %r (n=%d) pts=%s" % (tag, name, got, ref, len(pts), pts[:8]))
                break
    return wref, tolw


class _Table(object):
    """nodal table as a callable for FunctionCustom (keys are the exact grid floats)."""

    def __init__(self, table):
        self.table = table

    def __call__(self, t):
        return self.table[tuple(float(c) for c in t)]


def _silent(fn, *a, **kw):
    import contextlib
    import io
    import warnings
    with contextlib.redirect_stdout(io.StringIO()), warnings.catch_warnings():
        warnings.simplefilter("ignore")
        return fn(*a, **kw)


_SCALES = {"2^-30": 2.0 ** -30, "1e-9": 1e-9, "1e-7": 1e-7, "1e-6": 1e-6, "1e-3": 1e-3, "1": 1.0, "1e3": 1e3,
           "2^20": 2.0 ** 20}


def _domain_of(case):
    """[a,b] per dimension = (a0, a0 + len) * s with the per-dimension unit s = case['scale'][d] (label of _SCALES)."""
    sc = [_SCALES[t] for t in case.get("scale", ["1"] * len(case["a"]))]
    a = [float(case["a"][d]) * sc[d] for d in range(len(sc))]
    b = [a[d] + float(case["len"][d]) * sc[d] for d in range(len(sc))]
    return a, b


def seq_rounds(case, a, b):
    """[(kind, trees, splits)]: the trees ONE grid object receives through successive set_grid calls.
    Round 0 ('base') is case['trees']; case['seq'] (optional) lists the following rounds:
      other-tree {trees}: an unrelated tree on the same [a,b];  refine {splits}: the current tree plus further splits;
      relabel {rng}: the same points with another valid level labelling;  back: the base tree again."""
    import numpy as np
    ml = case.get("max_level")
    dim = len(a)

    def cfg(splits):
        return [build_tree(a[d], b[d], splits[d], ml) for d in range(dim)]
    base_splits = [[list(t) for t in tr] for tr in case["trees"]]
    base = cfg(base_splits)
    res = [("base", base, base_splits)]
    cur, cur_splits = base, base_splits
    for r in case.get("seq") or []:
        k = r["kind"]
        if k == "back":
            cur, cur_splits = base, base_splits
        elif k == "other-tree":
            cur_splits = [[list(t) for t in tr] for tr in r["trees"]]
            cur = cfg(cur_splits)
        elif k == "refine":
            cur_splits = [cur_splits[d] + [list(t) for t in r["splits"][d]] for d in range(dim)]
            cur = cfg(cur_splits)
        elif k == "relabel":
            rng = np.random.default_rng(int(r["rng"]))
            cur = [(list(t[0]), relabel(t[0], rng, balanced=True)) for t in cur]
        else:
            raise ValueError(k)
        res.append((k, cur, cur_splits))
    return res


SEQ_SUFFIX = "/only-after-earlier-set_grid-calls-on-the-same-grid-object"
POINT_FORMS = ["list", "tuple", "list-np.float64", "ndarray", "ndarray-view", "int-ndarray"]
LEVEL_FORMS = ["list", "tuple", "list-np.int64", "ndarray", "ndarray-view"]


def to_form(vals, form, is_level):
    """-> (container handed to set_grid, owner array or None, form actually used).
    list / tuple of python numbers, list of numpy scalars, float64 (levels: int64) ndarray that owns its data, a view
    (slice [1:-2]) of a larger array, or - if every point is integer valued - an int64 ndarray of the points."""
    import numpy as np
    if form == "int-ndarray":
        if is_level or not all(float(v).is_integer() and abs(v) < 2 ** 52 for v in vals):
            form = "ndarray"
        else:
            return np.array([int(v) for v in vals], dtype=np.int64), None, form
    dt = np.int64 if is_level else np.float64
    if form == "list":
        return [int(v) if is_level else float(v) for v in vals], None, form
    if form == "tuple":
        return tuple(int(v) if is_level else float(v) for v in vals), None, form
    if form in ("list-np.float64", "list-np.int64"):
        return [dt(v) for v in vals], None, form
    if form == "ndarray":
        return np.array(vals, dtype=dt), None, form
    if form == "ndarray-view":
        owner = np.empty(len(vals) + 3, dtype=dt)
        owner[0] = -7
        owner[-2:] = -7
        owner[1:-2] = vals
        return owner[1:-2], owner, form
    raise ValueError(form)


def snapshot(container, owner):
    """bit-identical copy of a caller-side container (and of the array a view belongs to)"""
    import numpy as np
    if isinstance(container, np.ndarray):
        return ("nd", container.dtype, container.copy(), None if owner is None else owner.copy())
    return ("seq", type(container), [(type(v), v) for v in container], None)


def unchanged(container, owner, snap):
    import numpy as np
    if snap[0] == "nd":
        return (isinstance(container, np.ndarray) and container.dtype == snap[1] and container.shape == snap[2].shape
                and bool(np.all(container == snap[2])) and (owner is None or bool(np.all(owner == snap[3]))))
    return type(container) is snap[1] and [(type(v), v) for v in container] == snap[2]


class _Probe(object):
    """smooth positive integrand prod_d (1 + 0.5 t_d)^2, t_d = (x_d - a_d)/(b_d - a_d); used to compare answers"""

    def __init__(self, a, b):
        self.a, self.b = a, b

    def __call__(self, t):
        r = 1.0
        for d in range(len(self.a)):
            r *= (1.0 + 0.5 * (float(t[d]) - self.a[d]) / (self.b[d] - self.a[d])) ** 2
        return r


def _answers(g, trees, a, b):
    """what a caller can read off the grid object: coordinates, 1D weights, tensor weights, integral of the probe"""
    import numpy as np
    from sparseSpACE.Function import FunctionCustom
    coords = [[float(t) for t in g.coordinate_array[d]] for d in range(len(a))]
    w1 = [[float(t) for t in g.weights[d]] for d in range(len(a))]
    wt = [float(t) for t in _silent(g.get_weights)]
    val = _silent(g.integrate, FunctionCustom(_Probe(a, b)), [max(t[1]) for t in trees], a, b)
    return coords, w1, wt, float(np.asarray(val, dtype=float).reshape(-1)[0])


def _same(x, y, rel):
    """nan-safe comparison of two float lists / floats: |x-y| <= rel * max|.|"""
    xs = x if isinstance(x, list) else [x]
    ys = y if isinstance(y, list) else [y]
    if len(xs) != len(ys):
        return False
    m = max([abs(t) for t in xs + ys if t == t] + [0.0])
    return all((p == q) or (p == p and q == q and abs(p - q) <= rel * m) for p, q in zip(xs, ys))


def drive(case, sub, out, a, b, make_grid, check_round):
    """Drive ONE grid object through the rounds of the case (as an adaptive run does with its grid) and evaluate
    every clause after EVERY set_grid.  check_round(out, g, trees, splits, k).

    Arguments: the per-dimension point and level sequences are handed over in the container forms case['form'][d] =
    [point form, level form]; after set_grid and again after all integrate/get_weights calls the caller's containers
    must be bit-identical to copies taken before; the answers must equal those of a grid that got plain lists; if
    case['reuse'], the caller then overwrites its own (mutable) containers and the grid's answers must not move.

    Attribution (signature suffixes): a violation that shows in a later round but not on a fresh grid object ->
    SEQ_SUFFIX; one that shows with this container form but not with plain lists -> /argument-form=<form>."""
    import numpy as np
    from vlib.core import guarded
    dim = len(a)
    rounds = seq_rounds(case, a, b)
    forms = case.get("form") or [["list", "list"]] * dim
    plain = [["list", "list"]] * dim
    for t in case.get("scale", ["1"] * dim):
        out.cls("interval-scale=" + t)
    if len(set(case.get("scale", ["1"]))) > 1:
        out.cls("interval-scale:anisotropic")
    if len(rounds) > 1:
        out.cls("seq-rounds=%d" % len(rounds))
    out.nontrivial = any(is_nontrivial_tree(t[0]) for t in rounds[0][1])
    out.info["max_points"] = max(len(t[0]) for _, trees, _ in rounds for t in trees)
    out.info["max_level"] = max(max(t[1]) for _, trees, _ in rounds for t in trees)

    def one(o, g, trees, splits, k, forms, full):
        P = [to_form(trees[d][0], forms[d][0], False) for d in range(dim)]
        L = [to_form(trees[d][1], forms[d][1], True) for d in range(dim)]
        used = [(P[d][2], L[d][2]) for d in range(dim)]
        if full:
            for pf, lf in used:
                o.cls("points-as=" + pf, "levels-as=" + lf)
        snaps = [(snapshot(P[d][0], P[d][1]), snapshot(L[d][0], L[d][1])) for d in range(dim)]

        def args_intact(when):
            ok = True
            for d in range(dim):
                for which, X, sn in (("points", P[d], snaps[d][0]), ("levels", L[d], snaps[d][1])):
                    if not unchanged(X[0], X[1], sn):
                        o.bad("%s/arguments/%s/caller-argument-modified" % (sub, which),
                              "dim %d: the caller's %s container (%s) is not what it was before the call (%s): now %s, "
                              "passed %s" % (d, which, X[2], when, list(X[0])[:6], [v for _, v in sn[2]][:6]
                                             if sn[0] == "seq" else list(sn[2])[:6]))
                        ok = False
            return ok
        _silent(g.set_grid, [x[0] for x in P], [x[0] for x in L])
        if not args_intact("set_grid"):
            return
        check_round(o, g, trees, splits, k)
        if o.violations:
            args_intact("integrate")
            return
        ans = _answers(g, trees, a, b)
        if not args_intact("integrate/get_weights"):
            return
        # (c) the answer depends on the point set only, not on the container it arrived in
        if any(f != ("list", "list") for f in used):
            g0 = make_grid()
            _silent(g0.set_grid, [list(t[0]) for t in trees], [list(t[1]) for t in trees])
            ref = _answers(g0, trees, a, b)
            for name, x, y in (("coordinates", ans[0], ref[0]), ("weights", ans[1], ref[1]),
                               ("tensor-weights", [ans[2]], [ref[2]]), ("integrate", [[ans[3]]], [[ref[3]]])):
                if not all(_same(p, q, 1e-12) for p, q in zip(x, y)) or len(x) != len(y):
                    o.bad("%s/depends-on-argument-form/%s" % (sub, name),
                          "forms %s: %s differ from those of the same point set passed as plain lists: %s vs %s"
                          % (used, name, str(x)[:150], str(y)[:150]))
                    return
        # the caller goes on using its own containers: the grid it configured must not change
        if case.get("reuse"):
            touched = False
            for d in range(dim):
                for X, is_level in ((P[d], False), (L[d], True)):
                    c = X[0]
                    if isinstance(c, tuple):
                        continue
                    touched = True
                    if is_level:
                        c[:] = [0] * len(c)
                    elif isinstance(c, np.ndarray) and c.dtype.kind == "i":
                        c[:] = c[0]
                    else:
                        x0 = float(c[0])
                        c[:] = [x0 + 0.5 * (float(v) - x0) for v in c]
            if touched:
                o.cls("caller-reused-its-containers")
                alias = False
                for d in range(dim):
                    for stored in (g.coordinate_array[d], g.coordinate_array_with_boundary[d], g.levels[d]):
                        for X in (P[d], L[d]):
                            if stored is X[0] or (isinstance(stored, np.ndarray) and isinstance(X[0], np.ndarray)
                                                  and stored.dtype != object and np.shares_memory(stored, X[0])):
                                alias = True

                def sig(what):
                    # one signature per root cause: a grid that kept a reference to the caller's container changes in
                    # many ways (coordinates, integral, singular hierarchisation matrix); otherwise name what moved
                    if alias:
                        return "%s/grid-answers-changed/grid-stores-the-callers-container/after-caller-reused-its-container" % sub
                    return "%s/grid-answers-changed/%s/no-shared-container-found/after-caller-reused-its-container" % (sub, what)
                try:
                    after = _answers(g, trees, a, b)
                except Exception as e:      # a library exception caused by the caller's later writes is the finding
                    from vlib.core import classify_exception
                    kind, frag, text = classify_exception(e)
                    if kind != "lib":
                        raise
                    o.bad(sig("exception:" + frag), "forms %s: after the caller overwrote its own containers: %s: %s"
                          % (used, type(e).__name__, e))
                    return
                for name, x, y in (("coordinates", after[0], ans[0]), ("weights", after[1], ans[1]),
                                   ("tensor-weights", [after[2]], [ans[2]]), ("integrate", [[after[3]]], [[ans[3]]])):
                    if not all(_same(p, q, 1e-13) for p, q in zip(x, y)) or len(x) != len(y):
                        o.bad(sig(name), "forms %s (d=%d, points per dim %s): after the caller overwrote its own point/level "
                              "containers the grid's %s changed from %s to %s"
                              % (used, dim, [len(t[0]) for t in trees], name, str(y)[:150], str(x)[:150]))
                        break

    g = make_grid()
    for k, (kind, trees, splits) in enumerate(rounds):
        if k > 0:
            out.cls("seq:" + kind)
        for d, (pts, lev) in enumerate(trees):
            tree_classes(out, pts, lev, splits[d])
        nb = len(out.violations)
        cur = Outcome()
        cur.info = out.info
        guarded(sub, cur, one, cur, g, trees, splits, k, forms, True)
        out.cls(*cur.classes)
        if cur.violations:
            suffix, note = "", ""
            if k > 0:
                fresh = Outcome()
                guarded(sub, fresh, one, fresh, make_grid(), trees, splits, k, forms, True)
                if not fresh.violations:
                    suffix = SEQ_SUFFIX
                    note = ("round %d (%s) on a grid object that had %d earlier set_grid call(s); a fresh object is "
                            "clean on this tree. " % (k, kind, k))
            # signatures that already name their cause get no form suffix (one signature per root cause)
            aliasing = all("/grid-stores-the-callers-container/" in sg or "/basis-value-differs-for-integer-x" in sg
                           for sg, _ in cur.violations)
            if not suffix and forms != plain and not aliasing:
                fresh = Outcome()
                guarded(sub, fresh, one, fresh, make_grid(), trees, splits, k, plain, False)
                if not fresh.violations:
                    # which argument is responsible: the point containers (levels passed plainly) or the level containers
                    half = [[forms[d][0], "list"] for d in range(dim)]
                    fresh = Outcome()
                    guarded(sub, fresh, one, fresh, make_grid(), trees, splits, k, half, False)
                    j = 0 if fresh.violations else 1
                    used = sorted({to_form(trees[d][j], forms[d][j], bool(j))[2] for d in range(dim)} - {"list"})
                    suffix = "/argument-form=%s:%s" % ("levels" if j else "points", "+".join(used))
                    note = "clean when the same trees are passed as plain python lists. "
            for sig, msg in cur.violations:
                out.violations.append((sig + suffix, (note + msg)[:600]))
            break
    return out


def check_structure(out, sub, g, trees, boundary):
    """grid set-up from stripes and levels / boundary stripping."""
    ok = True
    for d, (pts, lev) in enumerate(trees):
        want_x = pts if boundary else pts[1:-1]
        want_l = lev if boundary else lev[1:-1]
        got_x = [float(t) for t in g.coordinate_array[d]]
        got_l = [int(t) for t in g.levels[d]]
        if got_x != want_x:
            out.bad(sub + "/structure/coordinates", "dim %d: coordinate_array %s, expected %s" % (d, got_x[:6], want_x[:6]))
            ok = False
        if got_l != want_l:
            out.bad(sub + "/structure/levels", "dim %d: levels %s, expected %s" % (d, got_l[:8], want_l[:8]))
            ok = False
        if len(g.weights[d]) != len(want_x):
            out.bad(sub + "/structure/weight-count", "dim %d: %d weights, %d nodes" % (d, len(g.weights[d]), len(want_x)))
            ok = False
        if int(g.numPoints[d]) != len(want_x) or [float(t) for t in g.coordinate_array_with_boundary[d]] != pts:
            out.bad(sub + "/structure/numPoints", "dim %d: numPoints %s" % (d, g.numPoints))
            ok = False
    return ok


# ----------------------------------------------------------------------------------------------------------------
# sub-check 1: trapezoid
# ----------------------------------------------------------------------------------------------------------------
def run_trapezoid(case):
    import numpy as np
    from sparseSpACE.Grid import GlobalTrapezoidalGrid
    from sparseSpACE.Function import FunctionCustom
    out = Outcome()
    sub = "trapezoid"
    mode = case["mode"]
    a, b = _domain_of(case)
    dim = len(a)
    boundary = mode == "boundary"
    out.cls("mode=" + mode, "d=%d" % dim)

    def make_grid():
        return GlobalTrapezoidalGrid(a, b, boundary=boundary, modified_basis=(mode == "modified"))

    def check_round(out, g, trees, splits, k):
        rng = np.random.default_rng([int(case["rng"]), k])
        if not check_structure(out, sub, g, trees, boundary):
            return
        wrefs, weff = [], []
        for d, (pts, lev) in enumerate(trees):
            w = [float(t) for t in g.weights[d]]
            res = check_trap_weights(out, sub, pts, w, mode, "dim %d" % d)
            if res is None:
                return
            wrefs.append(res[0])
            # |w_i| as the rule actually uses it, plus the absolute error each weight is allowed to have by the weight
            # clause above:  1e-11 * weff_i = 1e-11*|w_i| + tolw
            weff.append([max(abs(w[i]), abs(res[0][i])) + 1e11 * res[1] for i in range(len(w))])
            # the weights depend on the point set only: same points, another valid tree labelling -> identical weights
            g2 = GlobalTrapezoidalGrid([a[d]], [b[d]], boundary=boundary, modified_basis=(mode == "modified"))
            _silent(g2.set_grid, [list(pts)], [relabel(pts, rng)])
            w2 = [float(t) for t in g2.weights[0]]
            if w2 != w:          # exact: the same floats must go through the same arithmetic
                out.bad(sub + "/point-set-only/" + mode,
                        "dim %d: weights change with the level labels: %s vs %s" % (d, w[:5], w2[:5]))
        # arbitrary nodal values through the public integrate path (tensor rule for d=2)
        xs = [t[0] if boundary else t[0][1:-1] for t in trees]
        shape = [len(x) for x in xs]
        vals = rng.normal(size=shape) * float(case.get("vscale", 1.0))
        table = {}
        for idx in np.ndindex(*shape):
            table[tuple(xs[d][idx[d]] for d in range(dim))] = float(vals[idx])
        f = FunctionCustom(_Table(table))
        got = _silent(g.integrate, f, [max(t[1]) for t in trees], a, b)
        got = float(np.asarray(got).reshape(-1)[0])
        ref = vals
        absref = np.abs(vals)
        for d in range(dim):                      # contract dimension by dimension with the reference weights
            ref = np.tensordot(np.array(wrefs[d]), ref, axes=(0, 0))
            absref = np.tensordot(np.array(weff[d]), absref, axes=(0, 0))
        ref = float(ref)
        # scale: sum_i |w_i| |v_i| with the ACTUAL weights (two evaluations of a cancelling sum agree only relative to
        # that, not to the result) plus sum_i (allowed absolute error of w_i) |v_i|: a tiny weight that the library
        # computes with an error relative to b-a (modified basis, 4 points) must not be trusted relative to itself
        sc = float(absref) + 1e-300
        if not abs(got - ref) <= 1e-11 * sc:      # rounding seen < 1e-14*sc
            out.bad("%s/integrate-nodal-values/%s" % (sub, mode),
                    "integrate() of a random nodal table gives %r, integral of the reference interpolant %r (d=%d, n=%s)"
                    % (got, ref, dim, shape))
        out.info["rel_err_integrate"] = max(out.info.get("rel_err_integrate", 0.0), abs(got - ref) / sc)

    return drive(case, sub, out, a, b, make_grid, check_round)


# ----------------------------------------------------------------------------------------------------------------
# sub-check 2: high order
# ----------------------------------------------------------------------------------------------------------------
def _ho_blocks_explain(g, pts, lev, w_full, i0, i1, causes, depth=0):
    """Attribute a mass defect of a boundary=False rule to its cause by looking at the blocks the rule is composed of
    (the library halves the index range recursively). Only used to build the signature, never for the verdict."""
    import numpy as np
    sub_pts = pts[i0:i1 + 1]
    n_int = len(sub_pts) - 2
    length = sub_pts[-1] - sub_pts[0]
    wb = np.array(w_full[i0:i1 + 1], dtype=float)
    if n_int <= 0:
        return
    mass = float(np.sum(wb[1:-1]))
    tol = 1e-10 * max(length, abs(mass))
    direct = None
    try:
        lw, ldeg = _silent(g.get_1D_weights_and_order, list(sub_pts), sub_pts[0], sub_pts[-1], lev)
        lw = np.array(lw, dtype=float)
        if len(lw) == len(wb) and np.allclose(lw[1:-1], wb[1:-1], rtol=1e-9, atol=1e-300):
            direct = int(ldeg)
    except Exception:  # attribution only
        direct = None
    if direct is not None or len(sub_pts) <= 3 or depth > 12:
        if abs(mass - length) <= tol:
            return
        tw = np.array(ref_trap_weights(list(sub_pts), "noboundary"))
        unscaled = tw * 2.0 / np.sum(tw)
        if np.allclose(wb[1:-1], unscaled, rtol=1e-9, atol=1e-14):
            causes.add("fallback-weights-not-scaled-by-(b-a)/2")
        elif direct is not None and direct >= n_int:
            causes.add("degree>=interior-points")
        else:
            causes.add("unexplained")
        return
    half = int(len(sub_pts) / 2)
    _ho_blocks_explain(g, pts, lev, w_full, i0, i0 + half, causes, depth + 1)
    _ho_blocks_explain(g, pts, lev, w_full, i0 + half, i1, causes, depth + 1)


def _ho_degenerate_block(g, pts, lev, w_full, i0, i1, depth=0):
    """True if some block of a boundary=False rule reports a degree >= its number of interior nodes."""
    import numpy as np
    sub_pts = pts[i0:i1 + 1]
    n_int = len(sub_pts) - 2
    if n_int <= 0:
        return False
    wb = np.array(w_full[i0:i1 + 1], dtype=float)
    try:
        lw, ldeg = _silent(g.get_1D_weights_and_order, list(sub_pts), sub_pts[0], sub_pts[-1], lev)
        lw = np.array(lw, dtype=float)
        if len(lw) == len(wb) and np.allclose(lw[1:-1], wb[1:-1], rtol=1e-9, atol=1e-300):
            return int(ldeg) >= n_int and int(ldeg) >= 2
    except Exception:  # attribution only
        return False
    if len(sub_pts) <= 3 or depth > 12:
        return False
    half = int(len(sub_pts) / 2)
    return (_ho_degenerate_block(g, pts, lev, w_full, i0, i0 + half, depth + 1)
            or _ho_degenerate_block(g, pts, lev, w_full, i0 + half, i1, depth + 1))


def run_highorder(case):
    import numpy as np
    from sparseSpACE.Grid import GlobalHighOrderGrid
    from sparseSpACE.Function import FunctionCustom
    out = Outcome()
    sub = "highorder"
    boundary = bool(case["boundary"])
    maxdeg = int(case["max_degree"])
    split = bool(case["split_up"])
    nnls = bool(case.get("do_nnls", False))
    a, b = _domain_of(case)
    dim = len(a)
    out.cls("boundary=%s" % boundary, "split_up=%s" % split, "max_degree=%d" % maxdeg, "d=%d" % dim, "do_nnls=%s" % nnls)

    def make_grid():
        return GlobalHighOrderGrid(a, b, boundary=boundary, do_nnls=nnls, max_degree=maxdeg, split_up=split)

    def check_round(out, g, trees, splits, rk):
        nb = len(out.violations)
        if not check_structure(out, sub, g, trees, boundary):
            return
        degs = []
        mass_ok = True
        for d, (pts, lev) in enumerate(trees):
            x = pts if boundary else pts[1:-1]
            w = [float(t) for t in g.weights[d]]
            wfull = w if boundary else [0.0] + w + [0.0]
            L = b[d] - a[d]
            tagb = "boundary=%s" % ("on" if boundary else "off")
            # (1) constants: sum of weights == b-a. tolerance 1e-10 relative (rounding seen 1e-15)
            mass = math.fsum(w)
            if not abs(mass - L) <= 1e-10 * L:
                mass_ok = False
                causes = set()
                if not boundary:
                    _ho_blocks_explain(g, pts, lev, wfull, 0, len(pts) - 1, causes)
                for cause in (sorted(causes) if causes else ["unexplained"]):
                    out.bad("%s/constants/%s/%s" % (sub, tagb, cause),
                            "dim %d: weights sum to %r, interval length %r; split_up=%s max_degree=%d do_nnls=%s n=%d pts=%s"
                            % (d, mass, L, split, maxdeg, nnls, len(pts), pts[:10]))
            # (2) the degree the rule itself reports (second, observing call on the same object)
            w0, deg = _silent(g.get_1D_weights_and_order, list(pts), a[d], b[d], list(lev))
            if split and len(pts) > 1 and (len(pts) > 3 or boundary):
                w0, deg = _silent(g.recursive_splitting3, list(pts), a[d], b[d], deg, list(lev))
            w0 = [float(t) for t in w0]
            if not boundary:
                w0 = w0[1:-1]
            same = len(w0) == len(w) and all((w0[i] == w[i]) or (w0[i] != w0[i] and w[i] != w[i]) for i in range(len(w)))
            if not same:
                out.bad(sub + "/reported-degree/second-call-gives-other-weights", "dim %d: %s vs %s" % (d, w[:5], w0[:5]))
                degs.append(0)
                continue
            deg = int(deg)
            degs.append(deg)
            out.cls("reported-degree=%d" % deg)
            if deg == maxdeg:
                out.cls("reported-degree==max_degree")
            if deg > maxdeg:
                out.bad(sub + "/reported-degree/above-max_degree", "dim %d: reported degree %d > max_degree %d" % (d, deg, maxdeg))
            # "their order when there are enough points": on a uniform grid (>= 3 points, boundary on) the degree-2
            # moment-matched weights are positive (3 points: Simpson), so a rule with max_degree >= 2 must reach order 2
            widths = [pts[i + 1] - pts[i] for i in range(len(pts) - 1)]
            if boundary and len(pts) >= 3 and max(widths) <= (1 + 1e-9) * min(widths):
                out.cls("uniform-grid")
                if deg < min(2, maxdeg):
                    out.bad(sub + "/order-on-uniform-grid/boundary=on",
                            "dim %d: uniform grid with %d points, max_degree=%d, split_up=%s: the rule only reports degree %d"
                            % (d, len(pts), maxdeg, split, deg))
            # (3) exactness: linear with boundary; up to the reported degree (boundary off: only if it reports >= 2)
            if boundary:
                kmax = max(1, deg)
            else:
                kmax = deg if deg >= 2 else 0
            if not mass_ok:
                kmax = 0            # already reported; the same cause would only be repeated
            for k in range(1, kmax + 1):
                got = math.fsum(w[i] * x[i] ** k for i in range(len(w)))
                ref = mono_integral(a[d], b[d], k)
                sc = math.fsum(abs(w[i]) * abs(x[i]) ** k for i in range(len(w))) + abs(ref) + 1e-300
                if not abs(got - ref) <= 1e-10 * sc:          # rounding seen < 1e-15*sc
                    cause = "k<=reported-degree"
                    if not boundary and _ho_degenerate_block(g, pts, lev, wfull, 0, len(pts) - 1):
                        cause = "degree>=interior-points"
                    elif boundary and k == 1:
                        cause = "linear"
                    out.bad("%s/polynomial-exactness/%s/%s" % (sub, tagb, cause),
                            "dim %d: integral of x^%d is %r, exact %r; reported degree %d, max_degree=%d split_up=%s n=%d pts=%s"
                            % (d, k, got, ref, deg, maxdeg, split, len(pts), pts[:10]))
                    break
        if len(out.violations) > nb:
            return
        # (4) public integrate path (tensor rule for d=2) on monomials within the reported degrees
        combos = {tuple([0] * dim)}
        if boundary:
            combos.add(tuple([1] * dim))
            combos.add(tuple(max(1, k) for k in degs))
        else:
            combos.add(tuple(k if k >= 2 else 0 for k in degs))
        for ks in sorted(combos):
            f = FunctionCustom(_Mono(ks))
            got = _silent(g.integrate, f, [max(t[1]) for t in trees], a, b)
            got = float(np.asarray(got).reshape(-1)[0])
            ref = 1.0
            sc = 1.0
            for d in range(dim):
                ref *= mono_integral(a[d], b[d], ks[d])
                sc *= (b[d] - a[d]) * max(abs(a[d]), abs(b[d])) ** ks[d]
            if not abs(got - ref) <= 1e-10 * (sc + abs(ref)):
                out.bad("%s/integrate-monomial/%s" % (sub, "boundary=%s" % ("on" if boundary else "off")),
                        "integrate(x^%s) = %r, exact %r (reported degrees %s)" % (list(ks), got, ref, degs))
                break

    return drive(case, sub, out, a, b, make_grid, check_round)


class _Monos(object):
    """vector valued: all monomials of the list at once (one hierarchisation for all of them)."""

    def __init__(self, combos):
        self.monos = [_Mono(ks) for ks in combos]

    def __call__(self, t):
        return [m(t) for m in self.monos]


class _Mono(object):
    def __init__(self, ks):
        self.ks = ks

    def __call__(self, t):
        r = 1.0
        for d, k in enumerate(self.ks):
            r *= float(t[d]) ** k
        return r


# ----------------------------------------------------------------------------------------------------------------
# sub-check 3: hierarchical rules
# ----------------------------------------------------------------------------------------------------------------
def hier_kmax(family, p, mode, m):
    """highest monomial degree demanded on a tree whose complete depth is m (>= 1)."""
    if mode == "modified":
        return 0
    if family == "lagrange":
        return min(p, m + 1)
    return min(p, 2 ** m)


def run_hierarchical(case):
    import numpy as np
    from sparseSpACE.Grid import GlobalLagrangeGrid, GlobalBSplineGrid
    from sparseSpACE.Function import FunctionCustom
    out = Outcome()
    sub = "hierarchical"
    family, p, mode = case["family"], int(case["p"]), case["mode"]
    a, b = _domain_of(case)
    dim = len(a)
    boundary = mode == "boundary"
    cls = GlobalLagrangeGrid if family == "lagrange" else GlobalBSplineGrid
    out.cls("%s-p%d" % (family, p), "mode=" + mode, "d=%d" % dim)

    def make_grid():
        return cls(a, b, boundary=boundary, modified_basis=(mode == "modified"), p=p)

    def check_round(out, g, trees, splits, rk):
        if not check_structure(out, sub, g, trees, boundary):
            return
        kmax, cond = [], 1.0
        for d, (pts, lev) in enumerate(trees):
            m = complete_depth(lev)
            kmax.append(hier_kmax(family, p, mode, m))
            x = [float(t) for t in g.coordinate_array[d]]
            if len(g.basis[d]) != len(x):
                out.bad(sub + "/structure/basis-count",
                        "dim %d: %d basis functions for %d nodes" % (d, len(g.basis[d]), len(x)))
                return
            raw = list(g.coordinate_array[d])
            if any(isinstance(t, (int, np.integer)) for t in raw):
                # integer point arrays: the value of a basis function must not depend on the numeric type of x
                out.cls("integer-coordinates")
                for i, xi in enumerate(raw):
                    vi = [float(_silent(g.basis[d][j], xi)) for j in range(len(x))]
                    vf = [float(_silent(g.basis[d][j], float(xi))) for j in range(len(x))]
                    if not _same(vi, vf, 1e-12):
                        j = max(range(len(x)), key=lambda q: abs(vi[q] - vf[q]) if vi[q] == vi[q] else 1e300)
                        out.bad(sub + "/depends-on-argument-form/basis-value-differs-for-integer-x",
                                "dim %d %s p=%d: basis[%d](%r) = %r but basis[%d](%r) = %r (integer arithmetic overflow?)"
                                % (d, family, p, j, xi, vi[j], j, float(xi), vf[j]))
                        return
            M = np.array([[float(g.basis[d][j](xi)) for j in range(len(x))] for xi in x])
            c = float(np.linalg.cond(M)) if np.all(np.isfinite(M)) else float("inf")
            cond = cond * c     # the tensor-product collocation system has the product of the 1D condition numbers
            out.cls("complete-depth=%d" % min(m, 4))
        out.info["max_cond"] = max(out.info.get("max_cond", 0.0), cond if math.isfinite(cond) else 1e300)
        if not cond <= 1e9:
            out.cls("ill-conditioned-skipped")
            return
        out.cls("demanded-degree=%d" % max(kmax))
        if family == "bspline" and max(kmax) == p and p > 1 or family == "lagrange" and max(kmax) == p and p > 2:
            out.cls("full-order-demanded(p>=3)")
        if rk > 0 and family == "bspline" and p >= 3:
            out.cls("seq:bspline-p>=3-later-round-checked")
        if dim == 1:
            combos = [(k,) for k in range(kmax[0] + 1)]
        else:
            combos = sorted({(0, 0), (min(1, kmax[0]), min(1, kmax[1])), (kmax[0], 0), (0, kmax[1]), (kmax[0], kmax[1])})
        relmax = 0.0
        f = FunctionCustom(_Monos(combos), output_dim=len(combos))
        res = np.asarray(_silent(g.integrate, f, [max(t[1]) for t in trees], a, b), dtype=float).reshape(-1)
        if len(res) != len(combos):
            out.bad(sub + "/structure/integrate-output-length", "%d results for %d components" % (len(res), len(combos)))
            return
        for ci, ks in enumerate(combos):
            got = float(res[ci])
            ref, sc = 1.0, 1.0
            for d in range(dim):
                ref *= mono_integral(a[d], b[d], ks[d])
                sc *= (b[d] - a[d]) * max(abs(a[d]), abs(b[d]), b[d] - a[d]) ** ks[d]
            tol = (sc + abs(ref)) * (1e-10 + 1e-14 * cond)
            relmax = max(relmax, abs(got - ref) / (sc + abs(ref)))
            if not abs(got - ref) <= tol:
                kk = max(ks)
                clause = "constants" if kk == 0 else "linear" if kk == 1 else "degree<=order-with-enough-points"
                out.bad("%s/%s/%s-%s" % (sub, clause, family, mode),
                        "%s p=%d %s: integrate(x^%s) = %r, exact %r; complete depths %s, n=%s, cond=%.1e, pts=%s lev=%s"
                        % (family, p, mode, list(ks), got, ref, [complete_depth(t[1]) for t in trees],
                           [len(t[0]) for t in trees], cond, trees[0][0][:9], trees[0][1][:9]))
                break
        out.info["rel_err"] = max(out.info.get("rel_err", 0.0), relmax)

    return drive(case, sub, out, a, b, make_grid, check_round)


# ----------------------------------------------------------------------------------------------------------------
# sub-check 4: large refinement-tree grids through the public integrate path (trapezoidal family)
# ----------------------------------------------------------------------------------------------------------------
def build_big_tree(a, b, ops):
    """ops: ['split', leaf, ratio] (as build_tree) | ['fill', leaf, depth] (complete dyadic subtree of `depth` levels
    inside leaf `leaf`; levels continue below max(neighbour levels)). -> (points, levels) python lists."""
    import numpy as np
    pts, lev = [float(a), float(b)], [0, 0]
    for op in ops:
        i = int(op[1]) % (len(pts) - 1)
        if op[0] == "split":
            r = min(0.8, max(0.2, float(op[2])))
            m = pts[i] + (pts[i + 1] - pts[i]) * r
            if pts[i] < m < pts[i + 1]:
                pts.insert(i + 1, m)
                lev.insert(i + 1, max(lev[i], lev[i + 1]) + 1)
        elif op[0] == "fill":
            depth = int(op[2])
            n = 2 ** depth
            j = np.arange(1, n)
            x = pts[i] + (pts[i + 1] - pts[i]) * (j / n)
            if not (pts[i] < x[0] and x[-1] < pts[i + 1] and np.all(np.diff(x) > 0)):
                continue        # leaf too small for this subtree in floating point
            tz = np.log2(j & -j).astype(int)
            l0 = max(lev[i], lev[i + 1])
            pts[i + 1:i + 1] = [float(t) for t in x]
            lev[i + 1:i + 1] = [int(l0 + depth - t) for t in tz]
        else:
            raise ValueError(op)
    return pts, lev


def np_interp_contract(pts, V, mode):
    """V: nodal values along axis 0 (all nodes for 'boundary', interior nodes otherwise). Returns the exact integral
    over [pts[0], pts[-1]] of the reference interpolant along axis 0 (same definition as ref_interpolant_integral)."""
    import numpy as np
    p = np.asarray(pts, dtype=float)
    V = np.asarray(V, dtype=float)
    if mode == "boundary":
        Y = V
    elif mode == "noboundary":
        z = np.zeros((1,) + V.shape[1:])
        Y = np.concatenate([z, V, z], axis=0)
    elif mode == "modified":
        if V.shape[0] == 1:
            Y = np.concatenate([V, V, V], axis=0)
        else:
            sl = (V[1] - V[0]) / (p[2] - p[1])
            sr = (V[-1] - V[-2]) / (p[-2] - p[-3])
            Y = np.concatenate([(V[0] + sl * (p[0] - p[1]))[None], V, (V[-1] + sr * (p[-1] - p[-2]))[None]], axis=0)
    else:
        raise ValueError(mode)
    assert Y.shape[0] == len(p)
    return np.tensordot(np.diff(p), 0.5 * (Y[:-1] + Y[1:]), axes=(0, 0))


def _big_function(xs, a, b, rng):
    """vector valued, vectorised integrand with 4 components: 1, a linear function, a smooth function, a table of random
    nodal values (looked up by the exact grid floats). Returns (Function object, nodal value array [*shape, 4], lin)."""
    import numpy as np
    from sparseSpACE.Function import Function
    dim = len(xs)
    a_, b_ = np.array(a, dtype=float), np.array(b, dtype=float)
    c0 = float(rng.uniform(-2, 2))
    c = rng.uniform(-3, 3, size=dim)
    k = rng.uniform(0.5, 6.0, size=dim)
    ph = float(rng.uniform(0, 6.0))
    shape = [len(x) for x in xs]
    table = rng.normal(size=shape)
    xa = [np.asarray(x, dtype=float) for x in xs]

    def values(X):
        X = np.asarray(X, dtype=float).reshape(-1, dim)
        T = (X - a_) / (b_ - a_)
        res = np.empty((X.shape[0], 4))
        res[:, 0] = 1.0
        res[:, 1] = c0 + T @ c
        res[:, 2] = np.cos(T @ k + ph) + np.exp(-T[:, 0])
        idx = [np.clip(np.searchsorted(xa[d], X[:, d]), 0, shape[d] - 1) for d in range(dim)]
        ok = np.ones(X.shape[0], dtype=bool)
        for d in range(dim):
            ok &= xa[d][idx[d]] == X[:, d]
        res[:, 3] = np.where(ok, table[tuple(idx)], np.nan)      # evaluated off the grid -> nan -> reported
        return res

    class _F(Function):
        def output_length(self):
            return 4

        def eval(self, x):
            return values([x])[0]

        def eval_vectorized(self, X):
            return values(X)

    mesh = np.stack(np.meshgrid(*xa, indexing="ij"), axis=-1).reshape(-1, dim)
    return _F(), values(mesh).reshape(shape + [4]), (c0, c)


def run_large(case):
    import numpy as np
    from sparseSpACE.Grid import GlobalTrapezoidalGrid
    out = Outcome()
    sub = "large"
    mode = case["mode"]
    boundary = mode == "boundary"
    a = [float(t) for t in case["a"]]
    b = [a[d] + float(case["len"][d]) for d in range(len(a))]
    dim = len(a)
    rng = np.random.default_rng(int(case["rng"]))
    trees = [build_big_tree(a[d], b[d], case["trees"][d]) for d in range(dim)]
    xs = [t[0] if boundary else t[0][1:-1] for t in trees]
    shape = [len(x) for x in xs]
    N = int(np.prod(shape))
    out.cls("mode=" + mode, "d=%d" % dim, "shape=" + case.get("shape", "?"))
    out.cls("N>2^16" if N > 2 ** 16 else "N>2^15" if N > 2 ** 15 else "N<=2^15(control)")
    out.cls("N-odd" if N % 2 else "N-even")
    for pts, lev in trees:
        w = np.diff(pts)
        if w.max() > 1000 * w.min():
            out.cls("strongly-graded(>1e3)")
        if any(op[0] == "split" and abs(float(op[2]) - 0.5) > 1e-12 for tr in case["trees"] for op in tr):
            out.cls("weighted-midpoints")
    out.nontrivial = N > 2 ** 15
    out.info["max_tensor_points"] = N
    g = GlobalTrapezoidalGrid(a, b, boundary=boundary, modified_basis=(mode == "modified"))
    try:
        _silent(g.set_grid, [list(t[0]) for t in trees], [list(t[1]) for t in trees])
    except AssertionError as e:
        import traceback
        nmax = max(len(t[0]) for t in trees)
        # The library checks the sum of the modified-basis weights of a stripe against b - a with a relative tolerance of
        # 1e-12, summing n floats naively: the summation rounding alone (about n * 1.1e-16 relative) exceeds that tolerance
        # for stripes of more than ~9000 points (observed: 65538 points on [0, sqrt 2]).  That is a precision limit of the
        # library's self check on large grids, not a wrong rule: counted, not reported, and only when the bound explains it.
        if (mode == "modified" and traceback.extract_tb(e.__traceback__)[-1].name == "compute_weights" and nmax * 1.1e-16 > 1e-12):
            out.cls("library-self-check-of-the-modified-weight-sum(1e-12)-exceeded-by-summation-rounding-on-a-large-stripe")
            return out
        raise
    if [len(t) for t in g.weights] != shape:
        out.bad(sub + "/structure/weight-count", "weights per dimension %s, nodes %s" % ([len(t) for t in g.weights], shape))
        return out
    f, vals, (c0, c) = _big_function(xs, a, b, rng)
    got = np.asarray(_silent(g.integrate, f, [max(t[1]) for t in trees], a, b), dtype=float).reshape(-1)
    if got.shape != (4,):
        out.bad(sub + "/structure/integrate-output-length", "%s results for 4 components" % (got.shape,))
        return out
    # the same integrand, scalar valued (component 1 = linear function), second call on the same grid object
    ref_interp, ref_w, sc = vals, vals, np.abs(vals)
    for d in range(dim):
        wd = np.asarray(g.weights[d], dtype=float)
        ref_interp = np_interp_contract(trees[d][0], ref_interp, mode)      # exact integral of the reference interpolant
        ref_w = np.tensordot(wd, ref_w, axes=(0, 0))                        # sum of (tensor weights) * values
        sc = np.tensordot(np.abs(wd), sc, axes=(0, 0))
    vol = float(np.prod([b[d] - a[d] for d in range(dim)]))
    sc = sc + vol * np.abs(vals).reshape(-1, 4).max(axis=0)
    names = ["constant", "linear", "smooth", "nodal-table"]
    exact = [vol, vol * (c0 + 0.5 * float(np.sum(c))), None, None]
    lin_ok = boundary or (mode == "modified" and min(shape) >= 2)
    rel = 0.0
    for i in range(4):
        # tolerance 1e-10 relative to sum |w||f| + vol*max|f| (rounding seen on the unchanged tree < 1e-14)
        tol = 1e-10 * float(sc[i])
        e1, e2 = abs(got[i] - float(ref_interp[i])), abs(got[i] - float(ref_w[i]))
        rel = max(rel, (e1 if e1 == e1 else 1.0) / float(sc[i]), (e2 if e2 == e2 else 1.0) / float(sc[i]))
        if not e2 <= tol:
            out.bad("%s/integrate-vs-sum-of-weights-times-values/%s" % (sub, mode),
                    "%s: integrate() = %r but sum of grid.weights (tensor) * f = %r; points per dim %s (N=%d)"
                    % (names[i], float(got[i]), float(ref_w[i]), shape, N))
            break
        if not e1 <= tol:
            out.bad("%s/integrate-vs-interpolant-integral/%s" % (sub, mode),
                    "%s: integrate() = %r, exact integral of the piecewise-linear interpolant %r; points per dim %s (N=%d)"
                    % (names[i], float(got[i]), float(ref_interp[i]), shape, N))
            break
        if exact[i] is not None and lin_ok and not abs(got[i] - exact[i]) <= tol:
            out.bad("%s/%s-exactness/%s" % (sub, names[i], mode),
                    "integrate() of a %s function = %r, exact %r; points per dim %s (N=%d)"
                    % (names[i], float(got[i]), exact[i], shape, N))
            break
    out.info["rel_err_large"] = rel
    return out


def _chain(n, side):
    """n splits of the left-most / right-most leaf: ['split', 0, .5] resp. leaf index -1 (== last leaf modulo count)"""
    return [["split", 0 if side == "left" else -1, 0.5] for _ in range(n)]


def large_fixed():
    cases = []
    for mode in ("boundary", "noboundary", "modified"):
        cases.append(dict(a=[0.0], len=[1.0], mode=mode, shape="1d-complete", rng=1, trees=[[["fill", 0, 15]] + (
            [] if mode == "boundary" else [["split", 0, 0.5], ["split", 7, 0.5], ["split", 100, 0.5]])]))
        cases.append(dict(a=[-1.0, 0.5], len=[3.0, 1.0], mode=mode, shape="2d", rng=2,
                          trees=[[["fill", 0, 9]], _chain(30, "left") + [["fill", -1, 6]]]))
    cases.append(dict(a=[2.0], len=[0.5], mode="boundary", shape="1d-complete", rng=3,
                      trees=[[["fill", 0, 15], ["split", 5, 0.5], ["split", 777, 0.3], ["split", 20000, 0.5]]]))
    cases.append(dict(a=[0.0], len=[1.0], mode="boundary", shape="1d-complete", rng=4, trees=[[["fill", 0, 16], ["split", 3, 0.5]]]))
    cases.append(dict(a=[-3.0], len=[9.0], mode="boundary", shape="1d-onesided", rng=5,
                      trees=[_chain(25, "left") + [["fill", -1, 15], ["fill", 3, 10]]]))
    cases.append(dict(a=[0.25], len=[2.0], mode="modified", shape="1d-onesided", rng=6,
                      trees=[_chain(20, "right") + [["fill", 0, 15], ["split", 100, 0.7]]]))
    cases.append(dict(a=[0.0, 0.0], len=[1.0, 2.0], mode="boundary", shape="2d", rng=7,
                      trees=[[["fill", 0, 8]], [["fill", 0, 8]]]))
    cases.append(dict(a=[0.0, 0.0], len=[1.0, 2.0], mode="noboundary", shape="2d", rng=8,
                      trees=[[["fill", 0, 8], ["split", 9, 0.5]], [["fill", 0, 8], ["split", 0, 0.5], ["split", 0, 0.5]]]))
    cases.append(dict(a=[0.0, 1.0, -1.0], len=[1.0, 1.0, 2.0], mode="boundary", shape="3d", rng=9,
                      trees=[[["fill", 0, 5]], [["fill", 0, 5]], [["fill", 0, 5]]]))
    cases.append(dict(a=[-1.0, 0.5], len=[3.0, 1.0], mode="boundary", shape="2d", rng=10,       # small control
                      trees=[[["fill", 0, 4]], _chain(4, "left") + [["fill", -1, 1]]]))
    return cases


def large_strategy(tier):
    @st.composite
    def s(draw):
        dim = draw(st.sampled_from([1, 1, 2, 2, 2, 3]))
        mode = draw(st.sampled_from(["boundary", "boundary", "noboundary", "modified"]))
        # sum of the complete depths: > 2^15 tensor points by construction (interior points only: one level more)
        total = draw(st.sampled_from([15, 15, 16])) if mode == "boundary" else 16
        if dim == 1:
            depths = [total]
        elif dim == 2:
            k0 = draw(st.integers(3, total - 3))
            depths = [k0, total - k0]
        else:
            k0 = draw(st.integers(3, 7))
            k1 = draw(st.integers(3, total - k0 - 3))
            depths = [k0, k1, total - k0 - k1]
        trees, shapes = [], []
        for d in range(dim):
            k = depths[d]
            ops = []
            kind = draw(st.sampled_from(["complete", "onesided", "onesided"]))
            if kind == "onesided":
                n = draw(st.integers(1, min(35, max(1, 2 ** (k - 2)))))
                side = draw(st.sampled_from(["left", "right"]))
                ops += _chain(n, side)
                ops.append(["fill", draw(st.integers(0, n)), k])
            else:
                ops.append(["fill", 0, k])
            for _ in range(draw(st.integers(0, 4))):
                ops.append(["split", draw(st.integers(0, 2 ** k + 40)),
                            draw(st.sampled_from([0.5, 0.5, 0.5, 0.3, 0.7, 0.2, 0.6180339887498949]))])
            trees.append(ops)
            shapes.append(kind)
        return dict(a=[draw(st.sampled_from(_A)) for _ in range(dim)], len=[draw(st.sampled_from(_LEN)) for _ in range(dim)],
                    mode=mode,
                    shape="%dd-%s" % (dim, "onesided" if "onesided" in shapes else "complete"),
                    trees=trees, rng=draw(st.integers(0, 2 ** 31 - 1)))
    return s()



# ----------------------------------------------------------------------------------------------------------------
# strategies
# ----------------------------------------------------------------------------------------------------------------
@st.composite
def _tree(draw, max_splits, min_complete=0, graded_ok=True, weighted_ok=True, max_level=60):
    shape = draw(st.sampled_from(["random", "random", "left", "right", "zigzag", "complete", "complete", "nearly-uniform"]
                                 if graded_ok else ["random", "complete", "complete"]))
    rmode = draw(st.sampled_from(["dyadic", "dyadic", "weighted", "extreme", "mixed"] if weighted_ok else ["dyadic"]))
    if shape == "nearly-uniform":
        # complete tree whose splits miss the midpoint by a relative 1e-6 .. 1e-4: nearly, but not, equidistant widths
        rmode = "nearly"
        eps = draw(st.sampled_from([5e-7, 2e-6, 1e-5, 5e-5]))
        same_sign = draw(st.booleans())

    def ratio():
        if rmode == "nearly":
            return 0.5 + (eps if same_sign else eps * draw(st.sampled_from([-1.0, 1.0, 0.0])))
        if rmode == "dyadic":
            return 0.5
        if rmode == "weighted":
            return draw(st.floats(0.2, 0.8, allow_nan=False))
        if rmode == "extreme":
            return draw(st.sampled_from([0.2, 0.8]))
        return draw(st.sampled_from([0.5, 0.5, 0.2, 0.8, 0.35, 0.6180339887498949]))

    splits = []
    count = 1                      # number of leaves
    lev = [0, 0]                   # levels, simulated so that max_level can be respected by construction

    def do_split(i, r):
        splits.append([i, r])
        lev.insert(i + 1, max(lev[i], lev[i + 1]) + 1)

    depth = min_complete
    if shape == "complete":
        depth = max(min_complete, draw(st.integers(1, 3)))
    if shape == "nearly-uniform":
        depth = min(max_level, max(min_complete, draw(st.integers(1, 4)), 1))
        max_splits = 2 ** depth - 1 + draw(st.sampled_from([0, 0, 0, 1]))
    for l in range(depth):
        # split every leaf of the current complete level, left to right (index 0,2,4,... after insertion)
        for j in range(2 ** l):
            do_split(2 * j, ratio())
        count = 2 ** (l + 1)
    n = draw(st.integers(0 if splits else 1, max(1, max_splits - len(splits))))
    last = 0
    for _ in range(n):
        if shape == "left":
            i = 0
        elif shape == "right":
            i = count - 1
        elif shape == "zigzag":
            i = last if (len(splits) % 2 == 0) else min(count - 1, last + 1)
        else:
            i = draw(st.integers(0, count - 1))
        for _try in range(count):          # respect max_level: move on to the next leaf that may still be split
            if max(lev[i], lev[i + 1]) + 1 <= max_level:
                break
            i = (i + 1) % count
        else:
            break
        last = i
        do_split(i, ratio())
        count += 1
    return splits


_SEQ_KINDS = [["other-tree"], ["other-tree", "back"], ["other-tree", "other-tree"], ["other-tree", "refine"],
              ["refine"], ["refine", "back"], ["relabel"], ["relabel", "back"], ["relabel", "other-tree"],
              ["refine", "relabel"]]


@st.composite
def _seq(draw, dim, other_tree):
    """1-2 further set_grid rounds for the same grid object (so 2-3 set_grid calls in total)."""
    seq = []
    for k in draw(st.sampled_from(_SEQ_KINDS)):
        if k == "other-tree":
            seq.append(dict(kind=k, trees=[draw(other_tree()) for _ in range(dim)]))
        elif k == "refine":
            seq.append(dict(kind=k, splits=[[[draw(st.integers(0, 60)), draw(st.sampled_from([0.5, 0.5, 0.3, 0.7, 0.2]))]
                                             for _ in range(draw(st.integers(1, 4)))] for _ in range(dim)]))
        elif k == "relabel":
            seq.append(dict(kind=k, rng=draw(st.integers(0, 2 ** 31 - 1))))
        else:
            seq.append(dict(kind=k))
    return seq


@st.composite
def _forms(draw, dim, point_forms=None):
    """container forms of the point / level sequences handed to set_grid, per dimension"""
    pf = point_forms or ["list", "list", "tuple", "list-np.float64", "ndarray", "ndarray", "ndarray-view", "int-ndarray"]
    lf = ["list", "list", "tuple", "list-np.int64", "ndarray", "ndarray", "ndarray-view"]
    one = [draw(st.sampled_from(pf)), draw(st.sampled_from(lf))]
    return [list(one) for _ in range(dim)]      # one form pair per case (int-ndarray still falls back per dimension)


_SCALE_DRAW = ["1"] * 6 + ["2^-30", "1e-9", "1e-7", "1e-6", "1e-3", "1e3", "2^20"]


@st.composite
def _domain(draw, dim):
    """(a0, len, scale labels): intervals in usual and unusual units, offsets included; per-dimension different units"""
    return ([draw(st.sampled_from(_A)) for _ in range(dim)], [draw(st.sampled_from(_LEN)) for _ in range(dim)],
            [draw(st.sampled_from(_SCALE_DRAW)) for _ in range(dim)])


def trapezoid_strategy(tier):
    big = 40 if tier == "quick" else 60

    @st.composite
    def s(draw):
        dim = draw(st.sampled_from([1, 1, 1, 2]))
        a, ln, scale = draw(_domain(dim))
        mode = draw(st.sampled_from(["boundary", "noboundary", "modified", "modified"]))
        small = draw(st.integers(0, 5)) == 0       # the 3-6 point special cases get their own share
        def tree():
            return _tree(draw(st.integers(1, 4)) if small else (big if dim == 1 else 14))
        trees = [draw(tree()) for _ in range(dim)]
        case = dict(a=a, len=ln, scale=scale, mode=mode, trees=trees, rng=draw(st.integers(0, 2 ** 31 - 1)),
                    vscale=draw(st.sampled_from([1.0, 1.0, 1e3, 1e-3])))
        if draw(st.integers(0, 3)) == 0:
            case["seq"] = draw(_seq(dim, tree))
        if draw(st.integers(0, 3)) > 0:
            case["form"] = draw(_forms(dim))
            if case["form"][0][0] == "int-ndarray":
                case["scale"] = ["2^20"] * dim      # dyadic trees on [a0, a0+len]*2^20 have integer valued points
        case["reuse"] = draw(st.booleans())
        return case
    return s()


def highorder_strategy(tier):
    big = 40 if tier == "quick" else 60

    @st.composite
    def s(draw):
        dim = draw(st.sampled_from([1, 1, 1, 2]))
        a, ln, scale = draw(_domain(dim))
        small = draw(st.integers(0, 5)) == 0
        def tree():
            return _tree(draw(st.integers(1, 5)) if small else (big if dim == 1 else 14))
        trees = [draw(tree()) for _ in range(dim)]
        case = dict(a=a, len=ln, scale=scale, boundary=draw(st.booleans()), max_degree=draw(st.sampled_from([2, 5, 2, 5, 1, 3, 4])),
                    split_up=draw(st.booleans()), do_nnls=draw(st.sampled_from([False, False, True])), trees=trees,
                    rng=draw(st.integers(0, 2 ** 31 - 1)))
        if draw(st.integers(0, 3)) == 0:
            case["seq"] = draw(_seq(dim, tree))
        if draw(st.integers(0, 3)) > 0:
            case["form"] = draw(_forms(dim))
            if case["form"][0][0] == "int-ndarray":
                case["scale"] = ["2^20"] * dim      # dyadic trees on [a0, a0+len]*2^20 have integer valued points
        case["reuse"] = draw(st.booleans())
        return case
    return s()


def complete_splits(depth, ratio=0.5):
    return [[2 * j, ratio] for l in range(depth) for j in range(2 ** l)]


def highorder_fixed():
    """uniform grids (complete dyadic trees): here the order of the rule is known a priori."""
    cases = []
    for depth in (1, 2, 3, 4, 5):
        for md in (2, 3, 5):
            for split in (False, True):
                for a, ln in ((0.0, 1.0), (-3.0, 9.0), (2.0, 0.5)):
                    cases.append(dict(a=[a], len=[ln], boundary=True, max_degree=md, split_up=split,
                                      trees=[complete_splits(depth)], rng=0))
                    if a == 0.0:
                        cases.append(dict(a=[a], len=[ln], boundary=True, max_degree=md, split_up=split, do_nnls=True,
                                          trees=[complete_splits(depth)], rng=0))
    for bd in (True, False):
        for split in (False, True):
            cases.append(dict(a=[-1.0], len=[3.0], boundary=bd, max_degree=5, split_up=split, do_nnls=True,
                              trees=[[[0, 0.5]] * 4], rng=0))                       # refined towards the left end
            cases.append(dict(a=[0.0], len=[1.0], boundary=bd, max_degree=5, split_up=split, do_nnls=True,
                              trees=[[[0, 0.5], [1, 0.2], [0, 0.8], [2, 0.35], [4, 0.6180339887498949]]], rng=0))
    cases.append(dict(a=[0.0, 2.0], len=[1.0, 3.0], boundary=True, max_degree=2, split_up=False,
                      trees=[complete_splits(2), complete_splits(3)], rng=0))
    return cases


def hierarchical_strategy(tier):
    big = 30 if tier == "quick" else 45

    @st.composite
    def s(draw):
        dim = draw(st.sampled_from([1, 1, 1, 2]))
        a, ln, scale = draw(_domain(dim))
        family = draw(st.sampled_from(["lagrange", "bspline"]))
        if family == "lagrange":
            p = draw(st.sampled_from([1, 2, 3, 4, 3, 2, 5, 6]))
            mode = "boundary"
            need = draw(st.sampled_from([0, 0, min(4, max(0, p - 1))]))
        else:
            p = draw(st.sampled_from([1, 3, 5, 3]))
            mode = draw(st.sampled_from(["boundary", "boundary", "boundary", "modified"]))
            need = draw(st.sampled_from([0, 0, {1: 1, 3: 2, 5: 3}[p]]))
        small = draw(st.integers(0, 6)) == 0
        # GlobalBSplineGrid materialises the complete dyadic hierarchy (2^level entries per level): bound the depth
        max_level = (11 if tier == "quick" else 13) if family == "bspline" else 60
        seq = draw(st.integers(0, 2)) == 0
        size = draw(st.integers(1, 4)) if small else ((big if not seq else 16) if dim == 1 else 10)

        def tree():
            return _tree(size, min_complete=0 if small else need, max_level=max_level)
        trees = [draw(tree()) for _ in range(dim)]
        case = dict(a=a, len=ln, scale=scale, family=family, p=p, mode=mode, trees=trees, rng=draw(st.integers(0, 2 ** 31 - 1)))
        if family == "bspline":
            case["max_level"] = max_level
        if seq:
            # ONE grid object receives 2-3 trees (caches keyed by level/index must not survive a set_grid)
            case["seq"] = draw(_seq(dim, tree))
        if draw(st.integers(0, 3)) > 0:
            # GlobalBSplineGrid looks its points up with grid_1D.index(..): a sequence type with .index is required
            # (the repository's own test converts np.linspace to a list for this class, and only for this class)
            case["form"] = draw(_forms(dim, ["list", "tuple", "list-np.float64"] if family == "bspline" else None))
            if case["form"][0][0] == "int-ndarray":
                case["scale"] = ["2^20"] * dim      # dyadic trees on [a0, a0+len]*2^20 have integer valued points
        case["reuse"] = draw(st.booleans())
        return case
    return s()


# ----------------------------------------------------------------------------------------------------------------
# self test of the oracles
# ----------------------------------------------------------------------------------------------------------------
def selftest():
    # tree builder: dyadic complete depth 2 on [0,1]
    pts, lev = build_tree(0.0, 1.0, [[0, 0.5], [0, 0.5], [2, 0.5]])
    assert pts == [0.0, 0.25, 0.5, 0.75, 1.0] and lev == [0, 2, 1, 2, 0], (pts, lev)
    assert complete_depth(lev) == 2 and complete_depth([0, 1, 2, 0]) == 1 and complete_depth([0, 3, 2, 1, 0]) == 1
    pts2, lev2 = build_tree(2.0, 3.0, [[0, 0.5], [0, 0.2]])
    assert lev2 == [0, 2, 1, 0] and abs(pts2[1] - 2.1) < 1e-15 and pts2[2] == 2.5
    # reference trapezoid weights, closed forms (h = 1/4)
    assert ref_trap_weights(pts, "boundary") == [0.125, 0.25, 0.25, 0.25, 0.125]
    assert ref_trap_weights(pts, "noboundary") == [0.25, 0.25, 0.25]
    # modified, uniform: the outer cells are integrated by the extrapolated line -> weights 2h, 0, 2h
    wm = ref_trap_weights(pts, "modified")
    assert max(abs(wm[i] - [0.5, 0.0, 0.5][i]) for i in range(3)) < 1e-15, wm
    assert ref_trap_weights([0.0, 0.3, 1.0], "modified") == [1.0]
    # modified, 4 points: one straight line through both interior nodes -> integrates every linear function exactly
    w4 = ref_trap_weights([0.0, 0.2, 0.5, 1.0], "modified")
    assert abs(sum(w4) - 1.0) < 1e-15 and abs(0.2 * w4[0] + 0.5 * w4[1] - 0.5) < 1e-15, w4
    # interpolant integral of x^2 nodal values on [0,.5,1] (boundary): trapezoid value 0.375
    assert abs(ref_interpolant_integral([0.0, 0.5, 1.0], [0.0, 0.25, 1.0], "boundary") - 0.375) < 1e-16
    assert abs(mono_integral(-1.0, 2.0, 2) - 3.0) < 1e-15
    assert hier_kmax("lagrange", 3, "boundary", 1) == 2 and hier_kmax("lagrange", 3, "boundary", 2) == 3
    assert hier_kmax("bspline", 3, "boundary", 1) == 2 and hier_kmax("bspline", 5, "boundary", 2) == 4
    assert hier_kmax("bspline", 5, "boundary", 3) == 5 and hier_kmax("bspline", 3, "modified", 3) == 0
    # the weight oracle accepts the reference rule and rejects corrupted ones
    gp = [2.0, 2.1, 2.5, 2.75, 3.0]
    for mode in ("boundary", "noboundary", "modified"):
        good = ref_trap_weights(gp, mode)
        o = Outcome()
        check_trap_weights(o, "t", gp, good, mode)
        assert not o.violations, o.violations
        bad = list(good)
        bad[1] += 1e-6
        o = Outcome()
        check_trap_weights(o, "t", gp, bad, mode)
        assert o.violations, "corrupted %s weights not rejected" % mode
    o = Outcome()
    check_trap_weights(o, "t", gp, [0.05, 0.3, 0.3, 0.3, 0.05], "boundary")      # right mass, wrong interpolant
    assert any("interpolant-integral" in s for s, _ in o.violations)
    # relabel yields a valid tree: ends 0, one level-1 point, each interior point has a neighbour one level up
    import numpy as np
    lv = relabel(list(range(9)), np.random.default_rng(3))
    assert lv[0] == 0 and lv[-1] == 0 and lv.count(1) == 1 and min(lv[1:-1]) == 1, lv
    # the cause attribution of a high-order mass defect recognises un-rescaled fallback weights (and nothing else)
    class _Fake(object):          # stands in for the grid object: claims degree 1 and returns the block weights given
        def __init__(self, w):
            self.w = w

        def get_1D_weights_and_order(self, sub_pts, a, b, lev):
            return self.w, 1
    fp = [0.0, 0.25, 0.5, 1.0]
    tw = ref_trap_weights(fp, "noboundary")                   # [0.25, 0.375]
    unscaled = [0.0] + [t * 2.0 / sum(tw) for t in tw] + [0.0]
    causes = set()
    _ho_blocks_explain(_Fake(unscaled), fp, [0, 2, 1, 0], unscaled, 0, 3, causes)
    assert causes == {"fallback-weights-not-scaled-by-(b-a)/2"}, causes
    other = [0.0, 1.5, 0.5, 0.0]
    causes = set()
    _ho_blocks_explain(_Fake(other), fp, [0, 2, 1, 0], other, 0, 3, causes)
    assert causes == {"unexplained"}, causes
    # sequences: rounds are built as documented; state kept across set_grid calls is attributed by the suffix
    c = dict(a=[0.0], len=[1.0], trees=[[[0, 0.5]]], rng=1,
             seq=[dict(kind="refine", splits=[[[0, 0.5]]]), dict(kind="back")])
    rr = seq_rounds(c, [0.0], [1.0])
    assert [r[0] for r in rr] == ["base", "refine", "back"] and rr[1][1][0][0] == [0.0, 0.25, 0.5, 1.0] \
        and rr[2][1][0][0] == [0.0, 0.5, 1.0], rr

    class _G(object):
        def __init__(self):
            self.calls = 0

        def set_grid(self, pts, lev):
            self.calls += 1
            self.coordinate_array = [list(t) for t in pts]
            self.coordinate_array_with_boundary = [list(t) for t in pts]
            self.levels = [list(t) for t in lev]
            self.weights = [[1.0] * len(t) for t in pts]
            if self.spoil:
                pts[0][0] = 99.0

        spoil = False

        def get_weights(self):
            return [1.0]

        def integrate(self, f, levelvec, a, b):
            return [0.0]

    class _GS(_G):                 # writes into the caller's point container
        spoil = True

    def stale(o, g, trees, splits, k):
        if g.calls > 1:
            o.bad("t/clause", "stale")

    def always(o, g, trees, splits, k):
        if k == 1:
            o.bad("t/clause", "wrong on this tree")
    o = drive(c, "t", Outcome(), [0.0], [1.0], _G, stale)
    assert [sg for sg, _ in o.violations] == ["t/clause" + SEQ_SUFFIX] and "seq-rounds=3" in o.classes, o.violations
    o = drive(c, "t", Outcome(), [0.0], [1.0], _G, always)
    assert [sg for sg, _ in o.violations] == ["t/clause"], o.violations
    # argument forms: containers are what they claim to be; a callee that writes into them is reported
    import numpy as np
    v, owner, f = to_form([0.0, 0.5, 1.0], "ndarray-view", False)
    assert f == "ndarray-view" and v.base is owner and list(v) == [0.0, 0.5, 1.0] and v.dtype == np.float64
    assert to_form([0.0, 0.5, 1.0], "int-ndarray", False)[2] == "ndarray"
    v, _, f = to_form([0.0, 4.0, 8.0], "int-ndarray", False)
    assert f == "int-ndarray" and v.dtype == np.int64
    v, _, f = to_form([0, 1, 0], "list-np.int64", True)
    assert type(v) is list and type(v[0]) is np.int64
    sn = snapshot(v, None)
    assert unchanged(v, None, sn)
    v[1] = np.int64(2)
    assert not unchanged(v, None, sn)
    c2 = dict(a=[0.0], len=[1.0], trees=[[[0, 0.5]]], rng=1, form=[["ndarray", "tuple"]])
    o = drive(c2, "t", Outcome(), [0.0], [1.0], _GS, always)
    assert [sg for sg, _ in o.violations] == ["t/arguments/points/caller-argument-modified"], o.violations
    assert "points-as=ndarray" in o.classes and "levels-as=tuple" in o.classes, o.classes
    # end to end: the three sub-checks accept the closed-form cases on uniform grids (trapezoid h/2,h,..,h/2; the
    # high-order rule on 3 uniform points must be Simpson; Lagrange p=2 on [a,m,b] integrates x^2)
    o = run_trapezoid(dict(a=[0.0], len=[1.0], mode="boundary", trees=[complete_splits(2)], rng=1))
    assert not o.violations and not o.nontrivial, o.violations
    o = run_highorder(dict(a=[0.0], len=[1.0], boundary=True, max_degree=2, split_up=False, trees=[complete_splits(1)], rng=1))
    assert not o.violations and "reported-degree=2" in o.classes, (o.violations, o.classes)
    o = run_hierarchical(dict(a=[-1.0], len=[3.0], family="lagrange", p=2, mode="boundary", trees=[complete_splits(1)], rng=1))
    assert not o.violations and "demanded-degree=2" in o.classes, (o.violations, o.classes)


SUBS = [
    Sub("trapezoid", trapezoid_strategy, run_trapezoid, dict(quick=8000, thorough=96000),
        budget_s=dict(quick=17, thorough=170)),
    Sub("highorder", highorder_strategy, run_highorder, dict(quick=5600, thorough=64000),
        budget_s=dict(quick=17, thorough=170), fixed_cases=highorder_fixed),
    Sub("hierarchical", hierarchical_strategy, run_hierarchical, dict(quick=4000, thorough=32000),
        budget_s=dict(quick=18, thorough=200)),
    Sub("large", large_strategy, run_large, dict(quick=64, thorough=640),
        budget_s=dict(quick=12, thorough=100), fixed_cases=large_fixed),
]
