"""C07 — extend-split areas tile the domain and each carries a valid local combination."""
import itertools

import numpy as np

from vlib.core import Outcome, Sub
from vlib import drive

PROPERTY = "C07"
RULE = ("history: SpatiallyAdaptiveExtendScheme (d 2-3, lmin 1, lmax 2-4, coarsening versions 0-2, 0-3 splits before extend, "
        "automatic extend/split on/off, single-dimension splitting on/off, boundary on/off, boxes) driven for up to 16 steps by a "
        "scripted decision tape or by the library's own ErrorCalculatorExtendSplit on a kinked integrand; after EVERY evaluation: "
        "leaves are proper boxes, volumes add up, interiors pairwise disjoint (exact comparisons), generated points (fresh random ones, points "
        "on faces/edges/corners of areas, and one fixed point set queried again after every evaluation) are assigned to exactly one leaf that contains them, coarsening values >= 0, and per "
        "area the computed component grids' coefficients sum to 1 at every area grid point and the combined interpolant reproduces "
        "the integrand there. Non-trivial = history in which at least one area was extended and at least one was split. "
        "Distinct = distinct case dict.")
ASSUMPTIONS = [
    "area grid points are identified by their relative position in the domain rounded to 2^-40 (component grids of different levels compute the same dyadic point with last-ulp differences on non-dyadic boxes)",
    "boundary=False is not part of C07's quantifier; it is generated (1 in 4) only with the automatic extend/split decision off, because that decision compares point counts that can be zero without boundary points (library assertion in set_extend_benefit)",
    "volume sum tolerance 1e-12 relative; interpolation tolerance 1e-9*(1+max|f|); coefficient sums exact",
    "with boundary=False the coefficient clause is evaluated on the points the area grids return; the derived interpolation clause is evaluated with boundary points only (without them the library's d-linear area interpolation is undefined outside the innermost mesh of the coarser component grids)",
    "the local interpolant of an area is the coefficient-weighted sum of the area's computed component-grid interpolants (operation.interpolate_points_component_grid on the area mesh), not the global __call__, which may assign a face point to the neighbouring area",
]


def check(out, sub, sa, case, g, rng, tag, fixed_pts=()):
    dim = sa.dim
    a = np.array(case["a"])
    b = np.array(case["b"])
    objs = sa.refinement.get_objects()
    boxes = [(np.array(o.start, dtype=float), np.array(o.end, dtype=float)) for o in objs]
    for (s, e), o in zip(boxes, objs):
        if not np.all(s < e):
            out.bad(sub + "/box/degenerate", "%s %s %s" % (tag, s, e))
        if np.any(s < a) or np.any(e > b):
            out.bad(sub + "/box/outside-domain", "%s %s %s" % (tag, s, e))
        if o.coarseningValue < 0:
            out.bad(sub + "/coarsening-negative", "%s area %s %s value %s" % (tag, s, e, o.coarseningValue))
    vol = sum(float(np.prod(e - s)) for s, e in boxes)
    dv = float(np.prod(b - a))
    if abs(vol - dv) > 1e-12 * dv:
        out.bad(sub + "/tiling/volume", "%s sum %.17g domain %.17g" % (tag, vol, dv))
    S = np.array([s for s, e in boxes])
    E = np.array([e for s, e in boxes])
    n = len(boxes)
    if n <= 700:
        for i in range(n):
            ov = np.all((S[i] < E[i + 1:]) & (S[i + 1:] < E[i]), axis=1)
            if np.any(ov):
                j = i + 1 + int(np.argmax(ov))
                out.bad(sub + "/tiling/overlap", "%s areas %s-%s and %s-%s" % (tag, S[i], E[i], S[j], E[j]))
                break
    # point assignment: random points + points on faces / edges / corners of areas
    pts = [tuple(min(float(b[d]), float(a[d] + (b[d] - a[d]) * rng.random())) for d in range(dim)) for _ in range(12)]
    for _ in range(12):
        i = int(rng.integers(0, n))
        p = []
        for d in range(dim):
            r = rng.integers(0, 3)
            p.append(float(S[i][d] if r == 0 else (E[i][d] if r == 1 else S[i][d] + (E[i][d] - S[i][d]) * rng.random())))
        pts.append(tuple(p))
    pts = list(dict.fromkeys(pts))
    leaves = {id(o) for o in objs}
    # the fresh points, and separately one point list that is identical after every evaluation of the history
    # (a user monitoring fixed points, as the driver's own `evaluation_points` option does)
    queries = [("repeated-query", list(fixed_pts))]
    if case["fseed"] % 2 == 0:
        # in every second case ONLY the identical list is queried, so that consecutive queries of the history are identical
        queries.insert(0, ("fresh", pts))
    for which, plist in queries:
        if not plist:
            continue
        with drive.quiet():
            assign = sa.get_points_assignement_to_areas(plist)
        count = {p: 0 for p in plist}
        for area, contained in assign:
            for p in contained:
                p = tuple(p)
                count[p] = count.get(p, 0) + 1
                if id(area) not in leaves:
                    out.bad(sub + "/assignment/not-a-leaf", "%s (%s points) point %s assigned to %s-%s coarsening %s which is not a current leaf" % (
                        tag, which, p, list(area.start), list(area.end), area.coarseningValue))
                    break
                if any(p[d] < area.start[d] or p[d] > area.end[d] for d in range(dim)):
                    out.bad(sub + "/assignment/area-does-not-contain-point", "%s point %s area %s %s" % (tag, p, list(area.start), list(area.end)))
        wrong = [(p, c) for p, c in count.items() if c != 1]
        if wrong:
            out.bad(sub + "/assignment/not-exactly-one-leaf", "%s (%s points) %s" % (tag, which, wrong[:3]))
    # local combination per area
    npts_checked = 0
    for o in objs:
        cs = {}
        grids = []
        for cg in sa.scheme:
            lv, do = sa.coarsen_grid(cg.levelvector, o)
            if do:
                grids.append((cg, lv))
                sa.grid.setCurrentArea(o.start, o.end, lv)
                for p in sa.grid.getPoints():
                    p = tuple(float(x) for x in p)
                    # grids of different levels compute the same (dyadic) point with different rounding (last ulp):
                    # identify points by their relative position rounded to 2^-40
                    key = tuple(int(round((p[d] - a[d]) / (b[d] - a[d]) * 2.0 ** 40)) for d in range(dim))
                    if key not in cs:
                        cs[key] = [0, p]
                    cs[key][0] += cg.coefficient
        cs = {v[1]: v[0] for v in cs.values()}
        if case["boundary"] and (not grids or sum(cg.coefficient for cg, _ in grids) != 1):
            # with boundary points the corners of an area are grid points of every component grid of the area: an area without
            # any computed component grid (or with coefficients that do not sum to 1) carries no valid local combination
            out.bad(sub + "/area-without-valid-local-combination/%s" % ("no-component-grid-computed" if not grids else "coefficients-do-not-sum-to-one"),
                    "%s area %s-%s coarsening %d lmax %s: computed component grids %s" % (
                        tag, list(o.start), list(o.end), o.coarseningValue, list(sa.lmax), [(list(lv), cg.coefficient) for cg, lv in grids][:6]))
            break
        bad = [(p, v) for p, v in cs.items() if v != 1]
        if bad:
            out.bad(sub + "/area-coefficient-sum-not-one", "%s area %s-%s coarsening %d: %s" % (
                tag, list(o.start), list(o.end), o.coarseningValue, bad[:2]))
            break
        # the area's own local interpolant (sum of the area's component-grid interpolants) at the area's grid points
        if case["boundary"] and cs and npts_checked < 600:
            pts_a = sorted(cs)
            npts_checked += len(pts_a)
            tot = np.zeros(len(pts_a))
            with drive.quiet():
                for cg, lv in grids:
                    sa.grid.setCurrentArea(start=o.start, end=o.end, levelvec=lv)
                    v = sa.operation.interpolate_points_component_grid(cg, sa.grid.coordinate_array, pts_a)
                    tot += cg.coefficient * np.asarray(v)[:, 0]
            ref = np.array([g(p) for p in pts_a])
            err = float(np.max(np.abs(tot - ref)))
            if not (err <= 1e-9 * (1 + np.max(np.abs(ref)))):
                i_ = int(np.argmax(np.abs(tot - ref)))
                out.bad(sub + "/local-interpolant-misses-function-at-area-grid-point", "%s area %s-%s err %.3e at %s" % (
                    tag, list(o.start), list(o.end), err, pts_a[i_]))
                break
    return n


def run(case):
    out = Outcome()
    sub = "history"
    g = drive.case_function(case)
    f = drive.vector_function([g])
    sa, op = drive.build_es(case, f)
    rng = np.random.default_rng(case["fseed"] + 1)
    a_, b_ = np.array(case["a"]), np.array(case["b"])
    m = 9 if case["dim"] == 2 else 5
    # lattice points by repeated bisection (the arithmetic of the splits), the last one is b itself: a + (b - a) * 1 can
    # exceed b by an ulp for boxes in decimal units and would lie outside the domain
    lat = []
    for d in range(case["dim"]):
        xs = [float(a_[d]), float(b_[d])]
        while len(xs) < m:
            xs = sorted(set(xs + [(x + y) / 2 for x, y in zip(xs, xs[1:])]))
        lat.append(xs)
    fixed_pts = [tuple(lat[d][i[d]] for d in range(case["dim"])) for i in itertools.product(range(m), repeat=case["dim"])]
    fixed_pts += [tuple(min(float(b_[d]), float(a_[d] + (b_[d] - a_[d]) * rng.random())) for d in range(case["dim"])) for _ in range(10)]
    st_ = dict(ext=0, spl=0, steps=0, before=None, lmax0=case["lmax"], single=0, maxareas=0)

    def on_eval(k):
        n = check(out, sub, sa, case, g, rng, "after evaluation %d" % k, fixed_pts)
        st_["maxareas"] = max(st_["maxareas"], n)

    def before_refine(k):
        st_["before"] = drive.es_boxes(sa)

    def after_refine(k):
        st_["steps"] += 1
        ext, spl, same = drive.es_step_kinds(st_["before"], sa)
        st_["ext"] += ext
        st_["spl"] += spl
        n_after = len(sa.refinement.get_objects())
        if spl and (n_after - len(st_["before"])) % (2 ** sa.dim - 1) != 0:
            st_["single"] += 1

    drive.run_history(sa, case, on_eval=on_eval, before_refine=before_refine, after_refine=after_refine)
    if (case["fseed"] // 2) % 3 == 0 and not out.violations and not case.get("rerun"):
        # the documented way to continue from a stored refinement: the refinement container is handed back to
        # performSpatiallyAdaptiv (refinement_container=...; lmin / lmax arguments as in the first call, no further budget);
        # every structural clause must hold for the state that call evaluates
        with drive.quiet():
            sa.performSpatiallyAdaptiv(case["lmin"], case["lmax"], drive.error_operator(case), tol=-1, max_evaluations=0,
                                       refinement_container=sa.refinement, print_output=False)
        check(out, sub, sa, case, g, rng, "after re-entry with refinement_container", fixed_pts)
        out.cls("re-entered-through-refinement_container")
    out.nontrivial = bool(st_["ext"] and st_["spl"])
    out.cls(drive.scale_class(case), "bounds-given-as=%s" % (case.get("bounds") or "float-arrays"))
    out.cls("version=%d" % case["version"], "estimator=%s" % case["estimator"], "boundary=%s" % case["boundary"],
            "auto=%s" % case["auto"], "ssd=%s" % case["ssd"])
    if st_["ext"]:
        out.cls("extend-happened")
    if st_["spl"]:
        out.cls("split-happened")
    if max(sa.lmax) > st_["lmax0"]:
        out.cls("lmax-increased")
    if st_["single"]:
        out.cls("partial-dimension-split")
    if case.get("legs"):
        out.cls("history-cut-into-%d-runs" % min(len(case["legs"]) + 1, 4))
    if case.get("rerun"):
        out.cls("second-run-on-the-same-solver-object")
    out.info = dict(max_steps=st_["steps"], max_areas=st_["maxareas"], max_lmax=max(sa.lmax))
    return out


def strategy(tier):
    return drive.st_es_case(tier=tier, scales=True, dim4=True, bounds_forms=True)


def fixed_cases():
    """a systematic family that every run contains: split_single_dim=True with an integrand that is symmetric in its arguments
    (several dimensions split at once), every coarsening version, 0-2 splits before an extend, under decision patterns that
    refine several areas of different depth in one step (multi-dimension split and lmax-raising extend inside one step)"""
    cases = []
    for version in (0, 1, 2):
        for dim in (2, 3):
            for nref in (0, 1, 2):
                for mode, tape in ((0, [2, 7, 3, 9, 1]), (0, [4, 0, 13, 2, 2, 11, 8]), (3, [0, 5, 1, 3]), (10, [0, 1, 40, 45, 50, 9, 12, 20]),
                                   (10, [1, 2, 55, 20, 33, 5, 41, 60])):
                    cases.append(dict(kind="es", dim=dim, lmin=1, lmax=2, a=[0.0] * dim, b=[1.0] * dim, version=version, nref=nref,
                                      boundary=True, auto=False, ssd=True, estimator="tape", maxev=1200 if dim == 2 else 900,
                                      maxsteps=6 if dim == 2 else 4, tape=tape, mode=mode, fseed=3 * (version + 3 * nref + 10 * mode + 1),
                                      legs=None, rerun=None))
    return cases


def selftest():
    case = dict(kind="es", dim=2, lmin=1, lmax=2, a=[0.0, 0.0], b=[1.0, 1.0], version=0, nref=1, boundary=True, auto=False,
                ssd=False, estimator="tape", maxev=200, maxsteps=3, tape=[2, 0, 0, 2], mode=0, fseed=3)
    o = run(case)
    assert not o.violations, o.violations
    # the oracle must reject a corrupted tiling
    g = drive.fit_to_box(drive.driver_function(2, 3), case["a"], case["b"])
    sa, op = drive.build_es(case, drive.vector_function([g]))
    seen = []

    def corrupt(k):
        if k == 1 and not seen:
            seen.append(1)
            o_ = sa.refinement.get_objects()[0]
            old = o_.end
            o_.end = np.array(old) + 0.1
            o2 = Outcome()
            check(o2, "t", sa, case, g, np.random.default_rng(0), "corrupted")
            o_.end = old
            assert any("tiling" in s or "outside" in s for s, _ in o2.violations), o2.violations
    drive.run_history(sa, case, on_eval=corrupt)
    assert seen


SUBS = [Sub("history", strategy, run, dict(quick=300, thorough=6000), budget_s=dict(quick=60, thorough=600), fixed_cases=fixed_cases)]
