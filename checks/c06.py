"""C06 — dimension-wise refinement structures stay well formed under every refinement history."""
from hypothesis import strategies as st

from vlib.core import Outcome, Sub
from vlib import drive

PROPERTY = "C06"
RULE = ("history: SpatiallyAdaptiveSingleDimensions2 (d 1-3, lmin 1-2, lmax=lmin+1..2, versions 6/2/3/7/8, rebalancing on/off, "
        "boundary on/off, margin in {0.9,0.5,1,0}, safety factor in {0.1,0,0.5}) driven for up to 25 refinement steps by a "
        "scripted error calculator (decision tape in the case: values from {0,0.5,0.95,1}, skewed floats, sparse ones, "
        "ties around the threshold, all-zero); all structure invariants after initialisation and after every refine(); the "
        "selection oracle compares the point sets before/after refine() with {intervals whose stored benefit >= margin*max}. "
        "Non-trivial = a history with at least one step that selected a strict, non-empty subset of the intervals. "
        "Distinct = distinct case dict.")
ASSUMPTIONS = [
    "benefits are read from the `benefit` attribute the library stored on each interval immediately before refine()",
    "margin*max is computed in floating point exactly as a user would (one multiplication); ties are generated at and 1e-12 below it",
    "interval end points are compared exactly (children share the parent's float objects)",
]


def tree_violation(levels):
    """binary refinement tree rule on the level list (end points included)"""
    if levels[0] != 0 or levels[-1] != 0:
        return "end-levels"
    for i in range(1, len(levels) - 1):
        l = levels[i]
        if l <= 0:
            return "inner-level<=0"
        L = R = None
        for j in range(i - 1, -1, -1):
            if levels[j] < l:
                L = levels[j]
                break
        for j in range(i + 1, len(levels)):
            if levels[j] < l:
                R = levels[j]
                break
        if L is None or R is None:
            return "no-parent"
        if max(L, R) != l - 1:
            return "parent-level"
    return None


def structure_invariants(out, sub, sa, tag):
    for d in range(sa.dim):
        objs = drive.dw_objects(sa, d)
        if objs[0].start != sa.a[d] or objs[-1].end != sa.b[d]:
            out.bad(sub + "/tiling/ends", "%s dim %d" % (tag, d))
        for o, n in zip(objs, objs[1:]):
            if not (o.start < o.end):
                out.bad(sub + "/tiling/degenerate-interval", "%s dim %d [%r,%r]" % (tag, d, o.start, o.end))
            if o.end != n.start:
                out.bad(sub + "/tiling/gap-or-overlap", "%s dim %d %r != %r" % (tag, d, o.end, n.start))
            if o.levels[1] != n.levels[0]:
                out.bad(sub + "/levels/shared-point-disagrees", "%s dim %d at %r: %s vs %s" % (tag, d, o.end, o.levels, n.levels))
        levels = drive.dw_levels(sa, d)
        t = tree_violation(levels)
        if t:
            out.bad(sub + "/tree/" + t, "%s dim %d levels=%s" % (tag, d, levels))
        for o in objs:
            if o.coarsening_level != sa.lmax[d] - max(o.levels):
                out.bad(sub + "/coarsening/not-lmax-minus-level", "%s dim %d [%r,%r] levels=%s coarsening=%s lmax=%s" % (
                    tag, d, o.start, o.end, o.levels, o.coarsening_level, sa.lmax[d]))
            if o.coarsening_level < 0:
                out.bad(sub + "/coarsening/negative", "%s dim %d" % (tag, d))
        if sa.lmax[d] < max(levels):
            out.bad(sub + "/lmax-below-deepest-level", "%s dim %d lmax=%s max level=%s" % (tag, d, sa.lmax[d], max(levels)))


def run(case):
    out = Outcome()
    sub = "history"
    f = drive.vector_function([drive.case_function(case)])
    sa, op = drive.build_dw(case, f)
    st_ = dict(before=None, strict=0, ties=0, allsel=0, rot=0, steps=0, raised=0, lmax0=None)

    def on_eval(k):
        if k == 0:
            st_["lmax0"] = list(sa.lmax)
            structure_invariants(out, sub, sa, "after initialisation")

    def before_refine(k):
        snap = []
        for d in range(sa.dim):
            snap.append([(o.start, o.end, tuple(o.levels), float(o.benefit)) for o in drive.dw_objects(sa, d)])
        st_["before"] = snap
        st_["lmax_before"] = list(sa.lmax)

    def after_refine(k):
        tag = "after refine %d" % k
        snap = st_["before"]
        st_["steps"] += 1
        allb = [x[3] for s in snap for x in s]
        if any(b < 0 for b in allb):
            out.bad(sub + "/benefit-negative", tag)
        bmax = max([0.0] + allb)
        thr = bmax * float(case["margin"])        # the margin the user asked for, not an attribute read back from the object
        nsel = 0
        for d in range(sa.dim):
            old_pts = [snap[d][0][0]] + [x[1] for x in snap[d]]
            mids = {}
            for (s, e, lv, ben) in snap[d]:
                if ben >= thr:
                    nsel += 1
                    mids[sa.grid.get_mid_point(s, e, d)] = (s, e, lv)
                if thr > 0 and abs(ben - thr) <= 1e-9 * thr:
                    st_["ties"] += 1
            want = sorted(set(old_pts) | set(mids))
            got = drive.dw_points(sa, d)
            if got != want:
                missing = sorted(set(want) - set(got))
                extra = sorted(set(got) - set(want))
                cause = "selected-interval-not-split" if missing and not extra else (
                    "unselected-interval-split" if extra and not missing else "wrong-split-points")
                out.bad(sub + "/selection/" + cause, "%s dim %d margin=%s max=%r thr=%r missing=%s extra=%s" % (
                    tag, d, case["margin"], bmax, thr, missing[:4], extra[:4]))
            elif not sa.rebalancing:
                lv_new = dict(zip(got, drive.dw_levels(sa, d)))
                lv_old = dict(zip(old_pts, [snap[d][0][2][0]] + [x[2][1] for x in snap[d]]))
                for p, l in lv_old.items():
                    if lv_new[p] != l:
                        out.bad(sub + "/levels/old-point-relevelled-without-rebalancing", "%s dim %d point %r" % (tag, d, p))
                        break
                for m, (s, e, lv) in mids.items():
                    if lv_new[m] != max(lv) + 1:
                        out.bad(sub + "/levels/child-level-not-parent+1", "%s dim %d point %r level %s parent levels %s" % (
                            tag, d, m, lv_new[m], lv))
                        break
            else:
                lv_new = dict(zip(got, drive.dw_levels(sa, d)))
                lv_old = dict(zip(old_pts, [snap[d][0][2][0]] + [x[2][1] for x in snap[d]]))
                if any(lv_new[p] != l for p, l in lv_old.items()):
                    st_["rot"] += 1
        total = sum(len(s) for s in snap)
        if 0 < nsel < total:
            st_["strict"] += 1
        if nsel == total:
            st_["allsel"] += 1
        if list(sa.lmax) != st_["lmax0"]:
            st_["raised"] = 1
        if any(x - y >= 2 for x, y in zip(sa.lmax, st_["lmax_before"])):
            st_["raised2"] = 1
        structure_invariants(out, sub, sa, tag)

    kw = dict(recalculate_frequently=True) if case.get("recalc") else {}
    drive.run_history(sa, case, on_eval=on_eval, before_refine=before_refine, after_refine=after_refine, **kw)
    out.nontrivial = st_["strict"] >= 1
    if st_["strict"]:
        out.cls("strict-subset-step")
    if st_["ties"]:
        out.cls("tie-at-threshold")
    if st_["allsel"]:
        out.cls("all-selected-step")
    if st_["rot"]:
        out.cls("rebalancing-rotation")
    if st_["raised"]:
        out.cls("lmax-raised")
    if st_.get("raised2"):
        out.cls("lmax-raised-by>=2-in-one-step")
    out.cls(drive.scale_class(case), "dim_adaptive=%s" % case.get("dim_adaptive", True), "recalculate_frequently=%s" % bool(case.get("recalc")))
    out.cls("version=%d" % case["version"], "mode=%d" % case["mode"])
    if case.get("legs"):
        out.cls("history-cut-into-%d-runs" % min(len(case["legs"]) + 1, 4))
    if case.get("rerun"):
        out.cls("second-run-on-the-same-solver-object")
    out.info = dict(max_steps=st_["steps"], max_points_dim=max(len(drive.dw_points(sa, d)) for d in range(sa.dim)))
    return out


def strategy(tier):
    @st.composite
    def s(draw):
        c = draw(drive.st_dw_case(tier=tier, scales=True, bounds_forms=True))
        if draw(st.integers(0, 5)) == 0:
            # documented driver option (a restart of the evaluation every 100 refined objects): the selection of a step
            # must not depend on it; histories with many refined intervals (uniform / broad steps) cross the 100 quickly
            c["recalc"] = True
            if draw(st.booleans()):
                c.update(mode=draw(st.sampled_from([4, 4, 0, 7])), margin=draw(st.sampled_from([0.0, 0.5, 0.9])), maxsteps=draw(st.sampled_from([4, 5, 6])),
                         dim=c["dim"], legs=None, rerun=None)
        if draw(st.integers(0, 4)) == 0:
            c["dim_adaptive"] = False       # documented option: one isotropic target level instead of a dimension-adaptive scheme
            # every raise lifts the level of the whole (standard) scheme: keep these histories short
            c["maxsteps"] = min(c["maxsteps"], 4)
            c["maxev"] = min(c["maxev"], 150)
            c["legs"] = None
            c["rerun"] = None
        return c
    return s()


def selftest():
    assert tree_violation([0, 2, 1, 2, 0]) is None
    assert tree_violation([0, 1, 2, 0]) is None
    assert tree_violation([0, 2, 1, 0]) is None
    assert tree_violation([0, 3, 1, 2, 0]) == "parent-level"
    assert tree_violation([1, 1, 0]) == "end-levels"


SUBS = [Sub("history", strategy, run, dict(quick=4000, thorough=60000), budget_s=dict(quick=50, thorough=600))]
