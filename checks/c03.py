"""C03 — dimension-wise refinement always yields a valid nested combination."""
import itertools

import numpy as np

from vlib.core import Outcome, Sub
from vlib import drive

PROPERTY = "C03"
RULE = ("history: SpatiallyAdaptiveSingleDimensions2 (d 1-3, lmin 1-2, lmax=lmin+1..2, versions 6/2/3/7/8, rebalancing on/off, "
        "boundary on/off, margins, safety factors, boxes) driven by a scripted decision tape for up to 25 steps with an "
        "arbitrary (nowhere exact) integrand (without boundary points in a quarter of the cases one that is inf / nan / raises on the boundary of the box); all clauses are evaluated after EVERY evaluate_operation on every component "
        "grid of the current scheme. Non-trivial = a history with >=1 step that raised lmax in some dimension and >=1 step "
        "that refined a strict subset of the intervals. Distinct = distinct case dict.")
ASSUMPTIONS = [
    "coefficient sums are compared exactly; interpolation at grid points with tolerance 1e-9*(1+max|f|)",
    "points are identified by their float coordinates (the library hands the same float objects to every component grid)",
    "with boundary=False the combined sparse grid consists of the interior points (the two end points per dimension are stripped)",
]


def check_scheme(out, sub, sa, boundary, fvals, tag):
    dim = sa.dim
    per_level = {}
    coeffsum = {}
    for cg in sa.scheme:
        lv = tuple(int(x) for x in cg.levelvector)
        coords, levels, _ = sa.get_point_coord_for_each_dim(cg.levelvector)
        for d, (c, l) in enumerate(zip(coords, levels)):
            c = [float(x) for x in c]
            if any(not (x < y) for x, y in zip(c, c[1:])):
                out.bad(sub + "/points/not-strictly-ascending", "%s grid %s dim %d: %s" % (tag, lv, d, c[:8]))
            if c[0] != sa.a[d] or c[-1] != sa.b[d]:
                out.bad(sub + "/points/domain-ends-missing", "%s grid %s dim %d" % (tag, lv, d))
            if len(l) != len(c):
                out.bad(sub + "/points/levels-length", "%s grid %s dim %d" % (tag, lv, d))
            key = (d, lv[d])
            if key in per_level and per_level[key] != tuple(c):
                out.bad(sub + "/points/not-a-function-of-dimension-and-level", "%s (d,l)=%s" % (tag, key))
            per_level[key] = tuple(c)
        # the published component-grid points are the cross product
        inner = [c if boundary else c[1:-1] for c in ([float(x) for x in cc] for cc in coords)]
        cross = set(itertools.product(*inner))
        got = sa.get_points_component_grid(cg.levelvector)
        if set(tuple(float(x) for x in p) for p in got) != cross or len(got) != len(cross):
            out.bad(sub + "/points/component-grid-not-cross-product", "%s grid %s" % (tag, lv))
        for p in cross:
            coeffsum[p] = coeffsum.get(p, 0) + cg.coefficient
    for (d, l), c in per_level.items():
        if (d, l + 1) in per_level and not set(c) <= set(per_level[(d, l + 1)]):
            out.bad(sub + "/points/not-monotone-in-level", "%s d=%d l=%d" % (tag, d, l))
    bad = [(p, v) for p, v in coeffsum.items() if v != 1]
    if bad:
        out.bad(sub + "/coefficient-sum-not-one", "%s %d of %d points, e.g. %s" % (tag, len(bad), len(coeffsum), bad[:2]))
    pts = sorted(coeffsum)
    if pts:
        with drive.quiet():
            vals = np.asarray(sa(pts))
        ref = np.array([fvals(p) for p in pts])
        scale = 1.0 + np.max(np.abs(ref))
        err = np.max(np.abs(vals.reshape(ref.shape) - ref))
        if not (err <= 1e-9 * scale):
            out.bad(sub + "/interpolant-misses-function-at-grid-point", "%s max err %.3e over %d points" % (tag, err, len(pts)))
        # the second documented entry point: the interpolant on a tensor grid (values in cross-product order); only when
        # the enclosing tensor grid of the combined grid is small, and with boundary points (the interpolant outside the
        # outermost interior points is not part of the statement)
        coords1d = [sorted(set(p[d] for p in pts)) for d in range(dim)]
        ntensor = 1
        for c in coords1d:
            ntensor *= len(c)
        if boundary and ntensor <= 4000 and hasattr(sa, "interpolate_grid"):
            with drive.quiet():
                on_grid = np.asarray(sa.interpolate_grid(coords1d))
            pos = {p: i for i, p in enumerate(itertools.product(*coords1d))}
            got = np.array([np.ravel(on_grid[pos[p]]) for p in pts])
            err2 = np.max(np.abs(got.reshape(ref.shape) - ref)) if got.size == ref.size else float("inf")
            if not (err2 <= 1e-9 * scale):
                out.bad(sub + "/interpolate_grid-misses-function-at-grid-point", "%s max err %.3e over %d points (tensor grid %s)" % (
                    tag, err2, len(pts), [len(c) for c in coords1d]))
            out.cls("interpolate_grid-checked")
    return len(pts)


def run(case):
    out = Outcome()
    sub = "history"
    g = drive.case_function(case)
    if case.get("fbt") and case["fseed"] % 4 != 0:
        # histories driven by the library's estimator: a discontinuous integrand (jump across an oblique hyperplane) gives the
        # locally deep, unsymmetric trees that smooth integrands do not produce
        g0, a_, b_ = g, list(case["a"]), list(case["b"])
        rj = np.random.default_rng(case["fseed"] + 5)
        wj = rj.uniform(0.5, 2.0, case["dim"])
        tj = float(rj.uniform(0.25, 0.75)) * float(np.sum(wj))
        g = lambda x: g0(x) + (2.0 if sum(wj[d] * (x[d] - a_[d]) / (b_[d] - a_[d]) for d in range(len(a_))) > tj else 0.0)
        out.cls("discontinuous-integrand")
    singular = (not case["boundary"]) and case["fseed"] % 4 == 3
    if singular:
        # without boundary points the integrand may be non-finite on the boundary of the box
        g = drive.singular_on_boundary(g, case["a"], case["b"], (case["fseed"] // 4) % 3)
        out.cls("integrand-not-finite-on-the-excluded-boundary")
    # 1-3 output components (the interpolation code paths for several outputs differ from the scalar one)
    comps = [g, drive.case_function(case, offset=11), (lambda x: 0.5 * g(x) - 3.0)][: 1 + case["fseed"] % 3]
    if singular:
        comps = [g] + [drive.singular_on_boundary(c_, case["a"], case["b"], (case["fseed"] // 4) % 3) for c_ in comps[1:]]
    f = drive.vector_function(comps)
    sa, op = drive.build_dw(case, f)
    out.cls("outputs=%d" % len(comps))
    st_ = dict(strict=0, raised=0, lmax=None, steps=0, maxpts=0, before=None)

    def on_eval(k):
        if st_["lmax"] is not None and list(sa.lmax) != st_["lmax"]:
            st_["raised"] += 1
        st_["lmax"] = list(sa.lmax)
        n = check_scheme(out, sub, sa, case["boundary"], lambda p: [c_(p) for c_ in comps], "after evaluation %d" % k)
        st_["maxpts"] = max(st_["maxpts"], n)

    def before_refine(k):
        st_["before"] = [len(drive.dw_objects(sa, d)) for d in range(sa.dim)]

    def after_refine(k):
        st_["steps"] += 1
        after = [len(drive.dw_objects(sa, d)) for d in range(sa.dim)]
        nsplit = sum(a - b for a, b in zip(after, st_["before"]))
        if 0 < nsplit < sum(st_["before"]):
            st_["strict"] += 1

    drive.run_history(sa, case, on_eval=on_eval, before_refine=before_refine, after_refine=after_refine)
    out.nontrivial = st_["strict"] >= 1 and st_["raised"] >= 1
    if st_["strict"]:
        out.cls("strict-subset-step")
    if st_["raised"]:
        out.cls("lmax-raised")
    out.cls(drive.scale_class(case), "force_balanced_refinement_tree=%s" % bool(case.get("fbt")), "bounds-given-as=%s" % (case.get("bounds") or "float-arrays"))
    out.cls("version=%d" % case["version"], "rebalancing=%s" % case["rebalancing"], "boundary=%s" % case["boundary"], "d=%d" % case["dim"])
    if case.get("legs"):
        out.cls("history-cut-into-%d-runs" % min(len(case["legs"]) + 1, 4))
    if case.get("rerun"):
        out.cls("second-run-on-the-same-solver-object")
    out.info = dict(max_steps=st_["steps"], max_sparse_grid_points=st_["maxpts"], max_lmax=max(sa.lmax))
    return out


def strategy(tier):
    return drive.st_dw_case(tier=tier, scales=True, bounds_forms=True, fbt=True)


def selftest():
    # a fresh standard configuration must pass, and a corrupted coefficient must be rejected
    case = dict(kind="dw", dim=2, lmin=1, lmax=2, a=[0.0, 0.0], b=[1.0, 1.0], version=6, rebalancing=False, boundary=True,
                margin=0.9, safety=0.1, maxev=50, maxsteps=2, tape=[2, 0, 0], mode=0, fseed=1)
    o = run(case)
    assert not o.violations, o.violations
    g = drive.fit_to_box(drive.driver_function(2, 1), case["a"], case["b"])
    sa, op = drive.build_dw(case, drive.vector_function([g]))

    def corrupt(k):
        if k == 1:
            sa.scheme[0].coefficient += 1
            o2 = Outcome()
            check_scheme(o2, "t", sa, True, lambda p: [g(p)], "corrupted")
            assert any("coefficient-sum" in s for s, _ in o2.violations), o2.violations
            sa.scheme[0].coefficient -= 1
    drive.run_history(sa, case, on_eval=corrupt)


SUBS = [Sub("history", strategy, run, dict(quick=1600, thorough=16000), budget_s=dict(quick=55, thorough=600))]
