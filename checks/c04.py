"""C04 — refinement never loses exactness the initial configuration had."""
import itertools

import numpy as np
from hypothesis import strategies as st

from vlib.core import Outcome, Sub
from vlib import drive, oracles

PROPERTY = "C04"
RULE = ("dw: dimension-wise histories (as C03) whose integrand carries, next to an arbitrary refinement-driving component, "
        "up to 10 random hierarchical hat basis functions of the initial (lmin,lmax) sparse-grid space and one random "
        "combination of all (at most 60 randomly chosen) basis functions of that space; after every evaluation the integral of each space component must equal "
        "its closed-form value and the combined interpolant must equal the function at random points. dw_modified: same with the "
        "modified basis (boundary off) and random affine functions. es / cell: extend-split (versions 0-2, all policy flags) and cell "
        "(lmin=lmax) histories with boundary points; extra component = random multilinear function sum_S c_S prod x_d, integral "
        "compared with the closed form after every evaluation. Non-trivial = history in which a strict subset was refined and "
        "(dw) lmax was raised / (es) at least one area was extended and at least one area was split during the history / (cell) at least 2 refinement steps.")
ASSUMPTIONS = [
    "exactness tolerance 1e-11 * volume * sum|coefficients| for integrals, 1e-11 * sum|coefficients| for interpolation (observed rounding on the unchanged tree is < 1e-14)",
    "extend-split/cell multilinear exactness is asserted with boundary points only (the statement 'integrates every multilinear function' presupposes them)",
    "modified basis: affine *integrals* must stay exact; affine *interpolation* is not asserted because the initial configuration does not interpolate them exactly in the boundary cells (the modified basis only changes quadrature weights; observed error 0.4 at evaluation 0) - the statement's first sentence restricts the claim to functions the initial configuration treats exactly",
    "cause classification of a lost-exactness failure reads the refinement structure (which initial points are missing from which component grid); it only chooses the signature, not pass/fail",
]
TOL = 1e-11


# ----------------------------------------------------------------------------------------------------------------
# dimension-wise
# ----------------------------------------------------------------------------------------------------------------
def _missing_initial_points(sa, init, boundary):
    """[(d, level of component grid, point, initial level, current level or None)] for initial points that a current
    component grid of level l (<= initial lmax) in dimension d should contain but does not."""
    res = []
    seen = set()
    for cg in sa.scheme:
        coords, levels, _ = sa.get_point_coord_for_each_dim(cg.levelvector)
        for d in range(sa.dim):
            l = int(cg.levelvector[d])
            if (d, l) in seen:
                continue
            seen.add((d, l))
            have = set(float(x) for x in coords[d])
            cur = dict(zip(drive.dw_points(sa, d), drive.dw_levels(sa, d)))
            for p, lev0 in init[d].items():
                if lev0 <= min(l, init["lmax"]) and p not in have:
                    res.append((d, l, p, lev0, cur.get(p)))
    return res


def run_dw(case):
    out = Outcome()
    sub = "dw"
    case = dict(case, rerun=None)        # exactness is relative to the initial configuration of ONE run
    dim, lmin, lmax, boundary = case["dim"], case["lmin"], case["lmax"], case["boundary"]
    a, b = case["a"], case["b"]
    rng = np.random.default_rng(case["fseed"])
    allfn = oracles.all_basis_functions(dim, lmin, lmax, boundary)
    sel = oracles.draw_basis_functions(rng, dim, lmin, lmax, boundary, case.get("nbasis", 8))
    if len(allfn) > 60:      # keep the per-point cost of the Python integrand bounded
        allfn = [allfn[i] for i in sorted(rng.choice(len(allfn), size=60, replace=False))]
    coefs = rng.normal(size=len(allfn))
    g = drive.case_function(case, dim=dim)
    comps = [g] + [(lambda x, fn=fn: oracles.basis_eval(fn, a, b, x)) for fn in sel]
    comps.append(lambda x: sum(c * oracles.basis_eval(fn, a, b, x) for c, fn in zip(coefs, allfn)))
    exact = [oracles.basis_integral(fn, a, b) for fn in sel] + [sum(c * oracles.basis_integral(fn, a, b) for c, fn in zip(coefs, allfn))]
    scale = [1.0] * len(sel) + [float(np.sum(np.abs(coefs)))]
    vol = float(np.prod(np.array(b) - np.array(a)))
    f = drive.vector_function(comps)
    sa, op = drive.build_dw(case, f)
    evalpts = [tuple(float(a[d] + (b[d] - a[d]) * rng.random()) for d in range(dim)) for _ in range(6)]
    truth = np.array([[c(p) for c in comps[1:]] for p in evalpts])
    st_ = dict(init=None, strict=0, raised=0, before=None, steps=0, lmax0=None)

    def on_eval(k):
        if k == 0:
            st_["init"] = {d: dict(zip(drive.dw_points(sa, d), drive.dw_levels(sa, d))) for d in range(dim)}
            st_["init"]["lmax"] = lmax
            st_["lmax0"] = list(sa.lmax)
        if list(sa.lmax) != st_["lmax0"]:
            st_["raised"] = 1
        tag = "after evaluation %d" % k
        res = np.array(op.get_result(), dtype=float)[1:]
        err = np.abs(res - np.array(exact)) / (vol * np.array(scale))
        with drive.quiet():
            ivals = np.asarray(sa(evalpts))[:, 1:]
        ierr = np.max(np.abs(ivals - truth) / np.array(scale), axis=0)
        bad_int = float(np.max(err)) if len(err) else 0.0
        bad_ip = float(np.max(ierr)) if len(ierr) else 0.0
        if bad_int > TOL or bad_ip > TOL or not np.isfinite(bad_int + bad_ip):
            miss = _missing_initial_points(sa, st_["init"], boundary)
            if miss:
                relevelled = [m for m in miss if m[4] is not None and m[4] != m[3]]
                if relevelled and case["rebalancing"]:
                    cause = "initial-point-relevelled-by-rebalancing"
                elif relevelled:
                    cause = "initial-point-relevelled-without-rebalancing"
                else:
                    cause = "initial-point-coarsened-away/version=%d" % case["version"] + ("/lmin=lmax" if lmin == lmax else "")
                detail = "missing (dim, grid level, point, initial level, current level): %s" % (miss[:3],)
            else:
                cause = "all-initial-points-present"
                detail = ""
            kind = "integral" if bad_int > TOL else "interpolant"
            out.bad("%s/exactness-lost/%s" % (sub, cause), "%s %s: rel. integral error %.3e, interpolation error %.3e (%s) %s" % (
                tag, kind, bad_int, bad_ip, {k: case[k] for k in ("version", "rebalancing", "boundary", "lmin", "lmax")}, detail))

    def before_refine(k):
        st_["before"] = [len(drive.dw_objects(sa, d)) for d in range(dim)]

    def after_refine(k):
        st_["steps"] += 1
        after = [len(drive.dw_objects(sa, d)) for d in range(dim)]
        if 0 < sum(after) - sum(st_["before"]) < sum(st_["before"]):
            st_["strict"] += 1

    drive.run_history(sa, case, on_eval=on_eval, before_refine=before_refine, after_refine=after_refine)
    out.cls(drive.scale_class(case))
    out.nontrivial = bool(st_["strict"] and st_["raised"])
    out.cls("version=%d" % case["version"], "rebalancing=%s" % case["rebalancing"], "boundary=%s" % boundary)
    if st_["strict"]:
        out.cls("strict-subset-step")
    if case.get("legs"):
        out.cls("history-cut-into-%d-runs" % min(len(case["legs"]) + 1, 4))
    out.info = dict(max_steps=st_["steps"], max_components=len(comps))
    return out


def run_dw_modified(case):
    """modified basis (boundary off): every affine function stays exact"""
    out = Outcome()
    sub = "dw_modified"
    dim = case["dim"]
    a, b = np.array(case["a"]), np.array(case["b"])
    rng = np.random.default_rng(case["fseed"])
    g = drive.case_function(case, dim=dim)
    cs = rng.normal(size=(3, dim + 1))
    comps = [g] + [(lambda x, c=c: float(c[0] + np.dot(c[1:], x))) for c in cs]
    vol = float(np.prod(b - a))
    exact = [vol * float(c[0] + np.dot(c[1:], (a + b) / 2)) for c in cs]
    scale = [float(np.sum(np.abs(c)) * (1 + np.max(np.abs(np.concatenate([a, b]))))) for c in cs]
    f = drive.vector_function(comps)
    case = dict(case, boundary=False, modified=True, rerun=None)
    sa, op = drive.build_dw(case, f)
    evalpts = [tuple(float(a[d] + (b[d] - a[d]) * rng.random()) for d in range(dim)) for _ in range(6)]
    truth = np.array([[c(p) for c in comps[1:]] for p in evalpts])
    st_ = dict(steps=0, strict=0, before=None)

    def on_eval(k):
        res = np.array(op.get_result(), dtype=float)[1:]
        err = float(np.max(np.abs(res - np.array(exact)) / (vol * np.array(scale))))
        if not (err <= TOL):
            out.bad(sub + "/affine-integral-not-exact", "after evaluation %d: rel. error %.3e (version %d, rebalancing %s)" % (
                k, err, case["version"], case["rebalancing"]))
        with drive.quiet():
            ivals = np.asarray(sa(evalpts))[:, 1:]
        ierr = float(np.max(np.abs(ivals - truth) / np.array(scale)))
        # the modified basis only changes the quadrature weights; the interpolation routine does not extrapolate towards
        # the boundary, so the initial configuration does not interpolate affine functions exactly near the boundary and
        # the interpolation clause does not apply ("functions that the initial configuration treats exactly stay exact")
        st_["interp_err_max"] = max(st_.get("interp_err_max", 0.0), ierr)

    def before_refine(k):
        st_["before"] = [len(drive.dw_objects(sa, d)) for d in range(dim)]

    def after_refine(k):
        st_["steps"] += 1
        after = [len(drive.dw_objects(sa, d)) for d in range(dim)]
        if 0 < sum(after) - sum(st_["before"]) < sum(st_["before"]):
            st_["strict"] += 1

    try:
        drive.run_history(sa, case, on_eval=on_eval, before_refine=before_refine, after_refine=after_refine)
    except AssertionError as e:
        # The library asserts |sum(w) - (b-a)| <= 1e-12 (b-a) for the modified weights. On a strongly graded grid the two
        # outermost interior weights are +-h_b^2/(2 h_a) (linear extrapolation over a tiny interval h_a): they cancel, and
        # the rounding of that cancellation alone exceeds the library's 1e-12. That is a floating-point limit of the
        # formula, not a loss of exactness: counted when the amplification explains it, otherwise re-raised (violation).
        import traceback as _tb
        if _tb.extract_tb(e.__traceback__)[-1].name != "compute_weights":
            raise
        amp = 0.0
        for cg in sa.scheme:                      # the 1D grids of the component grids of the failing evaluation
            coords = sa.get_point_coord_for_each_dim(cg.levelvector)[0]
            for x in coords:
                x = [float(t) for t in x]
                if len(x) >= 5:
                    amp = max(amp, (x[2] - x[0]) ** 2 / (2 * (x[2] - x[1])) / (x[-1] - x[0]),
                              (x[-1] - x[-3]) ** 2 / (2 * (x[-2] - x[-3])) / (x[-1] - x[0]))
        if amp * 2.3e-16 * 4 < 1e-13:
            raise
        out.cls("modified-weights-cancellation-exceeds-library-assert(counted)")
        out.info["max_modified_weight_amplification"] = amp
    out.cls(drive.scale_class(case))
    out.nontrivial = bool(st_["strict"])
    out.cls("estimator=%s" % case.get("estimator", "tape"), "version=%d" % case["version"])
    out.info = dict(out.info, max_steps=st_["steps"])
    return out


# ----------------------------------------------------------------------------------------------------------------
# extend-split
# ----------------------------------------------------------------------------------------------------------------
def run_es(case):
    out = Outcome()
    sub = "es"
    case = dict(case, rerun=None)
    dim = case["dim"]
    a, b = case["a"], case["b"]
    rng = np.random.default_rng(case["fseed"])
    cs = rng.normal(size=(2, 2 ** dim))
    g = drive.case_function(case, dim=dim)
    comps = [g] + [oracles.multilinear(c, dim) for c in cs]
    exact = np.array([oracles.multilinear_integral(c, a, b) for c in cs])
    m = max(1.0, max(abs(x) for x in a + b))
    scale = np.array([float(np.sum(np.abs(c))) * m ** dim for c in cs])
    vol = float(np.prod(np.array(b) - np.array(a)))
    f = drive.vector_function(comps)
    grid = None
    if case.get("esgrid", "trapezoidal") != "trapezoidal":
        from checks.c05 import make_local_grid
        grid = make_local_grid(case["esgrid"], np.array(a, dtype=float), np.array(b, dtype=float), True)
    sa, op = drive.build_es(case, f, grid=grid)
    st_ = dict(steps=0, extends=0, splits_after_extend=0, n=None)

    def on_eval(k):
        res = np.array(op.get_result(), dtype=float)[1:]
        err = float(np.max(np.abs(res - exact) / (vol * scale)))
        if not (err <= TOL):
            out.bad(sub + "/multilinear-integral-not-exact", "after evaluation %d: rel. error %.3e (version %d nref %d auto %s ssd %s)" % (
                k, err, case["version"], case["nref"], case["auto"], case["ssd"]))

    def before_refine(k):
        st_["n"] = drive.es_boxes(sa)

    def after_refine(k):
        st_["steps"] += 1
        ext, spl, same = drive.es_step_kinds(st_["n"], sa)
        st_["splits_after_extend"] += spl
        st_["extends"] += ext

    drive.run_history(sa, case, on_eval=on_eval, before_refine=before_refine, after_refine=after_refine)
    out.cls(drive.scale_class(case))
    out.nontrivial = bool(st_["extends"] and st_["splits_after_extend"])
    out.cls("version=%d" % case["version"], "estimator=%s" % case["estimator"], "esgrid=%s/auto=%s" % (case.get("esgrid", "trapezoidal"), case["auto"]))
    if st_["extends"]:
        out.cls("extend-happened")
    out.info = dict(max_steps=st_["steps"], max_areas=len(sa.refinement.get_objects()))
    return out


# ----------------------------------------------------------------------------------------------------------------
# cell strategy (supported configuration lmin == lmax)
# ----------------------------------------------------------------------------------------------------------------
def run_cell(case):
    from sparseSpACE.spatiallyAdaptiveCell import SpatiallyAdaptiveCellScheme
    from sparseSpACE.GridOperation import Integration
    from sparseSpACE.Grid import TrapezoidalGrid
    out = Outcome()
    sub = "cell"
    dim = case["dim"]
    a, b = case["a"], case["b"]
    rng = np.random.default_rng(case["fseed"])
    cs = rng.normal(size=(2, 2 ** dim))
    g = drive.case_function(case, dim=dim)
    comps = [g] + [oracles.multilinear(c, dim) for c in cs]
    exact = np.array([oracles.multilinear_integral(c, a, b) for c in cs])
    m = max(1.0, max(abs(x) for x in a + b))
    scale = np.array([float(np.sum(np.abs(c))) * m ** dim for c in cs])
    vol = float(np.prod(np.array(b) - np.array(a)))
    f = drive.vector_function(comps)
    A, B = np.array(a, dtype=float), np.array(b, dtype=float)
    grid = TrapezoidalGrid(A, B)
    op = Integration(f, grid=grid, dim=dim, reference_solution=None, print_level=drive.Q, log_level=drive.Q)
    sa = SpatiallyAdaptiveCellScheme(A, B, operation=op)
    sa.log_util.set_print_level(drive.Q)
    sa.log_util.set_log_level(drive.Q)
    st_ = dict(steps=0, strict=0, n=None)

    def on_eval(k):
        res = np.array(op.get_result(), dtype=float)[1:]
        err = float(np.max(np.abs(res - exact) / (vol * scale)))
        if not (err <= TOL):
            out.bad(sub + "/multilinear-integral-not-exact", "after evaluation %d: rel. error %.3e (lmin=lmax=%d, d=%d, %d cells)" % (
                k, err, case["lmin"], dim, len(sa.refinement.get_objects())))

    def before_refine(k):
        st_["n"] = sum(1 for o in sa.refinement.get_objects() if o.active)

    def after_refine(k):
        st_["steps"] += 1
        n = sum(1 for o in sa.refinement.get_objects() if o.active)
        grown = (n - st_["n"])
        if 0 < grown < st_["n"] * (2 ** dim - 1):
            st_["strict"] += 1

    case2 = dict(case, lmax=case["lmin"], estimator="tape" if case["estimator"] == "tape" else "cell")
    if case2["estimator"] == "cell":
        from sparseSpACE.ErrorCalculator import ErrorCalculatorSurplusCell
        drive_err = ErrorCalculatorSurplusCell()
    else:
        drive_err = drive.make_tape_err(case["tape"], case["mode"], box=(case["a"], case["b"]))
    state = dict(evals=0, refines=0)
    orig_eval, orig_refine = sa.evaluate_operation, sa.refine

    def ev():
        r = orig_eval()
        on_eval(state["evals"])
        state["evals"] += 1
        return r

    def rf():
        if state["refines"] >= case["maxsteps"] or (state["refines"] >= 1 and sa.get_total_num_points() > case["maxev"]):
            raise drive.StopHistory()
        before_refine(state["refines"])
        orig_refine()
        after_refine(state["refines"])
        state["refines"] += 1
    sa.evaluate_operation, sa.refine = ev, rf
    try:
        with drive.quiet():
            sa.performSpatiallyAdaptiv(case["lmin"], case["lmin"], drive_err, tol=-1, max_evaluations=10 ** 9, print_output=False)
    except drive.StopHistory:
        pass
    out.cls(drive.scale_class(case))
    out.nontrivial = st_["steps"] >= 2 and st_["strict"] >= 1
    out.cls("lmin=%d" % case["lmin"], "estimator=%s" % case2["estimator"], "d=%d" % dim)
    out.info = dict(max_steps=st_["steps"], max_cells=len(sa.refinement.get_objects()))
    return out


def cell_strategy(tier):
    @st.composite
    def s(draw):
        dim = draw(st.integers(2, 3))
        a, b = drive.st_box(draw, dim)
        tape, mode = drive.st_tape(draw)
        c = dict(kind="cell", dim=dim, a=a, b=b, lmin=draw(st.integers(1, 2)), estimator=draw(st.sampled_from(["tape", "tape", "library"])),
                 tape=tape, mode=mode, maxsteps=draw(st.sampled_from([2, 3, 5, 8, 12, 16, 25])), maxev=draw(st.integers(60, 400)),
                 fseed=draw(st.integers(0, 10 ** 6)))
        return drive.apply_boxscale(c, drive.st_boxscale(draw, dim))
    return s()


def dw_strategy(tier):
    @st.composite
    def s(draw):
        c = draw(drive.st_dw_case(tier=tier, scales=True, bounds_forms=True))
        if draw(st.integers(0, 5)) == 0:
            # start configuration with lmin == lmax (a single full grid): the initial space is the full-grid space
            c["lmin"] = c["lmax"] = draw(st.sampled_from([2, 2, 3]))
        return c
    return s()


def dw_fixed_cases():
    """a small systematic family that every run contains: each coarsening version with lmax - lmin = 2 under the two
    decision patterns that produce dimensions refined to different depths (target point; one interval per step)"""
    cases = []
    for version in (2, 3, 6, 7, 8):
        for mode, tape in ((9, [24, 57, 24]), (9, [27, 8]), (9, [63, 13, 63]), (5, [40, 9])):
            for boundary in (True, False):
                cases.append(dict(kind="dw", dim=2, lmin=1, lmax=3, a=[0.0, 0.0], b=[1.0, 1.0], version=version, rebalancing=False,
                                  boundary=boundary, margin=0.9, safety=0.1, maxev=500, maxsteps=8, tape=tape, mode=mode,
                                  fseed=version * 10 + mode, legs=None, rerun=None))
    return cases


def dwm_strategy(tier):
    @st.composite
    def s(draw):
        c = draw(drive.st_dw_case(tier=tier, scales=True, bounds_forms=True))
        c["estimator"] = draw(st.sampled_from(["tape", "tape", "library"]))
        return c
    return s()


def es_strategy(tier):
    @st.composite
    def s(draw):
        c = draw(drive.st_es_case(tier=tier, boundary_choices=(True,), scales=True, bounds_forms=True))
        # the statement covers every local grid family that integrates multilinear functions exactly, not only the trapezoidal one
        c["esgrid"] = draw(st.sampled_from(["trapezoidal", "trapezoidal", "trapezoidal", "clenshawcurtis", "gausslegendre", "simpson", "lagrange", "bspline"]))
        if c["esgrid"] != "trapezoidal":
            # split_single_dim with a non-trapezoidal grid trips the library's own assertion in get_sum_sibling_value (see C05)
            c["ssd"] = False
            c["maxev"] = min(c["maxev"], 400)
            if c["dim"] == 4:
                c["esgrid"] = "trapezoidal"
        return c
    return s()


def selftest():
    a, b = [0.0, 1.0], [2.0, 1.5]
    fns = oracles.all_basis_functions(2, 1, 2, True)
    # dimension of the sparse space (lmin=1,lmax=2, boundary): |V_(1,2) + V_(2,1)| = 3*5 + 5*3 - 3*3 = 21
    assert len(fns) == 21, len(fns)
    assert len(oracles.all_basis_functions(2, 1, 2, False)) == 1 * 3 + 3 * 1 - 1
    # integrals against a fine midpoint rule
    fn = [(2, 3), (0, 1)]
    n = 400
    xs = [a[0] + (b[0] - a[0]) * (i + 0.5) / n for i in range(n)]
    ys = [a[1] + (b[1] - a[1]) * (i + 0.5) / n for i in range(n)]
    num = sum(oracles.basis_eval(fn, a, b, (x, y)) for x in xs for y in ys) * (b[0] - a[0]) * (b[1] - a[1]) / n / n
    assert abs(num - oracles.basis_integral(fn, a, b)) < 1e-5
    c = [1.0, 2.0, -3.0, 0.5]
    f = oracles.multilinear(c, 2)
    num = sum(f((x, y)) for x in xs for y in ys) * (b[0] - a[0]) * (b[1] - a[1]) / n / n
    assert abs(num - oracles.multilinear_integral(c, a, b)) < 1e-9


SUBS = [
    Sub("dw", dw_strategy, run_dw, dict(quick=350, thorough=8000), budget_s=dict(quick=40, thorough=600), fixed_cases=dw_fixed_cases),
    Sub("dw_modified", dwm_strategy, run_dw_modified, dict(quick=160, thorough=3000), budget_s=dict(quick=25, thorough=400)),
    Sub("es", es_strategy, run_es, dict(quick=160, thorough=4000), budget_s=dict(quick=40, thorough=600)),
    Sub("cell", cell_strategy, run_cell, dict(quick=200, thorough=4000), budget_s=dict(quick=25, thorough=400)),
]
