"""C02 — the standard (truncated) combination technique equals the sparse-grid interpolant.

Oracle: the hierarchical hat basis written from its definition (vlib/oracles.py; vectorised copy below, cross-checked in
selftest), closed-form integrals, the index set {l >= lmin, |l - lmin|_1 <= lmax - lmin} enumerated directly, and the
sparse-grid interpolant of an arbitrary function obtained by hierarchisation in that basis.  Nothing of the library's
scheme / grid / interpolation code is used to build the expectation.
"""
import itertools
import math

import numpy as np
from hypothesis import strategies as st

from vlib.core import Outcome, Sub
from vlib import drive, oracles

PROPERTY = "C02"
RULE = ("combi: (d in 1..3 (4 thorough), 1<=lmin<=5, lmax=lmin+0..5 (mostly <=3), box [a,b] per dimension from integers / dyadics / non-dyadic "
        "floats / independently drawn decimal bounds such as [-1,1.3], [-2,2.1] (3 of 8 boxes; half of them with fl(a+fl(b-a)) != b) "
        "/ narrow boxes far from the origin, TrapezoidalGrid boundary on|off, operation Integration|Interpolation, "
        "integrator default|'old', a permutation of the observation blocks integrate / points / call / interpolate_grid / "
        "points-and-weights, optionally after the same objects have been used for another (lmin,lmax); 3 of 8 boxes are scaled as a "
        "whole or per dimension by s in {2^-30,1e-9,1e-6,1e-3,1e3,2^20} (unusual units); with boundary=False 4 of 7 cases add "
        "0.25*prod(t(1-t))^-1/2 to the driver, which on the boundary of the box is inf, nan or raises ZeroDivisionError; 2 of 5 cases pass the integrand as a Function "
        "subclass with its own eval_vectorized (documented layout (..., n_points, output_length)) instead of FunctionCustom, and "
        "these plus a quarter of the others draw the output length k: 1..9 or, half of the time, the number of points of one of "
        "the case's component grids (3, 5, 7, 9, 15, 21, 25, 27), components taken in the order driver, combination, basis, "
        "table, basis, nodal, ...). The default integrand is "
        "one vector-valued FunctionCustom = [smooth driver, pseudo-random table on the grid points, 3 nodal unit functions, up to 8 random hierarchical hat functions of the scheme's space (biased "
        "to the deepest admissible levels), one random combination of up to 300 basis functions of the space]. Sizes are "
        "limited by construction through a budget on the total number of component-grid points. Non-trivial = d>=2 and "
        "lmax>lmin (more than one component grid, negative coefficients present) and at least one carried basis function "
        "is not representable on the coarsest component grid (sum_d max(k_d,lmin) > d*lmin). "
        "observe: one StandardCombi object serves a warm-up request (levels w0<=w1), then 1-3 drawn public read-only / output "
        "methods (print_resulting_combi_scheme (2 option sets), print_resulting_sparsegrid, print_subspaces (default and "
        "sparse_grid_spaces=False), plot (2), get_total_num_points (2), get_points_and_weights, get_points_component_grid, __call__, "
        "interpolate_grid, check_combi_scheme (boundary=True only); Agg backend, figures closed, files written to the scratch "
        "directory in 1 of 6 cases), then the real request with other levels: all clauses of combi apply, and scheme, points, "
        "integral, interpolated values and combined weights must be bit-identical to a twin object that got the same requests "
        "without the calls; non-trivial = the warm-up levels differ from the requested ones. "
        "scheme: structure only (no integrand) for d in 1..5 and lmin up to 5: point union, coefficient sums, point "
        "counts; non-trivial = d>=2 and lmax>lmin. Distinct = distinct case dict.")
ASSUMPTIONS = [
    "level convention: a component grid of level l has 2^l+1 points per dimension including the two boundary points "
    "(2^l-1 with boundary=False); hierarchical level 0 = the two boundary functions, present only with boundary=True; "
    "a basis function with 1D levels k belongs to the space iff (max(k_d,lmin))_d lies in the index set",
    "points are identified by their relative position in the box rounded to 2^-32 (with boundary=False the level-1 grid "
    "computes its midpoint as (a+b)/2 and finer grids as a+(b-a)/2, which may differ in the last bit)",
    "tolerances: 1e-11*cond*volume*scale for integrals and 1e-11*cond*scale for interpolated values (scale = 1 for a basis "
    "function, sum|c| for the combination, max(1,max|g|) for arbitrary functions; cond = max(1, max_d max(|a_d|,|b_d|)/(b_d-a_d) "
    "* 2^lmax / 100) accounts for the rounding of coordinates in boxes that are narrow compared with their distance from "
    "the origin); rounding observed on the unchanged tree is reported in reached_max (err_*, already divided by cond)",
    "with boundary=False the combined interpolant of an arbitrary function is compared with the zero-boundary sparse-grid "
    "interpolant also off the grid points (the title of the property; the anchored mechanism is 'zero boundary when "
    "boundary points are off'); with boundary=True this follows from the statement by linearity",
    "the integral of an arbitrary function must equal the integral of its sparse-grid interpolant: follows from the "
    "statement because the quadrature is a weighted sum of values at component-grid points",
    "every tolerance is relative to the box volume and the magnitude of the function (no absolute terms), so boxes in "
    "unusual units (scaled by 2^-30 .. 2^20) are held to the same relative accuracy; the smooth driver is evaluated in the "
    "unscaled units so that it does not degenerate to a linear function on a tiny box",
    "with boundary=False the values of the function ON the boundary of the box are irrelevant by definition of the "
    "zero-boundary interpolant: a function that is inf/nan or raises there must give the same (finite) results as required "
    "for any other function; a nan/inf result where the oracle determines a finite value is a deviation",
    "a user Function may override eval_vectorized next to eval; the layout the base class itself produces and reshapes to is "
    "(n_points, output_length) (for stacked input (..., n_points, output_length)), and that is what the check's subclass returns",
    "with boundary=True the box ends a_d and b_d themselves (bit-exact) must be coordinates of every component grid in every "
    "dimension and no returned point may lie outside the closed box: points on the faces of the box are points of the sparse "
    "grid, and interpolation is requested on the closed box including its faces and corners (all other point comparisons "
    "identify points by relative position rounded to 2^-32 and would not see a last-bit shift of the outermost nodes)",
    "observe: the plot / print / getter methods are read-only by their documentation ('plots', 'prints', 'returns'); a later "
    "request on the same object must answer exactly as on an object that was not observed. check_combi_scheme is called with "
    "boundary=True only: with boundary=False it fails on the unchanged tree when the level-1 midpoint (a+b)/2 and a+(b-a)/2 "
    "differ in the last bit (exact tuple comparison; its error path then needs self.refinement, which StandardCombi lacks)",
    "interpolation points are generated inside the closed box [a,b] (the interpolant is only defined there; scipy's interpn, "
    "which the library delegates to, raises for points outside)",
    "the sparse-grid-interpolant oracle for arbitrary functions is skipped (counted as class sgi-oracle-skipped(size)) when the "
    "space has more than 3000 basis functions; the clauses on space functions and on sparse-grid points still apply",
    "get_num_points_component_grid is only asked after get_points_component_grid has returned the points it is compared "
    "with; on a TrapezoidalGrid that was never positioned (no points/integration/interpolation call yet) it raises "
    "AttributeError ('start'), a call order that no caller in the repository uses and that the statement does not cover",
]
TOL = 1e-11
KRES = 2 ** 32      # resolution of the point identification (relative position in the box)


# ----------------------------------------------------------------------------------------------------------------
# reference model
# ----------------------------------------------------------------------------------------------------------------
class Basis:
    """Vectorised evaluation of hierarchical hat functions: phi_{k,i}(t) = max(0, 1 - |t*2^k - i|) on t in [0,1]
    (for k = 0 this is 1-t for i=0 and t for i=1).  Cross-checked against oracles.basis_eval in selftest()."""

    def __init__(self, fns, a, b):
        self.fns = [list(map(tuple, fn)) for fn in fns]
        self.a = np.asarray(a, dtype=float)
        self.w = np.asarray(b, dtype=float) - self.a
        dim = len(a)
        self.S = np.array([[2.0 ** k for (k, i) in fn] for fn in self.fns], dtype=float).reshape(len(self.fns), dim)
        self.I = np.array([[float(i) for (k, i) in fn] for fn in self.fns], dtype=float).reshape(len(self.fns), dim)

    def at_point(self, x):
        t = (np.asarray(x, dtype=float) - self.a) / self.w
        return np.prod(np.maximum(0.0, 1.0 - np.abs(t[None, :] * self.S - self.I)), axis=1)

    def at_rel(self, T):
        T = np.asarray(T, dtype=float).reshape(-1, len(self.a))
        res = np.ones((len(T), len(self.fns)))
        for d in range(len(self.a)):
            res *= np.maximum(0.0, 1.0 - np.abs(T[:, d, None] * self.S[None, :, d] - self.I[None, :, d]))
        return res

    def at_points(self, X):
        X = np.asarray(X, dtype=float).reshape(-1, len(self.a))
        return self.at_rel((X - self.a[None, :]) / self.w[None, :])

    def nodes(self):
        """relative positions of the node of every basis function (level 0: 0 or 1, else i/2^k)"""
        return self.I / self.S

    def integrals(self):
        vol1 = np.where(self.S == 1.0, 0.5, 1.0 / self.S) * self.w[None, :]
        return np.prod(vol1, axis=1)


def index_set(dim, lmin, lmax):
    return [l for l in itertools.product(range(lmin, lmax + 1), repeat=dim) if sum(l) - dim * lmin <= lmax - lmin]


def scheme_cost(dim, lmin, lmax, boundary=True):
    """(number of component grids with non-zero coefficient, total number of their points) from the definition"""
    idx = set(index_set(dim, lmin, lmax))
    grids = points = 0
    for l in idx:
        c = sum((-1) ** sum(z) for z in itertools.product((0, 1), repeat=dim)
                if tuple(l[j] + z[j] for j in range(dim)) in idx)
        if c:
            grids += 1
            points += int(np.prod([2 ** k + (1 if boundary else -1) for k in l]))
    return grids, points


def relkey(p, a, b):
    return tuple(int(round((float(p[d]) - a[d]) / (b[d] - a[d]) * KRES)) for d in range(len(a)))


def frac_key(fr):
    return tuple(i * (KRES // n) for (i, n) in fr)


def to_coord(t, a, b):
    """relative position -> coordinate inside the closed box; t_d = 0 and t_d = 1 give a_d and b_d themselves (bit-exact:
    fl(a + fl(b - a)) differs from b for about a quarter of all boxes with decimal bounds)"""
    return tuple(a[d] if t[d] <= 0.0 else (b[d] if t[d] >= 1.0 else min(max(a[d] + (b[d] - a[d]) * float(t[d]), a[d]), b[d]))
                 for d in range(len(a)))


def table_value(key, seed):
    """pseudo-random value in [-1,1) attached to a grid point (arbitrary, nowhere smooth function)"""
    h = (seed * 2654435761 + 88172645463325252) % (1 << 64)
    for k in key:
        h = (h * 6364136223846793005 + (k % (1 << 64)) + 1442695040888963407) % (1 << 64)
        h ^= h >> 29
    h = (h * 0x9E3779B97F4A7C15) % (1 << 64)
    return (h >> 11) / float(1 << 52) - 1.0


def hierarchise(basis_all, values_at_nodes):
    """surpluses of the sparse-grid interpolant: solve A s = g, A[i,j] = phi_j(node_i), unit lower triangular when the
    functions are ordered by level sum"""
    from scipy.linalg import solve_triangular
    A = basis_all.at_rel(basis_all.nodes())        # exact: dyadic relative positions
    # exactness of the ordering (harness invariant, not a library property)
    if np.any(np.triu(A, 1) != 0.0) or np.any(np.diag(A) != 1.0):
        raise RuntimeError("reference basis is not unit lower triangular in level order")
    return solve_triangular(A, values_at_nodes, lower=True, unit_diagonal=True)


PLAN = ["driver", "combination", "basis", "table", "basis", "nodal", "basis", "nodal", "basis", "nodal"]


def grid_point_counts(dim, lmin, lmax, boundary):
    """point counts of the component grids with non-zero coefficient, from the definition"""
    idx = set(index_set(dim, lmin, lmax))
    res = set()
    for l in idx:
        c = sum((-1) ** sum(z) for z in itertools.product((0, 1), repeat=dim) if tuple(l[j] + z[j] for j in range(dim)) in idx)
        if c:
            res.add(int(np.prod([2 ** k + (1 if boundary else -1) for k in l])))
    return sorted(res)


class Model:
    """Everything the oracle knows about one case."""

    def __init__(self, case):
        self.case = case
        dim, lmin, lmax, boundary = case["dim"], case["lmin"], case["lmax"], case["boundary"]
        self.dim, self.lmin, self.lmax, self.boundary = dim, lmin, lmax, boundary
        self.a = [float(x) for x in case["a"]]
        self.b = [float(x) for x in case["b"]]
        self.vol = float(np.prod(np.array(self.b) - np.array(self.a)))
        # conditioning of "relative position in the box": a coordinate carries a rounding error of max(|a|,|b|)*2^-53, i.e.
        # max(|a|,|b|)/(b-a)*2^-53 in relative position, which a hat function of level lmax amplifies by 2^lmax
        pos = max(max(abs(x), abs(y)) / (y - x) for x, y in zip(self.a, self.b))
        self.cond = max(1.0, pos * 2.0 ** lmax / 100.0)
        rng = np.random.default_rng(case["rng"])
        self.rng = rng
        # expected sparse grid
        self.sparse = sorted(oracles.sparse_grid_points(dim, lmin, lmax, self.a, self.b, boundary))
        self.sparse_keys = [frac_key(fr) for fr in self.sparse]
        self.sparse_coords = [to_coord([i / n for (i, n) in fr], self.a, self.b) for fr in self.sparse]
        # space functions
        allfn = oracles.all_basis_functions(dim, lmin, lmax, boundary)
        allfn.sort(key=lambda fn: (sum(k for k, i in fn), fn))
        self.allfn = allfn
        # composition of the vector-valued integrand: legacy = [driver, table, 3 nodal, 8 basis functions, combination];
        # with case["outlen"] = k exactly k components, taken in the order of PLAN (rotated for k < 3 so that a scalar
        # function is a driver, a combination or a basis function in turn)
        k_out = case.get("outlen")
        if k_out:
            plan = (PLAN + ["basis"] * 30)[:k_out] if k_out >= 3 else (PLAN[case["rng"] % 3:] + PLAN)[:k_out]
        else:
            plan = ["driver", "table"] + ["nodal"] * 3 + ["basis"] * case.get("nbasis", 8) + ["combination"]
        want_sel = plan.count("basis")
        self.sel = oracles.draw_basis_functions(rng, dim, lmin, lmax, boundary, want_sel) if (allfn and want_sel) else []
        ncomb = min(len(allfn), 300)
        pick = sorted(rng.choice(len(allfn), size=ncomb, replace=False)) if allfn else []
        self.comb = [allfn[i] for i in pick]
        self.coefs = rng.normal(size=len(self.comb))
        self.basis_fun = Basis(self.sel + self.comb, self.a, self.b)
        # arbitrary functions
        drv = drive.driver_function(dim, case["rng"])
        bs = [float(v) for v in (case.get("boxscale") or [1.0] * dim)]
        self.driver = lambda x: drv(tuple(x[d] / bs[d] for d in range(dim)))     # the driver sees the box in its original units
        # optional singular term of the driver: 0.25 * prod_d (t_d (1 - t_d))^-1/2, finite inside, inf / nan / raising on the
        # boundary of the box (the classical reason for grids without boundary points)
        self.has_driver = "driver" in plan
        self.singular = case.get("singular") if (not boundary and self.has_driver) else None
        nn = min(plan.count("nodal"), len(self.sparse))
        self.nodal = [self.sparse_keys[i] for i in sorted(rng.choice(len(self.sparse), size=nn, replace=False))] if nn else []
        self.n_sel = len(self.sel)
        self.has_comb = "combination" in plan
        # basis functions / nodal functions that the space is too small to supply are replaced by further random tables
        ntab = plan.count("table") + (want_sel - self.n_sel) + (plan.count("nodal") - nn)
        self.arb = ([("driver", 0)] if self.has_driver else []) + [("table", j) for j in range(ntab)] + [("nodal", nk) for nk in self.nodal]
        self.n_arb = len(self.arb)
        self.ncomp = self.n_arb + self.n_sel + (1 if self.has_comb else 0)
        self.names = [kind for kind, _ in self.arb] + ["basis-function"] * self.n_sel + ["combination"] * (1 if self.has_comb else 0)
        self.scale = np.array([1.0] * (self.n_arb + self.n_sel) + [max(1.0, float(np.sum(np.abs(self.coefs))))] * (1 if self.has_comb else 0))
        ints = self.basis_fun.integrals() if (self.sel or self.comb) else np.zeros(0)
        self.exact_space = np.concatenate([ints[:self.n_sel], [float(np.dot(self.coefs, ints[self.n_sel:]))] if self.has_comb else []])
        self.memo = {}
        self.calls = 0

    def singular_term(self, xt, safe):
        den = 1.0
        for d in range(self.dim):
            t = (xt[d] - self.a[d]) / (self.b[d] - self.a[d])
            den *= t * (1.0 - t)
        if den <= 0.0:                      # on the boundary of the box
            if safe or self.singular == "nan":
                return math.nan
            if self.singular == "inf":
                return math.inf
        return 0.25 / math.sqrt(den)        # mode "raise": ZeroDivisionError on the boundary, as 1/sqrt(t(1-t)) does

    def f(self, x, safe=False):
        """the integrand as the library sees it (safe=False); the oracle calls it with safe=True, which only matters on the
        boundary of the box for the singular driver (nan instead of inf / an exception; the oracle never uses that value)"""
        xt = tuple(float(v) for v in x)
        hit = self.memo.get(xt)
        if hit is not None:
            return hit
        self.calls += 1
        key = relkey(xt, self.a, self.b)
        drv = self.driver(xt) if self.has_driver else 0.0
        if self.singular:
            drv = drv + self.singular_term(xt, safe)
            if safe and math.isnan(drv):
                return self._rest(xt, key, drv)         # not memoised: the library-facing value differs
        vals = self._rest(xt, key, drv)
        self.memo[xt] = vals
        return vals

    def _rest(self, xt, key, drv):
        vals = []
        for kind, arg in self.arb:
            if kind == "driver":
                vals.append(drv)
            elif kind == "table":
                vals.append(table_value(key, self.case["rng"] + 7919 * arg))
            else:
                vals.append(1.0 if key == arg else 0.0)
        if self.n_sel or self.has_comb:
            hv = self.basis_fun.at_point(xt)
            vals += [float(v) for v in hv[:self.n_sel]]
            if self.has_comb:
                vals.append(float(np.dot(self.coefs, hv[self.n_sel:])))
        return vals

    def values(self, pts):
        return np.array([self.f(p, safe=True) for p in pts], dtype=float).reshape(len(pts), self.ncomp)

    def deep_function_present(self):
        return any(sum(max(k, self.lmin) for k, i in fn) > self.dim * self.lmin for fn in self.sel)

    def sparse_grid_interpolant(self, pts, zero_if=None, all_components=False):
        """values at pts of the sparse-grid interpolants of the arbitrary (or all) components, and their integrals;
        zero_if(x) -> True replaces the nodal value at x by 0 (used only to classify the cause of a deviation)"""
        ball = Basis(self.allfn, self.a, self.b)
        nodes = [to_coord(t, self.a, self.b) for t in ball.nodes()]
        G = self.values(nodes)[:, :(self.ncomp if all_components else self.n_arb)].copy()
        if zero_if is not None:
            for i, x in enumerate(nodes):
                if zero_if(x):
                    G[i, :] = 0.0
        S = hierarchise(ball, G)
        return ball.at_points(pts) @ S, ball.integrals() @ S


def build(case, model):
    from sparseSpACE.StandardCombi import StandardCombi
    from sparseSpACE.GridOperation import Integration, Interpolation
    from sparseSpACE.Grid import TrapezoidalGrid
    from sparseSpACE.Function import FunctionCustom
    a = np.array(model.a, dtype=float)
    b = np.array(model.b, dtype=float)
    if case.get("fclass") == "own_vectorized":
        from sparseSpACE.Function import Function

        class VectorisedModel(Function):
            """a user function with its own eval_vectorized in the documented layout (..., n_points, output_length)"""

            def output_length(self):
                return model.ncomp

            def eval(self, coordinates):
                return model.f(coordinates)

            def eval_vectorized(self, coordinates):
                c = np.asarray(coordinates, dtype=float)
                flat = c.reshape(-1, c.shape[-1])
                vals = np.array([model.f(p) for p in flat], dtype=float).reshape(len(flat), model.ncomp)
                return vals.reshape(c.shape[:-1] + (model.ncomp,))

        f = VectorisedModel()
    else:
        f = FunctionCustom(model.f, output_dim=model.ncomp)
    integ = "old" if case.get("integrator") == "old" else None
    grid = TrapezoidalGrid(a=a, b=b, boundary=model.boundary, integrator=integ)
    opcls = Interpolation if case.get("op") == "Interpolation" else Integration
    op = opcls(f, grid=grid, dim=model.dim, print_level=drive.Q, log_level=drive.Q)
    sc = StandardCombi(a, b, operation=op, print_level=drive.Q, log_level=drive.Q)
    return sc, op, grid


# ----------------------------------------------------------------------------------------------------------------
# clauses on the point structure (shared by both sub-checks)
# ----------------------------------------------------------------------------------------------------------------
def check_structure(out, sub, sc, model, info):
    """clauses 3, 4, 5: union of points, coefficient sums, point counts.  Returns the number of component grids."""
    dim, a, b = model.dim, model.a, model.b
    sums = {}
    rawpoints = set()
    per_grid = []
    for cg in sc.scheme:
        lv = [int(x) for x in cg.levelvector]
        pts = sc.get_points_component_grid(cg.levelvector)
        per_grid.append((lv, cg.coefficient, len(pts)))
        keys = set()
        for p in pts:
            if len(p) != dim:
                out.bad(sub + "/points/wrong-dimension", "grid %s returned point %s" % (lv, p))
                return len(sc.scheme)
            k = relkey(p, a, b)
            keys.add(k)
            rawpoints.add(tuple(float(x) for x in p))
        if len(keys) != len(pts):
            out.bad(sub + "/points/duplicate-point-in-component-grid", "grid %s: %d points, %d distinct" % (lv, len(pts), len(keys)))
        # every point lies in the closed box; with boundary points the box ends a_d, b_d themselves (bit-exact) are coordinates
        # of the grid in every dimension (the interpolation mesh must reach the faces, nodal values belong to the faces)
        for d in range(dim):
            cs = [float(p[d]) for p in pts]
            if not cs:
                continue
            lo, hi = min(cs), max(cs)
            if lo < a[d] or hi > b[d]:
                out.bad(sub + "/points/point-outside-closed-box", "grid %s dimension %d: coordinates range over [%r, %r], box [%r, %r]" % (
                    lv, d, lo, hi, a[d], b[d]))
            elif model.boundary and (lo != a[d] or hi != b[d]):
                which = "/".join(w for w, bad in (("lower", lo != a[d]), ("upper", hi != b[d])) if bad)
                out.bad(sub + "/points/domain-end-point-is-not-a-grid-coordinate/" + which,
                        "grid %s dimension %d boundary=True: outermost coordinates %r and %r, box ends %r and %r" % (lv, d, lo, hi, a[d], b[d]))
        for k in keys:
            sums[k] = sums.get(k, 0) + cg.coefficient
    # clause 5 (second loop on purpose: the grid object is now positioned on the last level vector)
    for cg, (lv, coef, npts) in zip(sc.scheme, per_grid):
        reported = sc.get_num_points_component_grid(cg.levelvector, False)
        reported2 = sc.get_num_points_component_grid(cg.levelvector, True)
        prod = int(np.prod(sc.grid.levelToNumPoints(cg.levelvector)))
        if int(reported) != npts or int(reported2) != npts or prod != npts:
            out.bad(sub + "/count/reported-differs-from-returned-points",
                    "grid %s: get_num_points_component_grid=%s prod(levelToNumPoints)=%s len(points)=%d" % (lv, reported, prod, npts))
        want = int(np.prod([2 ** k + (1 if model.boundary else -1) for k in lv]))
        if npts != want:
            out.bad(sub + "/count/differs-from-level-convention", "grid %s boundary=%s: %d points, expected %d" % (lv, model.boundary, npts, want))
    # clause 3
    got = set(sums)
    exp = set(model.sparse_keys)
    if got != exp:
        miss, extra = exp - got, got - exp
        cause = "missing-and-extra" if (miss and extra) else ("missing" if miss else "extra")
        ex = sorted(miss or extra)[0]
        out.bad(sub + "/pointset/" + cause, "union of component grids has %d points, sparse grid (d=%d lmin=%d lmax=%d boundary=%s) has %d; "
                "%d missing, %d extra, e.g. relative position %s; grids %s" % (
                    len(got), dim, model.lmin, model.lmax, model.boundary, len(exp), len(miss), len(extra),
                    [k / KRES for k in ex], [(lv, c) for lv, c, n in per_grid][:8]))
    # clause 4
    wrong = sorted((k, v) for k, v in sums.items() if v != 1)
    if wrong:
        k, v = wrong[0]
        out.bad(sub + "/coefsum/not-one", "%d of %d points have coefficient sum != 1, e.g. relative position %s: %s; grids %s" % (
            len(wrong), len(sums), [x / KRES for x in k], v, [(lv, c) for lv, c, n in per_grid][:8]))
    info["ulp_split_points"] = len(rawpoints) - len(got)
    info["max_sparse_points"] = len(exp)
    info["max_grids"] = len(per_grid)
    return len(per_grid)


# ----------------------------------------------------------------------------------------------------------------
# sub-check combi
# ----------------------------------------------------------------------------------------------------------------
BLOCKS = ["integrate", "points", "call", "igrid", "pw"]


def _mx(arr):
    arr = np.asarray(arr)
    return float(np.max(arr)) if arr.size else 0.0


def _first_bad(err, tol):
    idx = np.argwhere(~(err <= tol))
    return (int(idx[0][0]), int(idx[0][1])) if len(idx) else None


def _cause_names(model, cols):
    """coarse cause from the set of deviating components: arbitrary functions -> 'any-function'; space functions ->
    whether only basis functions with a boundary (level 0) factor deviate"""
    na = model.n_arb
    single = [c - na for c in cols if na <= c < na + model.n_sel]
    if all(c < na for c in cols):
        return "any-function"
    passing_interior = [j for j in range(model.n_sel) if (na + j) not in cols and all(k > 0 for k, i in model.sel[j])]
    if single and passing_interior and all(any(k == 0 for k, i in model.sel[j]) for j in single):
        return "only-functions-with-a-boundary-factor"
    return "general"


def run_combi(case, corrupt=None):
    out = Outcome()
    sub = "combi"
    model = Model(case)
    dim, a, b = model.dim, model.a, model.b
    lmin, lmax = model.lmin, model.lmax
    info = {}
    tol = TOL * model.cond
    sc, op, grid = build(case, model)
    order = [BLOCKS[i] for i in case.get("order", list(range(len(BLOCKS))))]
    rng = np.random.default_rng(case["rng"] + 1)

    # evaluation points: every sparse-grid point (oracle coordinates) + random / grid-line / boundary positions
    nrand = 10
    T = rng.random((nrand, dim))
    kinds = rng.integers(0, 4, size=(nrand, dim))
    dy = rng.integers(0, 2 ** (lmax + 1) + 1, size=(nrand, dim)) / float(2 ** (lmax + 1))
    T = np.where(kinds == 1, dy, T)                                       # on a grid line of level lmax+1
    T = np.where(kinds == 2, rng.integers(0, 2, size=(nrand, dim)), T)    # on the boundary
    # ... the two corners a and b, and for two dimensions a point exactly on the lower / upper face
    extra = [np.zeros(dim), np.ones(dim)]
    for j in range(2):
        for face in (0.0, 1.0):
            t = rng.random(dim)
            t[int(rng.integers(0, dim))] = face
            extra.append(t)
    T = np.vstack([T] + extra)
    R = [to_coord(t, a, b) for t in T]
    P = list(model.sparse_coords) + R
    nS = len(model.sparse_coords)
    # tensor grid for interpolate_grid
    gc = []
    for d in range(dim):
        n = int(rng.integers(1, 4))
        t = np.sort(np.where(rng.integers(0, 3, size=n) == 0, rng.integers(0, 2 ** lmax + 1, size=n) / float(2 ** lmax), rng.random(n)))
        t = [tt for tt in t if 0.0 < tt < 1.0]
        faces = int(rng.integers(0, 4))                    # 0: interior only, 1: + lower face, 2: + upper face, 3: both
        t = ([0.0] if faces in (1, 3) else []) + t + ([1.0] if faces in (2, 3) else [])
        if not t:
            t = [1.0]
        gc.append([to_coord([tt] * dim, a, b)[d] for tt in t])
    cross = list(itertools.product(*gc))

    obs = {}
    with drive.quiet():
        if case.get("warmup"):
            # the same objects were used for another scheme before (as the repository's tests do): nothing may be left over
            w0, w1 = case["warmup"]
            sc.perform_operation(w0, w1)
            sc(R[:2])
        elif case.get("observe"):
            sc.set_combi_parameters(lmin, lmax)
        for name in case.get("observe") or []:
            observe(name, sc, a, b, case)        # read-only / output methods between two requests: must not change anything
        if order[0] != "integrate":
            sc.set_combi_parameters(lmin, lmax)
        for blk in order:
            if blk == "integrate":
                scheme, err, res = sc.perform_operation(lmin, lmax)
                obs["integral"] = np.array(res, dtype=float).reshape(-1)
                if corrupt is not None:
                    corrupt(sc)
            elif blk == "points":
                obs["ngrids"] = check_structure(out, sub, sc, model, info)
            elif blk == "call":
                obs["call"] = np.asarray(sc(P), dtype=float)
            elif blk == "igrid":
                obs["igrid"] = np.asarray(sc.interpolate_grid(gc), dtype=float)
                obs["igrid_call"] = np.asarray(sc(cross), dtype=float)
            elif blk == "pw":
                pts, wts = sc.get_points_and_weights()
                obs["pw"] = (np.asarray(pts, dtype=float).reshape(-1, dim), np.asarray(wts, dtype=float).reshape(-1))

    ncomp, na = model.ncomp, model.n_arb
    scale = model.scale
    off = R + cross                       # points that are not (necessarily) sparse-grid points
    truthP = model.values(P)
    truthC = model.values(cross)
    arb_scale = np.maximum(1.0, np.max(np.abs(truthP[:nS, :na]), axis=0))
    full_scale = np.concatenate([arb_scale, scale[na:]])
    sgi_ok = len(model.allfn) <= case.get("sgi_cap", 3000)
    if sgi_ok:
        sgi_off, sgi_int = model.sparse_grid_interpolant(off)
    else:
        sgi_off = sgi_int = None
        out.cls("sgi-oracle-skipped(size)")

    # ---- clause 1: integrals of space functions
    res = obs["integral"]
    if res.shape != (ncomp,):
        out.bad(sub + "/integral/result-shape", "result has shape %s, integrand has %d components" % (res.shape, ncomp))
    else:
        err = np.abs(res[na:] - model.exact_space) / (model.vol * scale[na:])
        info["err_integral"] = _mx(err) / model.cond
        badc = [na + int(i) for i in np.argwhere(~(err <= tol)).reshape(-1)]
        if badc:
            c = badc[0]
            fn = (model.sel + [None])[c - na]
            out.bad(sub + "/integral/space-function-not-exact/" + _cause_names(model, badc),
                    "%d of %d space functions; e.g. component %d (%s %s): combi %.15g exact %.15g rel.err %.3e  (d=%d lmin=%d lmax=%d boundary=%s a=%s b=%s)" % (
                        len(badc), ncomp - na, c, model.names[c], fn, res[c], model.exact_space[c - na], err[c - na], dim, lmin, lmax, model.boundary, a, b))
        if sgi_int is not None:
            erra = np.abs(res[:na] - sgi_int[:na]) / (model.vol * arb_scale)
            info["err_integral_arbitrary"] = _mx(erra) / model.cond
            badc = [int(i) for i in np.argwhere(~(erra <= tol)).reshape(-1)]
            if badc:
                c = badc[0]
                out.bad(sub + "/integral/arbitrary-function-differs-from-integral-of-sparse-grid-interpolant/" + _cause_names(model, badc),
                        "component %d (%s): combi %.15g, integral of the sparse-grid interpolant %.15g (d=%d lmin=%d lmax=%d boundary=%s)" % (
                            c, model.names[c], res[c], sgi_int[c], dim, lmin, lmax, model.boundary))

    # ---- clause 1b: the combined quadrature rule (get_points_and_weights) integrates the space functions exactly
    pts, wts = obs["pw"]
    if len(pts) != len(wts):
        out.bad(sub + "/points-and-weights/length-mismatch", "%d points, %d weights" % (len(pts), len(wts)))
    else:
        vals = model.values([tuple(p) for p in pts]) if len(pts) else np.zeros((0, ncomp))
        q = wts @ vals if len(pts) else np.zeros(ncomp)
        err = np.abs(q[na:] - model.exact_space) / (model.vol * scale[na:])
        info["err_pw"] = _mx(err) / model.cond
        badc = [na + int(i) for i in np.argwhere(~(err <= tol)).reshape(-1)]
        if badc:
            c = badc[0]
            out.bad(sub + "/points-and-weights/space-function-not-exact/" + _cause_names(model, badc),
                    "sum_i w_i f(p_i) over get_points_and_weights(): component %d (%s): %.15g exact %.15g (d=%d lmin=%d lmax=%d boundary=%s)" % (
                        c, model.names[c], q[c], model.exact_space[c - na], dim, lmin, lmax, model.boundary))
        # ... and is the rule that perform_operation applied
        if res.shape == (ncomp,):
            errq = np.abs(q - res) / (model.vol * full_scale)
            if np.any(~(errq <= tol)):
                c = int(np.argwhere(~(errq <= tol))[0][0])
                out.bad(sub + "/points-and-weights/differs-from-perform-operation", "component %d (%s): %.15g vs %.15g" % (c, model.names[c], q[c], res[c]))

    # ---- clauses 2 and 6: interpolation through __call__ and interpolate_grid
    vals, ig, ic = obs["call"], obs["igrid"], obs["igrid_call"]
    if vals.shape != (len(P), ncomp):
        out.bad(sub + "/call/result-shape", "shape %s for %d points and %d components" % (vals.shape, len(P), ncomp))
    elif ig.shape != (len(cross), ncomp) or ic.shape != ig.shape:
        out.bad(sub + "/interpolate_grid/result-shape", "interpolate_grid %s, __call__ %s for %d points" % (ig.shape, ic.shape, len(cross)))
    else:
        with np.errstate(invalid="ignore"):
            D = np.where((ig == ic) | (np.isnan(ig) & np.isnan(ic)), 0.0, np.abs(ig - ic) / full_scale[None, :])
        info["err_igrid_vs_call"] = _mx(D)
        fb = _first_bad(D, 1e-13)
        if fb:
            out.bad(sub + "/interpolate_grid/differs-from-call", "grid %s: point %s component %d: interpolate_grid %.15g __call__ %.15g" % (
                gc, cross[fb[0]], fb[1], ig[fb], ic[fb]))

        def expectation(zero_if=None):
            """expected values (NaN = not determined by the oracle) of __call__(P) and interpolate_grid(cross); with
            zero_if: for the integrand whose values at the points x with zero_if(x) are replaced by 0"""
            expP = np.full((len(P), ncomp), np.nan)
            expC = np.full((len(cross), ncomp), np.nan)
            if zero_if is None:
                expP[:nS, :na] = truthP[:nS, :na]                       # arbitrary functions at every sparse-grid point
                expP[:, na:] = truthP[:, na:]                           # space functions everywhere
                expC[:, na:] = truthC[:, na:]
                if sgi_off is not None:                                 # arbitrary functions: sparse-grid interpolant
                    expP[nS:, :na] = sgi_off[:len(R), :na]
                    expC[:, :na] = sgi_off[len(R):, :na]
            else:
                keep = np.array([0.0 if zero_if(p) else 1.0 for p in P[:nS]])
                expP[:nS, :] = truthP[:nS, :] * keep[:, None]
                if sgi_ok:
                    so, _ = model.sparse_grid_interpolant(off, zero_if=zero_if, all_components=True)
                    expP[nS:, :] = so[:len(R)]
                    expC[:, :] = so[len(R):]
            return expP, expC

        def compare(expP, expC):
            found = []
            with np.errstate(invalid="ignore"):
                EP = np.abs(vals - expP) / full_scale[None, :]
                EC = np.abs(ig - expC) / full_scale[None, :]
            KP, KC = ~np.isnan(expP), ~np.isnan(expC)          # where the oracle determines the value
            FP, FC = np.isfinite(vals), np.isfinite(ig)
            regions = [
                ("call/arbitrary-function-not-reproduced-at-sparse-grid-point", EP[:nS, :na], KP[:nS, :na], FP[:nS, :na], P[:nS], 0, "err_gridpoints"),
                ("call/space-function-not-interpolated-exactly", EP[:, na:], KP[:, na:], FP[:, na:], P, na, "err_space_interp"),
                ("call/differs-from-sparse-grid-interpolant", EP[nS:, :na], KP[nS:, :na], FP[nS:, :na], R, 0, "err_sgi"),
                ("interpolate_grid/space-function-not-interpolated-exactly", EC[:, na:], KC[:, na:], FC[:, na:], cross, na, "err_igrid_space"),
                ("interpolate_grid/differs-from-sparse-grid-interpolant", EC[:, :na], KC[:, :na], FC[:, :na], cross, 0, "err_igrid_sgi"),
            ]
            errs = {}
            for name, E, known, finite, where, c0, key in regions:
                if E.size and np.any(known):
                    errs[key] = float(np.max(E[known])) / model.cond
                badm = known & ~(E <= tol)              # a nan / inf result where a value is expected is a deviation
                if np.any(badm):
                    r, c = (int(v) for v in np.argwhere(badm)[0])
                    cols = sorted(set(c0 + int(cc) for rr, cc in np.argwhere(badm)))
                    rows = len(set(int(rr) for rr, cc in np.argwhere(badm)))
                    if np.all(~finite[badm]):
                        cause = "non-finite-value-returned"
                        if model.singular and cols == [0]:      # the driver, when present, is component 0
                            cause += "/only-for-the-function-that-is-non-finite-on-the-box-boundary"
                    else:
                        cause = _cause_names(model, cols)
                    obs_arr = vals if name.startswith("call") else ig
                    r_abs = r + (nS if name == "call/differs-from-sparse-grid-interpolant" else 0)
                    found.append((name, cause, "%d of %d points; e.g. point %s component %d (%s): returned %r, relative deviation %.3e" % (
                        rows, len(where), where[r], c0 + c, model.names[c0 + c], float(obs_arr[r_abs, c0 + c]), E[r, c])))
            return found, errs

        found, errs = compare(*expectation())
        if found and not model.boundary:
            # cause analysis: does the output equal the oracle applied to the integrand with the values at *interior*
            # points within numpy.isclose's default tolerance (1e-8 + 1e-5*|a_d|) of a face replaced by 0 ?
            def near_face(x):
                return any(abs(x[d] - a[d]) <= 1e-8 + 1e-5 * abs(a[d]) or abs(x[d] - b[d]) <= 1e-8 + 1e-5 * abs(b[d]) for d in range(dim))
            nz = sum(1 for p in P[:nS] if near_face(p))
            if nz:
                found_m, _ = compare(*expectation(near_face))
                if not found_m:
                    found = [("interpolation", "interior-grid-points-within-np.isclose-default-tolerance-of-a-face-are-zeroed",
                              "%d of %d sparse-grid points lie within 1e-8+1e-5*|a_d| of a face although they are interior points; __call__ and "
                              "interpolate_grid return exactly the interpolant of the function with these values replaced by 0%s. First deviation: %s" % (
                                  nz, nS, "" if sgi_ok else " (compared at the sparse-grid points only)", found[0][2]))]
        for name, cause, msg in found:
            out.bad("%s/%s/%s" % (sub, name, cause), "%s  (d=%d lmin=%d lmax=%d boundary=%s a=%s b=%s)" % (msg, dim, lmin, lmax, model.boundary, a, b))
        if not found:
            info.update(errs)       # rounding maxima are reported for cases that satisfy the clauses only

    deep = model.deep_function_present()
    out.nontrivial = bool(dim >= 2 and lmax > lmin and deep)
    out.cls("d=%d" % dim, "lmin=%d" % lmin, "lmax-lmin=%d" % (lmax - lmin), "boundary=%s" % model.boundary,
            "op=%s" % case.get("op", "Integration"), "integrator=%s" % case.get("integrator", "default"),
            "first-block=%s" % order[0])
    if any(k == 0 for fn in model.sel for k, i in fn):
        out.cls("level0-function-carried")
    if deep:
        out.cls("deep-function-carried")
    if case.get("boxclass"):
        out.cls("box=%s" % case["boxclass"])
    if case.get("warmup"):
        out.cls("objects-reused-after-another-scheme")
    if model.singular:
        out.cls("singular-on-boundary", "singular-on-boundary=%s" % model.singular)
    _box_classes(out, a, b)
    if any(p[d] == b[d] for p in R for d in range(dim)):
        out.cls("evaluation-point-on-upper-face")
    if any(p[d] == a[d] for p in R for d in range(dim)):
        out.cls("evaluation-point-on-lower-face")
    if tuple(a) in R and tuple(b) in R:
        out.cls("evaluation-points-corner-a-and-corner-b")
    if any(g[-1] == b[d] for d, g in enumerate(gc)):
        out.cls("tensor-grid-includes-upper-face")
    if any(g[0] == a[d] for d, g in enumerate(gc)):
        out.cls("tensor-grid-includes-lower-face")
    _scale_classes(out, case)
    if case.get("fclass") == "own_vectorized":
        out.cls("own-eval_vectorized")
    out.cls("output-length=%s" % (model.ncomp if model.ncomp <= 9 else ">9"))
    if model.ncomp in grid_point_counts(dim, lmin, lmax, model.boundary):
        out.cls("output-length==points-of-a-component-grid")
        if case.get("fclass") == "own_vectorized":
            out.cls("own-eval_vectorized+output-length==points-of-a-component-grid")
    info["max_output_length"] = model.ncomp
    info["max_distinct_evaluations"] = model.calls
    info["max_dim"] = dim
    info["max_lmax"] = lmax
    out.info = info
    if case.get("want_raw"):
        with drive.quiet():
            obs["scheme"] = [(tuple(int(x) for x in cg.levelvector), float(cg.coefficient)) for cg in sc.scheme]
            obs["points"] = [[tuple(float(x) for x in p) for p in sc.get_points_component_grid(cg.levelvector)] for cg in sc.scheme]
            obs["lmin_lmax"] = (list(sc.lmin), list(sc.lmax))
        out.raw = obs
    return out


# ----------------------------------------------------------------------------------------------------------------
# sub-check observe: read-only / output methods between two requests must not change the object
# ----------------------------------------------------------------------------------------------------------------
def _obs_file(case, name):
    return ("c02_obs_%s.png" % name) if case.get("savefile") else None


OBSERVERS = {
    "print_resulting_combi_scheme": lambda sc, a, b, c: sc.print_resulting_combi_scheme(filename=_obs_file(c, "pcs")),
    "print_resulting_combi_scheme(show_coefficient,add_complete_full_grid_space)":
        lambda sc, a, b, c: sc.print_resulting_combi_scheme(filename=_obs_file(c, "pcs2"), show_coefficient=True, add_complete_full_grid_space=True),
    "print_resulting_sparsegrid": lambda sc, a, b, c: sc.print_resulting_sparsegrid(filename=_obs_file(c, "psg") if len(a) <= 2 else None, show_fig=False),
    "print_subspaces": lambda sc, a, b, c: sc.print_subspaces(filename=_obs_file(c, "psub")),
    "print_subspaces(sparse_grid_spaces=False)": lambda sc, a, b, c: sc.print_subspaces(filename=_obs_file(c, "psub2"), sparse_grid_spaces=False),
    "plot": lambda sc, a, b, c: sc.plot(filename=_obs_file(c, "plot")),
    "plot(contour=True)": lambda sc, a, b, c: sc.plot(filename=_obs_file(c, "plot2"), contour=True),
    "get_total_num_points": lambda sc, a, b, c: sc.get_total_num_points(),
    "get_total_num_points(distinct_function_evals=False)": lambda sc, a, b, c: sc.get_total_num_points(doNaive=True, distinct_function_evals=False),
    "get_points_and_weights": lambda sc, a, b, c: sc.get_points_and_weights(),
    "get_points_component_grid": lambda sc, a, b, c: [sc.get_points_component_grid(cg.levelvector) for cg in sc.scheme],
    "__call__": lambda sc, a, b, c: sc([tuple(a), tuple((x + y) / 2 for x, y in zip(a, b)), tuple(b)]),
    "interpolate_grid": lambda sc, a, b, c: sc.interpolate_grid([[a[d], b[d]] for d in range(len(a))]),
    # the library's own self check compares points as exact tuples; with boundary=False the level-1 midpoint (a+b)/2 and the
    # finer grids' a+(b-a)/2 can differ in the last bit and it then fails on the unchanged tree -> used with boundary=True only
    "check_combi_scheme": lambda sc, a, b, c: sc.check_combi_scheme(),
}
OBSERVER_NAMES = sorted(OBSERVERS)


def observe(name, sc, a, b, case):
    import os
    import warnings
    import matplotlib
    matplotlib.use("Agg")
    import matplotlib.pyplot as plt
    try:
        with warnings.catch_warnings():
            warnings.simplefilter("ignore")
            OBSERVERS[name](sc, a, b, case)
    finally:
        plt.close("all")
        for fn in os.listdir("."):
            if fn.startswith("c02_obs_") and fn.endswith(".png"):
                os.remove(fn)


def _raw_differences(r1, r0):
    """names of the outputs of the following request that are not bit-identical between the observed object and its twin"""
    diff = []
    for key in ("scheme", "points", "lmin_lmax"):
        if r1.get(key) != r0.get(key):
            diff.append(key)
    for key in ("integral", "call", "igrid", "igrid_call"):
        x, y = r1.get(key), r0.get(key)
        if (x is None) != (y is None) or (x is not None and (x.shape != y.shape or not np.array_equal(x, y, equal_nan=True))):
            diff.append(key)
    (p1, w1), (p0, w0) = r1["pw"], r0["pw"]
    if p1.shape != p0.shape or not np.array_equal(p1, p0) or w1.shape != w0.shape or not np.array_equal(w1, w0):
        diff.append("points-and-weights")
    if r1.get("ngrids") != r0.get("ngrids"):
        diff.append("number-of-grids")
    return diff


def run_observe(case):
    out = Outcome()
    sub = "observe"
    names = [n for n in case["observe"]]
    base = dict(case, want_raw=True)
    o0 = run_combi(dict(base, observe=[]))            # the twin: same requests, no observation in between
    o1 = run_combi(base)
    sig0 = set(sg for sg, m in o0.violations)
    for sg, msg in o0.violations:                      # independent of the observation
        out.bad(sub + sg[len("combi"):], msg)
    diff = _raw_differences(o1.raw, o0.raw)
    new = [(sg, m) for sg, m in o1.violations if sg not in sig0]
    if diff or new:
        culprits = names
        if len(names) > 1:
            single = []
            for n in names:
                o = run_combi(dict(base, observe=[n]))
                if _raw_differences(o.raw, o0.raw) or any(sg not in sig0 for sg, m in o.violations):
                    single.append(n)
            culprits = single or names
        suffix = "/after-a-read-only-call=" + "+".join(culprits)
        if diff:
            out.bad(sub + "/twin-differs/" + "+".join(diff) + suffix,
                    "after %s (warm-up levels %s) the request (lmin=%d, lmax=%d) on the same object returns scheme %s, the twin object without "
                    "the call returns %s; differing outputs: %s (d=%d boundary=%s)" % (
                        culprits, case.get("warmup"), case["lmin"], case["lmax"], o1.raw["scheme"][:6], o0.raw["scheme"][:6], diff,
                        case["dim"], case["boundary"]))
        for sg, msg in new:
            out.bad(sub + sg[len("combi"):] + suffix, msg)
    out.nontrivial = bool(case.get("warmup") and list(case["warmup"]) != [case["lmin"], case["lmax"]] and names)
    out.cls("d=%d" % case["dim"], "boundary=%s" % case["boundary"], *["read-only-call=%s" % n for n in names])
    if case.get("savefile"):
        out.cls("figures-written-to-file")
    if case.get("warmup") and case["warmup"][0] < case["warmup"][1]:
        out.cls("observed-scheme-has-several-grids")
    out.info = dict(max_read_only_calls=len(names))
    return out


def _box_classes(out, a, b):
    if any(a[d] + (b[d] - a[d]) != b[d] for d in range(len(a))):
        out.cls("box-with-fl(a+(b-a))!=b")
        if any(a[d] + (b[d] - a[d]) < b[d] for d in range(len(a))):
            out.cls("box-with-fl(a+(b-a))<b")
    if any(b[d] - (b[d] - a[d]) != a[d] for d in range(len(a))):
        out.cls("box-with-fl(b-(b-a))!=a")


def _scale_classes(out, case):
    bs = case.get("boxscale")
    if bs:
        out.cls(*["box-scale=%g" % v for v in sorted(set(bs))])
        if len(set(bs)) > 1:
            out.cls("box-scale=per-dimension-different")


def run_scheme(case):
    """structure only: no integrand is evaluated, so higher d / lmin are affordable"""
    out = Outcome()
    sub = "scheme"
    case = dict(case, nbasis=0)
    dim, lmin, lmax, boundary = case["dim"], case["lmin"], case["lmax"], case["boundary"]

    class M:        # the part of Model that check_structure needs (no basis enumeration: too large for d=5)
        pass
    model = M()
    model.dim, model.lmin, model.lmax, model.boundary = dim, lmin, lmax, boundary
    model.a = [float(x) for x in case["a"]]
    model.b = [float(x) for x in case["b"]]
    model.sparse_keys = [frac_key(fr) for fr in oracles.sparse_grid_points(dim, lmin, lmax, model.a, model.b, boundary)]
    from sparseSpACE.StandardCombi import StandardCombi
    from sparseSpACE.GridOperation import Integration
    from sparseSpACE.Grid import TrapezoidalGrid
    from sparseSpACE.Function import FunctionCustom
    a, b = np.array(model.a), np.array(model.b)
    op = Integration(FunctionCustom(lambda x: 1.0), grid=TrapezoidalGrid(a=a, b=b, boundary=boundary), dim=dim,
                     print_level=drive.Q, log_level=drive.Q)
    sc = StandardCombi(a, b, operation=op, print_level=drive.Q, log_level=drive.Q)
    info = {}
    with drive.quiet():
        sc.set_combi_parameters(lmin, lmax)
        check_structure(out, sub, sc, model, info)
        # the combined rule: one weight per returned point, total mass = volume (constants are in the space iff boundary)
        pts, wts = sc.get_points_and_weights()
    if len(pts) != len(wts) or len(pts) != sum(len(sc.get_points_component_grid(cg.levelvector)) for cg in sc.scheme):
        out.bad(sub + "/points-and-weights/length-mismatch", "%d points, %d weights" % (len(pts), len(wts)))
    elif boundary:
        vol = float(np.prod(b - a))
        if not abs(float(np.sum(wts)) - vol) <= 1e-11 * vol:
            out.bad(sub + "/points-and-weights/total-mass", "sum of combined weights %.15g, volume %.15g" % (float(np.sum(wts)), vol))
    out.nontrivial = bool(dim >= 2 and lmax > lmin)
    out.cls("d=%d" % dim, "lmin=%d" % lmin, "boundary=%s" % boundary)
    _scale_classes(out, case)
    _box_classes(out, model.a, model.b)
    info["max_dim"] = dim
    info["max_lmax"] = lmax
    out.info = info
    return out


# ----------------------------------------------------------------------------------------------------------------
# strategies
# ----------------------------------------------------------------------------------------------------------------
A_CH = [0.0, -1.0, 2.0, 0.3, -3.0]
W_CH = [1.0, 3.0, 0.5, 0.7, math.pi + 3.0, 10.3]
# boxes whose width is small compared with their distance from the origin (still perfectly representable)
OFFSET_BOXES = [(1000.0, 1.0), (100.0, 0.0625), (-2000.0, 0.5), (2.0, 0.001), (1.0e4, 3.0)]


# unusual units: the whole box (or every dimension separately) scaled by s
BOX_SCALES = [2.0 ** -30, 1e-9, 1e-6, 1e-3, 1e3, 2.0 ** 20]


def _draw_scale(draw, dim, a, b):
    """returns (a, b, boxscale): box scaled as a whole, per dimension, or not at all (boxscale None)"""
    mode = draw(st.sampled_from(["none"] * 5 + ["whole", "whole", "per-dimension"]))
    if mode == "none":
        return a, b, None
    if mode == "whole":
        bs = [draw(st.sampled_from(BOX_SCALES))] * dim
    else:
        bs = [draw(st.sampled_from(BOX_SCALES + [1.0])) for _ in range(dim)]
    return [a[d] * bs[d] for d in range(dim)], [b[d] * bs[d] for d in range(dim)], bs


# decimal bounds drawn independently: fl(a + fl(b - a)) != b for about a quarter of the pairs ([-1,1.3], [-2,2.1], ...)
DEC_A = [-1.0, -2.0, 0.1, 0.3, -0.7, -3.0, 0.2, 1.1, -0.1, 0.6]
DEC_B = [1.3, 2.1, 0.7, 7.3, 1.7, 2.9, 3.3, 5.1, 1.9, 4.3, 2.3]
DEC_BAD = [(x, y) for x in DEC_A for y in DEC_B if x < y and x + (y - x) != y]     # the pairs with fl(a+(b-a)) != b
DEC_LOW = [(x, y) for (x, y) in DEC_BAD if x + (y - x) < y]                        # ... that end below b


def _draw_box(draw, dim):
    a, b = [], []
    cls = draw(st.sampled_from(["generic"] * 3 + ["decimal"] * 3 + ["unit", "offset"]))
    for d in range(dim):
        if cls == "decimal":
            if draw(st.booleans()):
                lo, hi = draw(st.sampled_from(DEC_LOW + DEC_LOW + DEC_BAD))
            else:
                lo = draw(st.sampled_from(DEC_A))
                hi = draw(st.sampled_from([y for y in DEC_B if y > lo]))
            a.append(lo)
            b.append(hi)
            continue
        if cls == "unit":
            lo, w = 0.0, 1.0
        elif cls == "offset" and (d == 0 or draw(st.booleans())):
            lo, w = draw(st.sampled_from(OFFSET_BOXES))
        else:
            lo, w = draw(st.sampled_from(A_CH)), draw(st.sampled_from(W_CH))
        a.append(lo)
        b.append(lo + w)
    return a, b, cls


def combi_strategy(tier):
    maxdim = 3 if tier == "quick" else 4
    cap = 12000 if tier == "quick" else 30000

    @st.composite
    def s(draw):
        dim = draw(st.sampled_from([1, 2, 2, 3, 3, 3] + ([4] if maxdim >= 4 else [])))
        lmin = draw(st.integers(1, {1: 5, 2: 4, 3: 3, 4: 2}[dim]))
        diff = draw(st.sampled_from([0, 1, 2, 2, 3, 3, 4, 5]))
        boundary = draw(st.booleans())
        # construction instead of rejection: shrink the configuration until it fits the point budget
        while scheme_cost(dim, lmin, lmin + diff)[1] > cap:
            if lmin > 1:
                lmin -= 1
            else:
                diff -= 1
        a, b, cls = _draw_box(draw, dim)
        a, b, bs = _draw_scale(draw, dim, a, b)
        singular = draw(st.sampled_from([None, None, None, "inf", "inf", "nan", "raise"])) if not boundary else None
        # the integrand: FunctionCustom (generic eval_vectorized) or a Function subclass with its own eval_vectorized; output
        # length legacy (about 14) or drawn: 1..9, or the number of points of one of the case's component grids
        fclass = draw(st.sampled_from(["custom", "custom", "custom", "own_vectorized", "own_vectorized"]))
        outlen = None
        if fclass == "own_vectorized" or draw(st.integers(0, 3)) == 0:
            ties = [n for n in grid_point_counts(dim, lmin, lmin + diff, boundary) if n <= 27]
            if ties and draw(st.booleans()):
                outlen = draw(st.sampled_from(ties))
            else:
                outlen = draw(st.integers(1, 9))
        return dict(dim=dim, lmin=lmin, lmax=lmin + diff, boundary=boundary, a=a, b=b, boxclass=cls, boxscale=bs, singular=singular,
                    fclass=fclass, outlen=outlen,
                    op=draw(st.sampled_from(["Integration", "Integration", "Interpolation"])),
                    integrator=draw(st.sampled_from(["default"] * 5 + ["old"])),
                    order=draw(st.permutations(list(range(len(BLOCKS))))),
                    warmup=draw(st.sampled_from([None, None, [1, 1], [1, 2], [2, 3]])),
                    nbasis=8, rng=draw(st.integers(0, 10 ** 6)))
    return s()


def scheme_strategy(tier):
    cap = 20000 if tier == "quick" else 150000

    @st.composite
    def s(draw):
        dim = draw(st.integers(1, 5))
        lmin = draw(st.integers(1, 5))
        diff = draw(st.integers(0, 5))
        while scheme_cost(dim, lmin, lmin + diff)[1] > cap:
            if lmin > 1:
                lmin -= 1
            else:
                diff -= 1
        a, b, cls = _draw_box(draw, dim)
        a, b, bs = _draw_scale(draw, dim, a, b)
        return dict(dim=dim, lmin=lmin, lmax=lmin + diff, boundary=draw(st.booleans()), a=a, b=b, boxclass=cls, boxscale=bs, rng=0)
    return s()


def observe_strategy(tier):
    @st.composite
    def s(draw):
        dim = draw(st.sampled_from([2, 2, 2, 2, 1, 3]))
        boundary = draw(st.booleans())
        w0 = draw(st.integers(1, 2))
        w1 = w0 + draw(st.sampled_from([0, 1, 2, 2]))
        lmin = draw(st.integers(1, 2))
        lmax = lmin + draw(st.integers(0, 3 if dim <= 2 else 2))
        if [w0, w1] == [lmin, lmax]:
            lmax += 1
        a, b, cls = _draw_box(draw, dim)
        pool = [n for n in OBSERVER_NAMES if boundary or n != "check_combi_scheme"]
        # spread evenly over the methods (Hypothesis' own choice concentrates on the first element in short runs)
        orng = np.random.default_rng(draw(st.integers(0, 10 ** 6)))
        names = [pool[i] for i in orng.choice(len(pool), size=int(orng.integers(1, 4)), replace=False)]
        return dict(dim=dim, lmin=lmin, lmax=lmax, boundary=boundary, a=a, b=b, boxclass=cls, warmup=[w0, w1], observe=names,
                    savefile=draw(st.integers(0, 5)) == 0, op="Integration", integrator="default",
                    order=draw(st.permutations(list(range(len(BLOCKS))))), outlen=draw(st.sampled_from([None, 3, 5])),
                    fclass=draw(st.sampled_from(["custom", "own_vectorized"])), nbasis=4, rng=draw(st.integers(0, 10 ** 6)))
    return s()


def observe_fixed():
    """every read-only method at least once (shard 0), first the classical sequence request - plot the subspaces - request"""
    groups = [["print_subspaces"], ["print_resulting_combi_scheme", "print_resulting_sparsegrid", "plot"],
              ["print_subspaces(sparse_grid_spaces=False)", "get_total_num_points", "check_combi_scheme"]]
    used = set(n for g in groups for n in g)
    rest = [n for n in OBSERVER_NAMES if n not in used]
    groups += [rest[i:i + 2] for i in range(0, len(rest), 2)]
    res = []
    for i, names in enumerate(groups):
        dim = 2 if i < 5 else 3
        res.append(dict(dim=dim, lmin=1, lmax=4 if dim == 2 else 3, boundary=True, a=[-1.0, 0.0, 0.3][:dim], b=[1.3, 1.0, 1.0][:dim],
                        boxclass="decimal", warmup=[1, 3] if dim == 2 else [1, 2], observe=names, savefile=(i == 0), op="Integration",
                        integrator="default", order=[[0, 1, 2, 3, 4], [1, 2, 3, 4, 0]][i % 2], outlen=5, fclass="custom", nbasis=4, rng=101 + i))
    return res


def combi_fixed():
    """the classical configurations, always run (shard 0)"""
    res = []
    for dim, lmin, lmax in [(2, 1, 3), (2, 2, 4), (3, 1, 3), (3, 2, 3), (1, 2, 4), (2, 3, 3)]:
        for boundary in (True, False):
            res.append(dict(dim=dim, lmin=lmin, lmax=lmax, boundary=boundary, a=[0.0] * dim, b=[1.0] * dim, boxclass="unit",
                            op="Integration", integrator="default", order=[0, 1, 2, 3, 4], nbasis=8, rng=17 + dim))
            res.append(dict(dim=dim, lmin=lmin, lmax=lmax, boundary=boundary, a=[-3.0, 0.3, 2.0][:dim], b=[math.pi, 1.0, 2.5][:dim],
                            boxclass="generic", op="Interpolation", integrator="default", order=[2, 3, 1, 4, 0], warmup=[1, 2], nbasis=8, rng=5 + dim))
    # functions that are not finite on the boundary of the box (boundary points off), boxes in unusual units
    for i, (mode, s) in enumerate([("inf", 1.0), ("nan", 1e-9), ("raise", 2.0 ** 20), ("inf", 1e-6)]):
        for dim, lmin, lmax in [(2, 1, 3), (3, 2, 3)]:
            res.append(dict(dim=dim, lmin=lmin, lmax=lmax, boundary=False, a=[v * s for v in [-1.0, 0.3, 2.0][:dim]],
                            b=[v * s for v in [2.0, 1.0, 2.5][:dim]], boxclass="generic", boxscale=None if s == 1.0 else [s] * dim, singular=mode,
                            op="Integration", integrator="default", order=[[0, 1, 2, 3, 4], [2, 3, 0, 1, 4]][i % 2], nbasis=8, rng=31 + i))
    # boxes with decimal bounds for which a + (b - a) is not b
    for i, (dim, lmin, lmax) in enumerate([(2, 1, 3), (1, 2, 3), (3, 1, 2), (2, 2, 3)]):
        for boundary in (True, False):
            res.append(dict(dim=dim, lmin=lmin, lmax=lmax, boundary=boundary, a=[-1.0, -2.0, 0.3][:dim], b=[1.3, 2.1, 7.3][:dim], boxclass="decimal",
                            op=["Integration", "Interpolation"][i % 2], integrator="default", order=[[0, 1, 2, 3, 4], [3, 2, 1, 4, 0]][i % 2],
                            nbasis=8, rng=83 + i))
    # user functions with their own eval_vectorized whose output length equals the number of points of a component grid
    for i, (dim, lmin, lmax, boundary, k) in enumerate([(2, 1, 3, False, 3), (1, 2, 2, True, 5), (1, 3, 3, False, 7), (2, 1, 2, True, 9),
                                                         (2, 2, 3, False, 9), (3, 1, 2, False, 3), (2, 1, 3, True, 15), (2, 1, 3, False, 4),
                                                         (2, 1, 2, True, 1), (3, 1, 3, False, 9), (2, 2, 4, False, 21)]):
        res.append(dict(dim=dim, lmin=lmin, lmax=lmax, boundary=boundary, a=[-1.0, 0.3, 2.0][:dim], b=[2.0, 1.0, 2.5][:dim], boxclass="generic",
                        fclass="own_vectorized", outlen=k, op=["Integration", "Interpolation"][i % 2], integrator="default",
                        order=[[0, 1, 2, 3, 4], [2, 3, 1, 4, 0]][i % 2], warmup=[None, [1, 2]][i % 3 == 0], nbasis=8, rng=61 + i))
    return res


# ----------------------------------------------------------------------------------------------------------------
# oracle self test
# ----------------------------------------------------------------------------------------------------------------
def selftest():
    # 1. vectorised basis == definition in oracles.py, integrals closed form
    a, b = [0.0, -1.0], [2.0, 0.5]
    fns = oracles.all_basis_functions(2, 1, 3, True)
    B = Basis(fns, a, b)
    rng = np.random.default_rng(0)
    X = [to_coord(t, a, b) for t in np.vstack([rng.random((20, 2)), [[0, 0], [1, 1], [0.5, 0.25], [1, 0.375]]])]
    V = B.at_points(X)
    for i, x in enumerate(X):
        ref = np.array([oracles.basis_eval(fn, a, b, x) for fn in fns])
        assert np.max(np.abs(V[i] - ref)) < 1e-14 and np.max(np.abs(B.at_point(x) - ref)) < 1e-14
    assert np.max(np.abs(B.integrals() - np.array([oracles.basis_integral(fn, a, b) for fn in fns]))) < 1e-15
    # 2. sizes of sparse grids: lmin=1,lmax=2, d=2: 21 points with boundary, 5 without; index set and cost
    assert len(oracles.sparse_grid_points(2, 1, 2, [0, 0], [1, 1], True)) == 21
    assert len(oracles.sparse_grid_points(2, 1, 2, [0, 0], [1, 1], False)) == 5
    assert sorted(index_set(2, 1, 3)) == [(1, 1), (1, 2), (1, 3), (2, 1), (2, 2), (3, 1)]
    assert scheme_cost(2, 1, 3) == (5, 3 * 9 + 5 * 5 + 9 * 3 + 3 * 5 + 5 * 3)
    assert scheme_cost(2, 2, 2, False) == (1, 9)
    # 3. hierarchisation: 1D level 2 with boundary, g = x^2 on [0,1]: interpolant at 0.375 is (0.0625+0.25)/2
    f1 = sorted(oracles.all_basis_functions(1, 1, 2, True), key=lambda fn: sum(k for k, i in fn))
    B1 = Basis(f1, [0.0], [1.0])
    g = (B1.nodes()[:, 0] ** 2).reshape(-1, 1)
    S = hierarchise(B1, g)
    assert abs((B1.at_points([[0.375]]) @ S)[0, 0] - 0.15625) < 1e-15
    assert abs((B1.integrals() @ S)[0] - (0.0625 * 0.25 + 0.25 * 0.25 + 0.5625 * 0.25 + 0.125)) < 1e-15   # trapezoid rule h=1/4
    # 4. the full check is silent on the classical scheme and rejects corrupted objects
    base = dict(dim=2, lmin=1, lmax=3, boundary=True, a=[0.0, 0.0], b=[1.0, 2.0], op="Integration", integrator="default",
                order=[0, 1, 2, 3, 4], nbasis=8, rng=3)
    o = run_combi(base)
    assert not o.violations, o.violations
    assert o.nontrivial

    def flip(sc):
        sc.scheme[0].coefficient = -sc.scheme[0].coefficient
    o = run_combi(base, corrupt=flip)
    sigs = " ".join(s for s, m in o.violations)
    assert "coefsum/not-one" in sigs and "call/space-function-not-interpolated-exactly" in sigs, sigs

    def drop(sc):
        sc.scheme = [cg for cg in sc.scheme if tuple(cg.levelvector) != (1, 3)]
    o = run_combi(dict(base, boundary=False), corrupt=drop)
    sigs = " ".join(s for s, m in o.violations)
    assert "pointset/missing" in sigs and "call/arbitrary-function-not-reproduced" in sigs, sigs

    def shift(sc):
        for cg in sc.scheme:
            cg.levelvector = np.array(cg.levelvector) + 1
    o = run_combi(base, corrupt=shift)
    sigs = " ".join(s for s, m in o.violations)
    assert "pointset/extra" in sigs and "count/differs-from-level-convention" not in sigs, sigs
    # the end-point clause rejects a grid that ends one ulp below b, and a point outside the box
    class _CG:
        levelvector, coefficient = [1], 1.0

    class _Stub:
        def __init__(self, pts):
            self.scheme, self.pts = [_CG()], pts
            self.grid = self

        def get_points_component_grid(self, lv):
            return self.pts

        def get_num_points_component_grid(self, lv, flag):
            return len(self.pts)

        def levelToNumPoints(self, lv):
            return [len(self.pts)]

    class _M:
        dim, lmin, lmax, boundary, a, b = 1, 1, 1, True, [-1.0], [1.3]
        sparse_keys = [frac_key(fr) for fr in oracles.sparse_grid_points(1, 1, 1, [-1.0], [1.3], True)]
    for pts, want in [([(-1.0,), (0.15,), (1.3,)], ""), ([(-1.0,), (0.15,), (np.nextafter(1.3, 0),)], "domain-end-point-is-not-a-grid-coordinate/upper"),
                      ([(np.nextafter(-1.0, 0),), (0.15,), (1.3,)], "domain-end-point-is-not-a-grid-coordinate/lower"),
                      ([(-1.0,), (0.15,), (np.nextafter(1.3, 2),)], "point-outside-closed-box")]:
        o = Outcome()
        check_structure(o, "t", _Stub(pts), _M, {})
        sigs = " ".join(s for s, m in o.violations)
        assert (want in sigs) if want else not o.violations, (pts, sigs)
    # the twin comparison is silent for real read-only calls and rejects a call that re-initialises the scheme object
    oc = observe_fixed()[1]       # print_resulting_combi_scheme, print_resulting_sparsegrid, plot
    o = run_observe(oc)
    assert not o.violations and o.nontrivial, o.violations
    OBSERVERS["_selftest_mutator"] = lambda sc, a, b, c: sc.combischeme.init_adaptive_combi_scheme(sc.lmax[0], sc.lmin[0])
    try:
        o = run_observe(dict(oc, observe=["plot", "_selftest_mutator"]))
    finally:
        del OBSERVERS["_selftest_mutator"]
    sigs = " ".join(s for s, m in o.violations)
    assert "observe/twin-differs/scheme" in sigs and sigs.count("/after-a-read-only-call=_selftest_mutator") >= 2 and "plot" not in sigs, sigs
    # table function is deterministic and spread out
    vals = [table_value((i, 7), 1) for i in range(200)]
    assert table_value((3, 7), 1) == vals[3] and -1 <= min(vals) < -0.8 and 0.8 < max(vals) < 1


SUBS = [
    Sub("combi", combi_strategy, run_combi, dict(quick=1400, thorough=10000), budget_s=dict(quick=26, thorough=440),
        fixed_cases=combi_fixed),
    Sub("scheme", scheme_strategy, run_scheme, dict(quick=800, thorough=6000), budget_s=dict(quick=7, thorough=40)),
    Sub("observe", observe_strategy, run_observe, dict(quick=64, thorough=1200), budget_s=dict(quick=12, thorough=60),
        fixed_cases=observe_fixed),
]
