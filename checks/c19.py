"""C19 — classification assigns the arg-max density class under the learning scaling.

A case is a labelled data set + a Classification configuration + a sequence of later evaluate (`__call__`) / test
(`test_data`) calls with fresh DataSets.  The harness

* recomputes the learned range and scale factor from the raw data (or the user supplied `data_range`) and compares
  them with `get_dataset_range()` / `get_scale_factor()`; the getters must never change afterwards;
* scales every fresh sample itself, x -> (x - range_min) * scale_factor + 0.005, decides which samples have to
  survive, and asks the learned per-class combi objects (`get_density_estimation_results()[0]`) for the densities at
  the harness-scaled positions.  The class the library assigned must pass the arg-max *validity predicate*
  density_c >= max_j density_j - tol (ties allowed);
* keeps a model of the bookkeeping (calculated classes of the test set, testing data, omitted data, summary dict).
"""
import contextlib
import io
import random
import re
import traceback

from hypothesis import strategies as st

from vlib.core import Outcome, Sub, classify_exception

PROPERTY = "C19"

RULE = ("case: k in {2,3} classes labelled 0..k-1 with 15..40 samples each (Gaussian blobs / lattice blobs with duplicated "
        "extreme coordinates / stripes / data already inside the unit cube, pushed through a random per-dimension affine "
        "map), d features with d in {2,3,4} in both tiers (about 1/2 2-D, 3/8 3-D, 1/8 4-D; every quick run also executes "
        "fixed 3-D cases in both subs and a fixed 4-D case in std), 0..8 unlabelled samples in the original set, split percentage in "
        "{0.5..0.9, 1.0}, split_evenly, shuffle_data, optional user data_range (wider / narrower than the data), learning "
        "by perform_classification (1<=lmin<=lmax<=3, masslumping on/off - off only while the largest component grid has <= 100 "
        "interior points, a pure cost limit -, lambda 0/0.01) [sub std] or "
        "perform_classification_dimension_wise (lmax 2..3, max_evaluations 20..60) [sub dw], one_vs_others on/off; then 1..3 "
        "operations, each `cl(ds)` or `cl.test_data(ds)` on a fresh DataSet of 1..14 samples whose zone is inside (random "
        "points and original samples incl. the extreme ones) / partly outside (clear, near-threshold and - for __call__ - "
        "tolerance-band points) / entirely outside / pre-scaled like the tutorial does (copy.scale_range((0.005,0.995)); "
        "split_pieces), with 0..100% unlabelled (-1) samples, print_removed / print_output / print_incorrect_points flags, "
        "optionally built from a bare ndarray; before every operation (and before the final repetition) 0..2 *observer* operations: "
        "take get_testing_data()/get_learning_data()/get_omitted_data()/get_original_data() (copies), get_calculated_classes_testset() "
        "(copy), the DataSet passed to / returned by the previous call, and mutate the returned object (revert_scaling, "
        "scale_factor(scalar/vector, no override), scale_range((0,1), no override), shift_value, shuffle, remove_samples, in-place "
        "numpy writes); the range/scale-factor getters are only read; the first operation's data is evaluated again at the end "
        "(always when an observer ran). In the dw sub about a third of the cases insert 1..2 "
        "continue_dimension_wise_refinement(tolerance=0, max_evaluations=factor*points, factor 1.02/1.1/1.3) operations, each "
        "between two evaluate/test operations, and about one case in nine (plus two fixed cases that every quick run executes) "
        "learns from a fine initial scheme (lmin,lmax)=(2,6) or (1,7), max_evaluations=1, so that the component grids have "
        ">= 200 points and the library's point-by-point interpolation branch is used. "
        "Every class returned/stored by the library is compared with the arg-max of densities the harness evaluates ITSELF "
        "(d-linear tensor hats from the definition on the component grids' points, surpluses in row-major order, scheme "
        "coefficients) at ALL evaluated positions, never with densities obtained from the library's interpolation; class "
        "counters 'd=*', 'max-multi-point-axes=*' (largest number of axes with > 1 interior point over the component grids: "
        "genuinely tensor-product grids), 'component-grid<200' / 'component-grid>=200' (interior points of some component grid: "
        "both of the library's interpolation branches are served). "
        "All oracle clauses are evaluated after learning and after every operation. Non-trivial = some operation with >=1 "
        "removed and >=1 kept sample is executed after an earlier successful test_data call. Distinct = distinct case dict.")

ASSUMPTIONS = [
    "labels are contiguous 0..k-1 and every class is present in the learning part (DESIGN 3.8: only then the arg-max index "
    "is a class label); a case whose learning part misses a class is counted as 'skip:class-missing-in-learning', not checked",
    "no dimension of the labelled data is constant (the learned range is non-degenerate); data_range satisfies lo < hi",
    "fresh DataSets are non-empty; a DataSet handed to test_data contains at least one labelled sample that survives unless the "
    "whole set is outside (test_data on a set without any labelled survivor is undefined: docstring 'only test data samples "
    "with known classes can be used for testing')",
    "a fresh DataSet is used once (the library scales and prunes the DataSet object it is given in place)",
    "accepted range: a sample whose harness-scaled coordinates all lie in [0.005, 0.995] has to survive, a sample with a "
    "coordinate < 0.0049 - 1e-9 or > 0.9951 + 1e-9 has to be removed; samples inside the library's 1e-4 tolerance band "
    "(0.0049..0.005 / 0.995..0.9951, generated for __call__ only) may go either way but must respect order and, if kept, "
    "the arg-max predicate",
    "densities are computed by the harness itself from the CURRENT state of the learned objects, for any number of features "
    "d (generated: 2, 3, 4): reference hat basis (from the definition, zero boundary) on every component grid's current 1-D "
    "point coordinates (get_point_coord_for_each_dim; 2^l+1 equidistant points for the standard combination), tensor "
    "product over the d axes, times the stored surpluses (operation.get_result(), row-major = C order over the interior "
    "points: first axis slowest, last axis fastest - the order in which the library assembles the linear system, "
    "get_cross_product_range / DensityEstimation.build_R_matrix), "
    "combined with the current scheme coefficients; the arg-max predicate uses these reference densities with tolerance "
    "1e-10*(1+max|density|), and the library's own combi(points) must reproduce them within 1e-9*max(1,|density|) "
    "(observed < 1e-13). That the surpluses themselves solve the estimation problem is C16/C17",
    "continue_dimension_wise_refinement changes the classifier, not the scaling or the data: afterwards the stored classes of "
    "the test set are the library's re-classification with the continued classifier (same length, each a valid arg-max of "
    "the CURRENT reference densities, evaluate() consistent); prefix stability of the stored classes applies between "
    "continuations; re-evaluating operation 0's data after a continuation must give valid arg-max classes, not the old ones",
    "returned (scaled) sample coordinates are compared with tolerance 1e-9 absolute (unit-cube coordinates; observed 0); "
    "range / scale-factor getters with 1e-12 relative",
    "'reported' = the notice and, with print_removed=True, one line per removed sample on stdout of a Classification "
    "constructed with the default print level (log_info); 'set aside' = unlabelled survivors are not counted in the summary, "
    "do not enter the calculated classes, and are appended to get_omitted_data()",
    "every DensityEstimation object returned by get_density_estimation_results() must have been trained on the learning "
    "samples in the learned scaling (its public .data attribute; all learning samples with one_vs_others) - otherwise "
    "'density at the position in the learning scaling' would be meaningless although the arg-max predicate still held",
    "evaluate() after a test_data call has to summarise the built-in testing part followed by all tested labelled survivors "
    "(get_testing_data() must stay aligned with get_calculated_classes_testset())",
    "observer operations must not influence the classifier: after each one the range/scale-factor getters, the calculated classes, "
    "the testing data and the omitted data are unchanged, and every later clause is still predicted from the ORIGINAL "
    "learning-time scaling (harness keeps its own copies). Returned arrays are written in place only where a copy is handed out "
    "(DataSet.copy() via get_*_data(), get_calculated_classes_testset() -> .copy()); get_dataset_range()/get_scale_factor() return "
    "the internal objects and are only read. An exception raised by the DataSet method applied to the copy is counted "
    "('obs-raised:*'), not reported (DataSet semantics are C18)",
    "library calls run with the global numpy/random RNG seeded from case['rng'] (DataSet.shuffle uses sklearn.utils.shuffle)",
]

TOL_POS = 1e-9
TOL_BAND = 1e-9
LOW, HIGH = 0.0049, 0.9951


# ----------------------------------------------------------------------------------------------------------------
# data construction (pure functions of the case dict)
# ----------------------------------------------------------------------------------------------------------------
def make_dataset(np, case):
    """-> X (N,d), y (N,) with y in {-1,0..k-1}; samples in a random order."""
    rng = np.random.default_rng([int(case["rng"]), 0])
    k, d = case["k"], case["d"]
    layout = case["layout"]
    xs, ys = [], []
    for c in range(k):
        n = case["n"][c]
        if layout == "unitcube":
            centre = rng.uniform(0.25, 0.75, size=d)
            pts = np.clip(centre + rng.normal(size=(n, d)) * rng.uniform(0.05, 0.15), 0.0, 1.0)
        elif layout == "stripes":
            centre = np.zeros(d)
            centre[0] = 1.5 * c
            pts = centre + rng.normal(size=(n, d)) * np.array([0.5] + [1.2] * (d - 1))
        else:
            centre = rng.uniform(-2, 2, size=d)
            pts = centre + rng.normal(size=(n, d)) * rng.uniform(0.3, 0.9, size=d)
            if layout == "lattice":
                pts = np.round(pts * 2.0) / 2.0        # duplicates and ties in the extreme coordinates
        xs.append(pts)
        ys += [c] * n
    X = np.concatenate(xs)
    y = np.array(ys, dtype=np.int64)
    # guarantee a non-degenerate range in every dimension (lattice blobs could collapse)
    for j in range(d):
        if np.ptp(X[:, j]) < 1e-6:
            X[0, j] += 1.0
    nu = case["orig_unl"]
    if nu:
        lo, hi = X.min(axis=0), X.max(axis=0)
        U = lo + rng.uniform(-0.2, 1.2, size=(nu, d)) * (hi - lo)      # unlabelled ones may lie outside the labelled range
        X = np.concatenate([X, U])
        y = np.concatenate([y, -np.ones(nu, dtype=np.int64)])
    if case["affine"] == "shifted" and layout != "unitcube":
        X = X * 10.0 ** rng.uniform(-2, 2, size=d) + rng.uniform(-50, 50, size=d)
    p = rng.permutation(len(y))
    return np.ascontiguousarray(X[p]), y[p]


def expected_range(np, case, X, y):
    lab = y >= 0
    lo, hi = X[lab].min(axis=0), X[lab].max(axis=0)
    w = hi - lo
    mode = case["range_mode"]
    if mode == "wider":
        return lo - case["ra"] * w, hi + case["rb"] * w, True
    if mode == "narrower":
        return lo + 0.3 * case["ra"] * w, hi - 0.3 * case["rb"] * w, True
    return lo, hi, False


def make_op_data(np, case, i, op, X, y, rlo, rhi):
    """Fresh (unscaled unless zone == prescaled) samples and labels for operation i."""
    rng = np.random.default_rng([int(case["rng"]), 1 + i])
    k, d = case["k"], case["d"]
    n = op["n"]
    zone = op["zone"]
    w = rhi - rlo
    lab_idx = np.where(y >= 0)[0]
    pts = np.empty((n, d))
    labels = rng.integers(0, k, size=n).astype(np.int64)
    kind = []
    for r in range(n):
        if zone == "inside":
            inside = True
        elif zone == "outside":
            inside = False
        else:
            inside = (r % 2 == 0) if r < 2 else bool(rng.integers(0, 2))   # >= 1 inside and >= 1 outside when n >= 2
        if inside:
            if rng.random() < 0.35:
                j = int(rng.choice(lab_idx))                 # an original sample (true label)
                if rng.random() < 0.4:                        # ... preferably an extreme one
                    dim = int(rng.integers(0, d))
                    j = int(lab_idx[np.argmin(X[lab_idx, dim])] if rng.random() < 0.5 else lab_idx[np.argmax(X[lab_idx, dim])])
                cand = X[j].copy()
                s = (cand - rlo) / w
                if np.all(s >= 0.0) and np.all(s <= 1.0):     # (with a narrower data_range an original may be outside)
                    pts[r] = cand
                    labels[r] = y[j]
                    kind.append("orig")
                    continue
            pts[r] = rlo + rng.uniform(0.01, 0.99, size=d) * w
            kind.append("in")
        else:
            u = rng.uniform(0.0, 1.0, size=d)
            out_dims = [dd for dd in range(d) if rng.random() < 0.5] or [int(rng.integers(0, d))]
            style = rng.random()
            for dd in out_dims:
                side = rng.random() < 0.5
                if style < 0.5:
                    off = rng.uniform(0.01, 0.5)               # clearly outside
                elif style < 0.8 or op["kind"] == "test" or zone != "partly":
                    off = rng.uniform(0.0003, 0.004)           # scaled 0.00104..0.0047: just below the threshold
                else:
                    off = rng.uniform(0.00001, 0.00009)        # inside the library's tolerance band (either outcome)
                u[dd] = -off if side else 1.0 + off
            pts[r] = rlo + u * w
            kind.append("out")
    return pts, labels, None


# ----------------------------------------------------------------------------------------------------------------
# oracle pieces
# ----------------------------------------------------------------------------------------------------------------
def survivor_status(np, S):
    """+1 has to survive, -1 has to be removed, 0 either (tolerance band / rounding distance of a threshold)."""
    st_ = np.zeros(len(S), dtype=int)
    for i, s in enumerate(S):
        if np.all(s >= 0.005 - 1e-12) and np.all(s <= 0.995 + 1e-12):
            st_[i] = 1
        elif np.any(s < LOW - TOL_BAND) or np.any(s > HIGH + TOL_BAND):
            st_[i] = -1
    return st_


def densities(np, combis, P):
    P = np.ascontiguousarray(np.asarray(P, dtype=float).reshape(len(P), -1))
    cols = []
    with contextlib.redirect_stdout(io.StringIO()):
        for c in combis:
            v = np.asarray(c(P.copy()), dtype=float)
            cols.append(v.reshape(len(P), -1)[:, 0])
    return np.column_stack(cols)


def ref_hat_matrix(np, stripe, xs):
    """H[m, i] = value at xs[m] of the hat centred at the interior point stripe[i+1] with support [stripe[i], stripe[i+2]]
    (written from the definition; zero outside the support, zero boundary)."""
    s = np.asarray(stripe, dtype=float)
    x = np.asarray(xs, dtype=float)[:, None]
    lo, p, hi = s[:-2], s[1:-1], s[2:]
    return np.clip(np.minimum((x - lo[None, :]) / (p - lo)[None, :], (hi[None, :] - x) / (hi - p)[None, :]), 0.0, None)


class RefDensity:
    """The density estimate of one class evaluated INDEPENDENTLY of the library's interpolation code: the combination
    (current scheme coefficients) of the piecewise d-linear functions given by the CURRENT 1-D point coordinates of every
    component grid and the CURRENT stored surpluses (nodal hat coefficients, C order, zero boundary).  Everything is read
    at call time, so a continued refinement is followed."""

    def __init__(self, np, combi, de, mode):
        self.np, self.combi, self.de, self.mode = np, combi, de, mode

    def stripes(self, lv):
        np = self.np
        if self.mode == "std":
            return [np.linspace(0.0, 1.0, 2 ** int(l) + 1) for l in lv]
        return [np.asarray(c, dtype=float) for c in self.combi.get_point_coord_for_each_dim(lv)[0]]

    def max_multi_point_axes(self):
        """largest number of axes with more than one interior point over the component grids (1 = only 'line' grids)"""
        return max(sum(1 for c in self.stripes(tuple(int(x) for x in cg.levelvector)) if len(c) - 2 > 1)
                   for cg in self.combi.scheme)

    def grid_sizes(self):
        return [int(self.np.prod([len(c) - 2 for c in self.stripes(tuple(int(x) for x in cg.levelvector))]))
                for cg in self.combi.scheme]

    def __call__(self, P):
        np = self.np
        P = np.asarray(P, dtype=float).reshape(len(P), -1)
        total = np.zeros(len(P))
        surpluses = self.de.get_result()
        letters = "ijkl"[:P.shape[1]]
        for cg in self.combi.scheme:
            lv = tuple(int(x) for x in cg.levelvector)
            st_ = self.stripes(lv)
            alpha = np.asarray(surpluses[lv], dtype=float).reshape([len(c) - 2 for c in st_])
            H = [ref_hat_matrix(np, st_[dd], P[:, dd]) for dd in range(P.shape[1])]
            total += cg.coefficient * np.einsum(",".join("m" + l for l in letters) + "," + letters + "->m", *H, alpha)
        return total.reshape(-1, 1)


def argmax_valid(np, dens_row, cls):
    """the validity predicate: cls is an index whose density is maximal up to tolerance."""
    if cls != int(cls) or not (0 <= int(cls) < len(dens_row)):
        return False
    m = float(np.max(dens_row))
    return bool(dens_row[int(cls)] >= m - 1e-10 * (1.0 + abs(m)))


def check_classes(np, out, sig, combis, P, classes, what, lib=None):
    """every class in `classes` must be a valid arg-max of the densities `combis` (reference evaluators) at the rows of P; if
    the library's combi objects are given (lib) their own __call__ must reproduce the reference densities."""
    if len(P) == 0:
        return
    D = densities(np, combis, P)
    if lib is not None:
        DL = densities(np, lib, P)
        err = np.abs(DL - D)
        if DL.shape != D.shape or not np.all(err <= 1e-9 * np.maximum(1.0, np.abs(D))):
            i, j = np.unravel_index(int(np.argmax(err)), err.shape)
            out.bad("%s/density/combi-call-differs-from-reference-hats" % sig.split("/")[0],
                    "%s: class %d at %s: combi(points) = %.12g, reference hat basis on the current grid points / surpluses / "
                    "coefficients = %.12g (max over %d samples)" % (what, j, np.asarray(P[i]).tolist(), DL[i, j], D[i, j], len(P)))
    bad = [i for i in range(len(P)) if not argmax_valid(np, D[i], classes[i])]
    if bad:
        i = bad[0]
        cause = "class-index-out-of-range" if not (classes[i] == int(classes[i]) and 0 <= classes[i] < D.shape[1]) else "not-arg-max"
        out.bad("%s/%s" % (sig, cause), "%s: %d of %d samples; first: position %s got class %s, densities %s"
                % (what, len(bad), len(P), np.asarray(P[i]).tolist(), classes[i], D[i].tolist()))
    return D


def align(np, S, status, R):
    """Match the returned (scaled) rows R to the rows of S in order. -> (matched indices, problem or None)."""
    idx = []
    i = 0
    for r in R:
        while i < len(S) and not np.all(np.abs(S[i] - r) <= TOL_POS):
            if status[i] == 1:
                return idx, ("kept-sample-missing-or-reordered", "input sample %d (scaled %s) has to survive but the next returned "
                             "sample is %s" % (i, S[i].tolist(), np.asarray(r).tolist()))
            i += 1
        if i >= len(S):
            return idx, ("returned-sample-not-in-input-order", "returned sample %s is not the harness-scaled image of any "
                         "remaining input sample" % (np.asarray(r).tolist(),))
        idx.append(i)
        i += 1
    for j in range(i, len(S)):
        if status[j] == 1:
            return idx, ("kept-sample-missing-or-reordered", "input sample %d (scaled %s) has to survive but was not returned"
                         % (j, S[j].tolist()))
    for j in idx:
        if status[j] == -1:
            return idx, ("outside-sample-classified", "input sample %d (scaled %s) is outside the accepted range but was "
                         "classified" % (j, S[j].tolist()))
    return idx, None


_REMOVED_LINE = re.compile(r"^\d+ : \[.*\] \| class (-?\d+)\s*$")


def check_report(out, sig, text, removed_labels, print_removed):
    lines = text.splitlines()
    notice = any("some samples were removed" in l for l in lines)
    listed = [int(m.group(1)) for m in (_REMOVED_LINE.match(l.strip()) for l in lines) if m]
    if removed_labels and not notice:
        out.bad(sig + "/report/no-notice", "%d samples removed but no notice on stdout" % len(removed_labels))
    if not removed_labels and (notice or listed):
        out.bad(sig + "/report/notice-without-removal", "nothing had to be removed but stdout reports removed samples")
    if removed_labels and print_removed and listed != list(removed_labels):
        out.bad(sig + "/report/removed-list-mismatch", "removed labels %s, listed on stdout %s" % (list(removed_labels), listed))
    if removed_labels and not print_removed and listed:
        out.bad(sig + "/report/listed-although-print_removed-false", "listed %s" % listed)


def check_summary(np, out, sig, res, true_labels, classes, what):
    """the summary dict must be consistent with the classes and the true labels"""
    wrong = int(sum(1 for a, b in zip(true_labels, classes) if int(a) != int(b)))
    total = len(classes)
    if res.get("Total mappings") != total:
        out.bad(sig + "/summary/total", "%s: Total mappings %s, expected %d" % (what, res.get("Total mappings"), total))
    if res.get("Wrong mappings") != wrong:
        out.bad(sig + "/summary/wrong", "%s: Wrong mappings %s, but %d classes differ from the true labels"
                % (what, res.get("Wrong mappings"), wrong))
    if total:
        pc = 1.0 - wrong / total
        if not abs(float(res.get("Percentage correct", float("nan"))) - pc) <= 1e-12:
            out.bad(sig + "/summary/percentage", "%s: Percentage correct %s, expected %s" % (what, res.get("Percentage correct"), pc))
        if res.get("Percentage correct (str)") != "%2.2f%%" % (pc * 100):
            out.bad(sig + "/summary/percentage-str", "%s: %r vs %r" % (what, res.get("Percentage correct (str)"), "%2.2f%%" % (pc * 100)))


def multiset_mismatch(np, A, la, B, lb):
    """compare two labelled point sets as multisets (tolerance TOL_POS). -> None or message"""
    if len(A) != len(B):
        return "sizes differ: %d vs %d" % (len(A), len(B))
    if len(A) == 0:
        return None
    ref = np.asarray(B, dtype=float)

    def canon(P, l):
        res = []
        for p, ll in zip(P, l):
            hit = np.where((np.max(np.abs(ref - p), axis=1) <= TOL_POS) & (np.asarray(lb) == ll))[0]
            res.append(int(hit[0]) if len(hit) else -1)
        return res
    ca, cb = canon(np.asarray(A, dtype=float), la), canon(ref, lb)
    if -1 in ca:
        i = ca.index(-1)
        return "sample %s (label %s) is not the scaled image of a labelled original" % (np.asarray(A[i]).tolist(), la[i])
    if sorted(ca) != sorted(cb):
        return "multiplicities differ"
    return None


# ----------------------------------------------------------------------------------------------------------------
# observer operations: things a user may do with objects the classifier handed out; none may influence the classifier
# ----------------------------------------------------------------------------------------------------------------
OBS_TARGETS = ["testing", "testing", "learning", "learning", "omitted", "original", "classes", "getters", "prev_input",
               "prev_result"]
OBS_ACTIONS = ["revert", "revert", "scale_factor", "scale_factor", "scale_range", "shift", "shuffle", "remove", "inplace"]


def apply_observer(np, out, cl, ob, d, prev):
    """Take an object from a getter (documented / implemented as a copy) or an object the user owns (the DataSet passed to
    / returned by the previous call) and mutate it.  Exceptions raised by the DataSet methods themselves are C18's
    business and only counted."""
    target, action = ob["target"], ob["action"]
    if target == "classes":
        a = cl.get_calculated_classes_testset()          # returns self._calculated_classes_testset.copy()
        if isinstance(a, np.ndarray) and a.size:
            a[...] = 99
        out.cls("obs-target:classes", "obs-action:inplace")
        return
    if target == "getters":
        lo, hi = cl.get_dataset_range()                  # no copy documented: read only
        _ = (np.asarray(hi) - np.asarray(lo)) * np.asarray(cl.get_scale_factor()) * ob["f"]
        out.cls("obs-target:getters", "obs-action:read")
        return
    g = None
    if target in ("prev_input", "prev_result"):
        g = prev.get(target)
    elif target == "testing":
        g = cl.get_testing_data()
    elif target == "omitted":
        g = cl.get_omitted_data()
    elif target == "original":
        g = cl.get_original_data()
    if g is None or g.is_empty():
        target, g = "learning", cl.get_learning_data()
    n = g.get_length()
    f = float(ob["f"])
    if action == "revert" and not g.is_scaled():
        action = "scale_factor"
    out.cls("obs-target:" + target, "obs-action:" + action)
    try:
        with contextlib.redirect_stdout(io.StringIO()):
            if action == "revert":
                g.revert_scaling()
            elif action == "scale_factor":
                g.scale_factor(f * np.arange(1, d + 1) if ob["vec"] else f, override_scaling=False)
            elif action == "scale_range":
                g.scale_range((0.0, 1.0), override_scaling=False)
            elif action == "shift":
                g.shift_value(f * np.arange(1, d + 1) if ob["vec"] else f, override_scaling=False)
            elif action == "shuffle":
                g.shuffle()
            elif action == "remove":
                g.remove_samples(sorted(set([0, n - 1])))
            else:
                g[0][...] = g[0] * 3.0 + 1.0
                g[1][...] = 0
    except Exception as e:  # noqa - only library exceptions of the DataSet method are tolerated
        if classify_exception(e)[0] != "lib":
            raise
        out.cls("obs-raised:" + action)


def check_after_observer(np, out, sub, cl, ob, g_lo, g_hi, g_sf, calc_model, test_pos, test_lab, n_omit, d):
    tag = "observer %s/%s" % (ob["target"], ob["action"])
    a_lo, a_hi = cl.get_dataset_range()
    if not (np.array_equal(np.asarray(a_lo), g_lo) and np.array_equal(np.asarray(a_hi), g_hi)
            and np.array_equal(np.asarray(cl.get_scale_factor()), g_sf)):
        out.bad(sub + "/observer/learning-time-scaling-changed",
                "%s: range %s %s / factor %s -> range %s %s / factor %s" % (tag, g_lo.tolist(), g_hi.tolist(), g_sf.tolist(),
                np.asarray(a_lo).tolist(), np.asarray(a_hi).tolist(), np.asarray(cl.get_scale_factor()).tolist()))
    if not np.array_equal(np.asarray(cl.get_calculated_classes_testset()), calc_model):
        out.bad(sub + "/observer/calculated-classes-changed", tag)
    T = cl.get_testing_data()
    nT = T.get_length() if not T.is_empty() else 0
    if nT == len(calc_model) and nT == len(test_lab):     # (aligned bookkeeping; otherwise already reported elsewhere)
        tp = np.asarray(T[0], dtype=float).reshape(-1, d)
        if not (np.all(np.abs(tp - test_pos) <= TOL_POS) and [int(v) for v in T[1]] == test_lab):
            out.bad(sub + "/observer/testing-data-changed", tag)
    O = cl.get_omitted_data()
    if (O.get_length() if not O.is_empty() else 0) != n_omit:
        out.bad(sub + "/observer/omitted-data-changed", tag)
    return not [s_ for s_, _ in out.violations if "/observer/" in s_]


# ----------------------------------------------------------------------------------------------------------------
# the check
# ----------------------------------------------------------------------------------------------------------------
def learn(np, deml, case, X, y, data_range):
    ds = deml.DataSet((X.copy(), y.copy()), name="orig")
    kw = dict(split_percentage=float(case["split"]), split_evenly=bool(case["even"]), shuffle_data=bool(case["shuffle"]),
              log_level=100)
    if data_range is not None:
        kw["data_range"] = data_range
    cap = io.StringIO()
    with contextlib.redirect_stdout(cap):
        cl = deml.Classification(ds, **kw)
        Ld = cl.get_learning_data()
        if Ld.is_empty() or set(int(v) for v in Ld[1]) != set(range(int(case["k"]))):
            # precondition (labels contiguous 0..k-1 and every class present in the learning part, DESIGN section 3 item 8)
            # not met, e.g. a narrower user range removed a whole class: the arg-max index is no class label then
            return None, cap.getvalue()
        if case["mode"] == "std":
            cl.perform_classification(masslumping=bool(case["masslumping"]), lambd=float(case["lambd"]),
                                      minimum_level=case["lmin"], maximum_level=case["lmax"],
                                      one_vs_others=bool(case["ovo"]), print_metrics=False)
        else:
            cl.perform_classification_dimension_wise(masslumping=bool(case["masslumping"]), lambd=float(case["lambd"]),
                                                     minimum_level=case.get("lmin", 1), maximum_level=case["lmax"],
                                                     max_evaluations=case["max_eval"], one_vs_others=bool(case["ovo"]),
                                                     print_metrics=False)
    return cl, cap.getvalue()


def run(case):
    import numpy as np
    import sparseSpACE.DEMachineLearning as deml
    out = Outcome()
    sub = case["mode"]
    np.random.seed(int(case["rng"]) % (2 ** 32))
    random.seed(int(case["rng"]))
    k, d = case["k"], case["d"]
    X, y = make_dataset(np, case)
    rlo, rhi, user_range = expected_range(np, case, X, y)
    out.cls("mode=" + sub, "k=%d" % k, "d=%d" % d, "range=" + case["range_mode"],
            "ovo" if case["ovo"] else "one-vs-none", "even" if case["even"] else "uneven",
            "split=1.0" if case["split"] >= 1.0 else "split<1")

    cl, learn_text = learn(np, deml, case, X, y, (rlo.copy(), rhi.copy()) if user_range else None)
    if cl is None:
        out.cls("skip:class-missing-in-learning")
        return out
    combis, des = cl.get_density_estimation_results()
    refs = [RefDensity(np, c_, de_, sub) for c_, de_ in zip(combis, des)]     # independent density evaluation (current state)

    # ---- the scaling fixed at learning time --------------------------------------------------------------------
    g_lo, g_hi = [np.array(v, dtype=float) for v in cl.get_dataset_range()]
    g_sf = np.array(cl.get_scale_factor(), dtype=float)
    sf = 0.99 / (rhi - rlo)
    if not (np.allclose(g_lo, rlo, rtol=1e-12, atol=0) and np.allclose(g_hi, rhi, rtol=1e-12, atol=0)):
        out.bad(sub + "/scaling/range-getter", "get_dataset_range() = %s %s, labelled data / data_range give %s %s"
                % (g_lo.tolist(), g_hi.tolist(), rlo.tolist(), rhi.tolist()))
    if g_sf.shape != sf.shape or not np.allclose(g_sf, sf, rtol=1e-12, atol=0):
        out.bad(sub + "/scaling/factor-getter", "get_scale_factor() = %s, expected 0.99/(max-min) = %s" % (g_sf.tolist(), sf.tolist()))
    if out.violations:
        return out

    def scale(P):
        return (np.asarray(P, dtype=float) - g_lo) * g_sf + 0.005

    # ---- learning / testing part: the labelled originals in the learned scaling --------------------------------
    lab = y >= 0
    S0 = scale(X[lab])
    st0 = survivor_status(np, S0) if user_range else np.ones(int(lab.sum()), dtype=int)
    keep0 = st0 == 1
    L, T0 = cl.get_learning_data(), cl.get_testing_data()
    both = [np.asarray(v[0], dtype=float).reshape(-1, d) for v in (L, T0) if not v.is_empty()]
    both_l = [np.asarray(v[1]) for v in (L, T0) if not v.is_empty()]
    both, both_l = np.concatenate(both), np.concatenate(both_l)
    for b in np.where(st0 == 0)[0]:
        # an original inside the tolerance band of a user supplied range may or may not have been kept
        keep0[b] = bool(np.any((np.max(np.abs(both - S0[b]), axis=1) <= TOL_POS) & (both_l == y[lab][b])))
        out.cls("original-in-tolerance-band")
    msg = multiset_mismatch(np, both, both_l, S0[keep0], y[lab][keep0])
    if msg:
        out.bad(sub + "/scaling/learning-data-not-in-learned-scaling", "learning+testing part vs harness-scaled labelled originals: " + msg)
        return out
    if user_range and not np.all(keep0):
        out.cls("init-removed-samples")
        check_report(out, sub + "/init", learn_text, [int(v) for v in y[lab][~keep0]], True)
    if set(int(v) for v in L[1]) != set(range(k)):
        out.cls("skip:class-missing-in-learning")
        return out
    if len(combis) != k:
        out.bad(sub + "/learning/number-of-classificators", "%d classificators for %d classes" % (len(combis), k))
        return out

    # ---- every per-class estimator was trained on the learning samples *in the learned scaling* ------------------
    Lp, Ll = np.asarray(L[0], dtype=float).reshape(-1, d), np.asarray(L[1])
    for c, de in enumerate(des):
        trained = np.asarray(de.data[0] if isinstance(de.data, tuple) else de.data, dtype=float).reshape(-1, d)
        sel = np.ones(len(Ll), dtype=bool) if case["ovo"] else (Ll == c)
        msg = multiset_mismatch(np, trained, [0] * len(trained), Lp[sel], [0] * int(sel.sum()))
        if msg:
            out.bad(sub + "/scaling/estimator-data-not-in-learned-scaling", "class %d: data of the DensityEstimation object vs "
                    "learning samples in the learned scaling: %s" % (c, msg))
            return out

    # ---- the testing part evaluated at learning time -----------------------------------------------------------
    calc = np.asarray(cl.get_calculated_classes_testset())
    n_test = T0.get_length() if not T0.is_empty() else 0
    test_pos = np.asarray(T0[0], dtype=float).reshape(-1, d) if n_test else np.zeros((0, d))
    test_lab = [int(v) for v in T0[1]] if n_test else []
    if len(calc) != n_test:
        out.bad(sub + "/initial/classes-vs-testing-part-length", "%d calculated classes for %d testing samples" % (len(calc), n_test))
        return out
    check_classes(np, out, sub + "/initial", refs, test_pos, calc, "testing part classified at learning time", lib=combis)
    if n_test:
        check_summary(np, out, sub + "/initial", cl.evaluate(), test_lab, calc, "evaluate() after learning")
    n_omit = cl.get_omitted_data().get_length() if not cl.get_omitted_data().is_empty() else 0
    if n_omit != int((~lab).sum()):
        out.bad(sub + "/initial/omitted-count", "%d omitted samples, %d unlabelled originals" % (n_omit, int((~lab).sum())))
    if out.violations:
        return out

    # ---- operation sequence -------------------------------------------------------------------------------------
    tested_before = False
    nontrivial = False
    first = None          # (scaled positions, classes) of operation 0 for the repetition at the end
    max_removed = max_kept = 0
    prev = {}             # the DataSet handed to / returned by the previous evaluate/test call (user owned objects)
    n_obs = 0

    def observers(lst):
        for ob in lst:
            apply_observer(np, out, cl, ob, d, prev)
            if not check_after_observer(np, out, sub, cl, ob, g_lo, g_hi, g_sf, np.asarray(cl_calc[0]), test_pos, test_lab,
                                        n_omit, d):
                return False
        return True
    cl_calc = [calc.copy()]
    evaluated = n_test > 0          # the library classified the built-in testing part at the end of learning
    cont_pending = False            # a continuation happened after an evaluation; the next evaluation makes it "in between"
    cont_after_first = False
    first_idx = min([j for j, o_ in enumerate(case["ops"]) if o_["kind"] != "cont"], default=-1)

    def big_grid():
        return any(int(de_.grid.get_num_points()) >= 200 for de_ in des)
    if evaluated and big_grid():
        out.cls("grid>=200")
    out.cls("max-multi-point-axes=%d" % max(r_.max_multi_point_axes() for r_ in refs))
    if any(gs < 200 for r_ in refs for gs in r_.grid_sizes()):
        out.cls("component-grid<200")
    if any(gs >= 200 for r_ in refs for gs in r_.grid_sizes()):
        out.cls("component-grid>=200")
    for i, op in enumerate(case["ops"]):
        sig = sub
        if op["kind"] == "cont":
            # continue the dimension-wise refinement: the classifier changes, the learning-time scaling and the data do not
            tag = "op %d continue_dimension_wise_refinement" % i
            pts = max(int(c_.get_total_num_points()) for c_ in combis)
            sizes_before = [r_.grid_sizes() for r_ in refs]
            with contextlib.redirect_stdout(io.StringIO()):
                cl.continue_dimension_wise_refinement(tolerance=0.0, max_evaluations=int(op["factor"] * pts) + 1, min_evaluations=1)
            out.cls("continuation")
            if [r_.grid_sizes() for r_ in refs] != sizes_before:
                out.cls("continuation-changed-grids")
            c2, d2 = cl.get_density_estimation_results()
            if len(c2) != len(combis) or any(a is not b for a, b in zip(c2, combis)) or any(a is not b for a, b in zip(d2, des)):
                combis, des = c2, d2
                refs = [RefDensity(np, c_, de_, sub) for c_, de_ in zip(combis, des)]
            a_lo, a_hi = cl.get_dataset_range()
            if not (np.array_equal(np.asarray(a_lo), g_lo) and np.array_equal(np.asarray(a_hi), g_hi)
                    and np.array_equal(np.asarray(cl.get_scale_factor()), g_sf)):
                out.bad(sig + "/scaling/changed-by-continuation", "%s: range/scale factor changed" % tag)
            calc_now = np.asarray(cl.get_calculated_classes_testset())
            T = cl.get_testing_data()
            nT = T.get_length() if not T.is_empty() else 0
            if nT != n_test or (nT and not (np.all(np.abs(np.asarray(T[0], dtype=float).reshape(-1, d) - test_pos) <= TOL_POS)
                                            and [int(v) for v in T[1]] == test_lab)):
                out.bad(sig + "/continuation/testing-data-changed", tag)
            elif len(calc_now) != len(cl_calc[0]):
                out.bad(sig + "/continuation/number-of-calculated-classes", "%s: %d classes before, %d after"
                        % (tag, len(cl_calc[0]), len(calc_now)))
            elif n_test and len(calc_now) == n_test:
                # the stored classes of the whole test set are re-computed with the continued classifier: they must be the
                # arg-max classes of the CURRENT densities
                check_classes(np, out, sig + "/continuation", refs, test_pos, calc_now, tag + " (re-classified test set)", lib=combis)
                check_summary(np, out, sig + "/continuation/evaluate", cl.evaluate(), test_lab, calc_now, tag + " evaluate()")
            elif not np.array_equal(calc_now, cl_calc[0]):
                out.bad(sig + "/continuation/classes-changed-without-testing-data", tag)
            cl_calc[0] = calc_now.copy()
            if evaluated:
                cont_pending = True
            if first is not None:
                cont_after_first = True
            if out.violations:
                return out
            continue
        if op.get("obs"):
            n_obs += len(op["obs"])
            out.cls("observer-before-evaluation")
            if not observers(op["obs"]):
                return out
        tag = "op %d %s/%s" % (i, op["kind"], op["zone"])
        zone = op["zone"]
        if zone == "prescaled" and user_range:
            zone = "inside"         # a scale_range()-scaled set does not carry the scaling of a user supplied range
            op = dict(op, zone="inside")
        rngl = np.random.default_rng([int(case["rng"]), 100 + i])
        if zone == "prescaled":
            # as in the tutorial: a copy of the labelled data, scale_range((0.005, 0.995)), split_pieces -> second piece
            lab_full = y[lab].copy()
            nu = int(round(op["unl"] * len(lab_full)))
            if nu:
                lab_full[rngl.choice(len(lab_full), size=nu, replace=False)] = -1
            if op["kind"] == "test":
                lab_full[-1] = y[lab][-1]          # precondition: a labelled sample in the piece
            full = deml.DataSet((X[lab].copy(), lab_full.copy()), name="pre")
            full.scale_range((0.005, 0.995))
            _, ds = full.split_pieces(float(rngl.choice([0.5, 0.75, 0.9])))
            ds.set_name("fresh%d" % i)
            pre = np.asarray(ds[0], dtype=float).reshape(-1, d).copy()
            labels = np.asarray(ds[1]).astype(np.int64).copy()
            start = int(lab.sum()) - len(pre)
            if len(pre) == 0 or not np.all(np.abs(pre - S0[start:]) <= TOL_POS) or labels.tolist() != lab_full[start:].tolist():
                out.bad(sig + "/scaling/scale_range-piece-differs-from-learned-scaling", tag)
                return out
            S = pre
            P = X[lab][start:].copy()
            status = np.ones(len(S), dtype=int)
            out.cls("zone=prescaled")
        else:
            P, labels, _ = make_op_data(np, case, i, op, X, y, rlo, rhi)
            S = scale(P)
            status = survivor_status(np, S)
            natural = labels.copy()
            nu = int(round(op["unl"] * len(labels)))
            if nu:
                labels[rngl.choice(len(labels), size=nu, replace=False)] = -1
            keepers = [j for j in range(len(S)) if status[j] == 1]
            if op["kind"] == "test" and keepers and not any(labels[j] >= 0 for j in keepers):
                labels[keepers[0]] = natural[keepers[0]]      # precondition: a labelled sample that has to survive
            raw = bool(op.get("raw")) and op["kind"] == "call"
            if raw:
                labels = -np.ones(len(labels), dtype=np.int64)
                out.cls("bare-ndarray")
            ds = deml.DataSet(P.copy(), name="fresh%d" % i) if raw else deml.DataSet((P.copy(), labels.copy()), name="fresh%d" % i)
            out.cls("zone=" + zone)
        if op["kind"] == "test" and np.any(status == 0):
            out.cls("skip:ambiguous-threshold")
            return out
        must_keep = int(np.sum(status == 1))
        maybe = int(np.sum(status == 0))
        expect_raise = must_keep == 0 and maybe == 0
        if must_keep == 0 and maybe > 0:
            out.cls("skip:only-band-points")
            return out
        if op["kind"] == "test" and not expect_raise and not any(labels[j] >= 0 for j in range(len(S)) if status[j] == 1):
            out.cls("skip:test-without-labelled-survivor")
            return out
        calc_before = np.asarray(cl.get_calculated_classes_testset()).copy()
        cap = io.StringIO()
        raised = None
        res = None
        crashed_print = False
        try:
            with contextlib.redirect_stdout(cap):
                if op["kind"] == "call":
                    res = cl(ds, print_removed=bool(op["print_removed"]))
                else:
                    res = cl.test_data(ds, print_output=bool(op["print_output"]), print_removed=bool(op["print_removed"]),
                                       print_incorrect_points=bool(op.get("print_incorrect")))
        except ValueError as e:
            if not expect_raise:
                raise
            raised = e
        except IndexError as e:
            # F-C19-b: test_data(print_output=True, print_incorrect_points=True) hands _print_evaluation the last
            # <survivors incl. unlabelled> entries of the density list instead of the last <labelled survivors> entries; if
            # the list is shorter than that the (negative) slice start wraps around and indexing a wrong point fails.
            # The number of stored densities equals the number of calculated classes (a __call__ removes what it adds).
            frames = [f.name for f in traceback.extract_tb(e.__traceback__)]
            if not (op["kind"] == "test" and op["print_output"] and op.get("print_incorrect") and frames[-1] == "_print_evaluation"):
                raise
            keep_ = [j for j in range(len(S)) if status[j] == 1]
            u_, m_ = sum(1 for j in keep_ if labels[j] >= 0), sum(1 for j in keep_ if labels[j] < 0)
            n_before = len(calc_before)
            after_ = np.asarray(cl.get_calculated_classes_testset())[n_before:]
            wrong_ = [t for t, j in enumerate([j for j in keep_ if labels[j] >= 0]) if t < len(after_) and int(after_[t]) != int(labels[j])]
            if m_ > n_before and wrong_ and max(wrong_) >= min(m_ - n_before, n_before + u_):
                out.bad(sig + "/test/print-incorrect-points-IndexError/density-slice-counts-unlabelled-survivors",
                        "%s: %d unlabelled survivors, %d densities stored before the call, wrong point index %d: %s"
                        % (tag, m_, n_before, max(wrong_), e))
                crashed_print = True
            else:
                raise
        if expect_raise:
            out.cls("entirely-outside")
            if raised is None:
                out.bad(sig + "/outside/no-ValueError", "%s: all %d samples are outside the learned range but the call returned %r"
                        % (tag, len(S), type(res).__name__))
        # --- scaling getters never move
        a_lo, a_hi = cl.get_dataset_range()
        if not (np.array_equal(np.asarray(a_lo), g_lo) and np.array_equal(np.asarray(a_hi), g_hi)
                and np.array_equal(np.asarray(cl.get_scale_factor()), g_sf)):
            out.bad(sig + "/scaling/changed-by-later-call", "%s: range/scale factor changed" % tag)
        calc_after = np.asarray(cl.get_calculated_classes_testset())
        # --- classes assigned to earlier data are not changed
        if len(calc_after) < len(calc_before) or not np.array_equal(calc_after[:len(calc_before)], calc_before):
            out.bad(sig + "/prefix/earlier-classes-changed", "%s: calculated classes before %s, after %s"
                    % (tag, calc_before.tolist()[:12], calc_after.tolist()[:12]))
            return out
        new_classes = calc_after[len(calc_before):]
        if expect_raise:
            if len(new_classes):
                out.bad(sig + "/outside/classes-recorded-for-rejected-call", "%s: %d classes appended" % (tag, len(new_classes)))
            check_report(out, sig, cap.getvalue(), [int(v) for v in labels], bool(op["print_removed"]))
            if [s_ for s_, _ in out.violations if "/bookkeeping/" not in s_ and "/print-incorrect-points-IndexError/" not in s_]:
                return out
            continue

        if op["kind"] == "call":
            R = np.asarray(res[0], dtype=float).reshape(-1, d)
            rc = np.asarray(res[1])
            if len(rc) != len(R):
                out.bad(sig + "/call/classes-vs-samples-length", "%s: %d classes for %d samples" % (tag, len(rc), len(R)))
                return out
            idx, problem = align(np, S, status, R)
            if problem:
                out.bad("%s/call/%s" % (sig, problem[0]), "%s: %s" % (tag, problem[1]))
                return out
            check_classes(np, out, sig + "/call", refs, S[idx], rc, tag, lib=combis)
            if len(new_classes):
                out.bad(sig + "/call/classes-appended-to-testset", "%s: __call__ appended %d classes to the test set bookkeeping"
                        % (tag, len(new_classes)))
            removed = [j for j in range(len(S)) if j not in set(idx)]
            check_report(out, sig, cap.getvalue(), [int(labels[j]) for j in removed], bool(op["print_removed"]))
            kept_pos, kept_cls = S[idx], [int(v) for v in rc]
            n_removed, n_kept = len(removed), len(idx)
        else:
            keep = [j for j in range(len(S)) if status[j] == 1]
            used = [j for j in keep if labels[j] >= 0]
            unl = [j for j in keep if labels[j] < 0]
            if len(new_classes) != len(used):
                out.bad(sig + "/test/number-of-new-classes", "%s: %d classes appended, %d labelled survivors (%d unlabelled "
                        "survivors, %d removed)" % (tag, len(new_classes), len(used), len(unl), len(S) - len(keep)))
                return out
            check_classes(np, out, sig + "/test", refs, S[used], new_classes, tag, lib=combis)
            if crashed_print:
                pass                    # no summary was returned (known finding); everything else is still checked
            elif not isinstance(res, dict):
                out.bad(sig + "/summary/not-a-dict", "%s: %r" % (tag, type(res).__name__))
                return out
            else:
                check_summary(np, out, sig, res, [int(labels[j]) for j in used], new_classes, tag)
            removed = [j for j in range(len(S)) if status[j] == -1]
            check_report(out, sig, cap.getvalue(), [int(labels[j]) for j in removed], bool(op["print_removed"]))
            # bookkeeping of the object: testing data <-> calculated classes, omitted collection
            T = cl.get_testing_data()
            nT = T.get_length() if not T.is_empty() else 0
            if nT != len(calc_after):
                if nT == n_test and used:
                    out.bad(sig + "/bookkeeping/testing-data-not-extended",
                            "%s: %d classes were appended to get_calculated_classes_testset() (now %d) but get_testing_data() "
                            "still has %d samples; evaluate()/print_evaluation() can no longer be used"
                            % (tag, len(used), len(calc_after), nT))
                else:
                    out.bad(sig + "/bookkeeping/testing-data-length", "%s: %d testing samples, %d calculated classes" % (tag, nT, len(calc_after)))
            else:
                tp = np.asarray(T[0], dtype=float).reshape(-1, d)
                if not (np.all(np.abs(tp[:n_test] - test_pos) <= TOL_POS) and [int(v) for v in T[1][:n_test]] == test_lab
                        and np.all(np.abs(tp[n_test:] - S[used]) <= TOL_POS)
                        and [int(v) for v in T[1][n_test:]] == [int(labels[j]) for j in used]):
                    out.bad(sig + "/bookkeeping/testing-data-content", "%s: testing data is not the earlier testing data followed by "
                            "the new labelled survivors" % tag)
                else:
                    check_summary(np, out, sig + "/evaluate", cl.evaluate(), [int(v) for v in T[1]], calc_after, tag + " evaluate()")
                    test_pos, test_lab, n_test = tp, [int(v) for v in T[1]], nT
            O = cl.get_omitted_data()
            nO = O.get_length() if not O.is_empty() else 0
            if nO != n_omit + len(unl):
                if nO == n_omit:
                    out.bad(sig + "/bookkeeping/omitted-not-extended", "%s: %d unlabelled survivors were set aside but "
                            "get_omitted_data() still has %d samples" % (tag, len(unl), nO))
                else:
                    out.bad(sig + "/bookkeeping/omitted-length", "%s: omitted %d, expected %d" % (tag, nO, n_omit + len(unl)))
            else:
                n_omit = nO
            kept_pos, kept_cls = S[used], [int(v) for v in new_classes]
            n_removed, n_kept = len(removed), len(keep)
            if unl:
                out.cls("unlabelled-set-aside")
        if n_removed and n_kept:
            out.cls("removed-and-kept")
            if tested_before:
                nontrivial = True
        if op["kind"] == "test":
            tested_before = True
        max_removed, max_kept = max(max_removed, n_removed), max(max_kept, n_kept)
        if i == first_idx:
            first = (kept_pos.copy(), list(kept_cls), P, zone)
        evaluated = True
        if big_grid():
            out.cls("grid>=200")
        if cont_pending:
            out.cls("continuation-in-between")
            if big_grid():
                out.cls("continuation-in-between-grid>=200")
        prev = dict(prev_input=ds, prev_result=res if op["kind"] == "call" else None)
        cl_calc[0] = np.asarray(cl.get_calculated_classes_testset()).copy()
        if [s_ for s_, _ in out.violations if "/bookkeeping/" not in s_ and "/print-incorrect-points-IndexError/" not in s_]:
            return out

    # ---- the data of the first operation again: same classes -----------------------------------------------------
    if case.get("obs_end"):
        n_obs += len(case["obs_end"])
        if not observers(case["obs_end"]):
            return out
    if (case.get("repeat") or n_obs) and first is not None and len(first[0]) and first[3] != "prescaled":
        kept_pos, kept_cls, P, _ = first
        ds = deml.DataSet(P.copy(), name="again")
        with contextlib.redirect_stdout(io.StringIO()):
            res = cl(ds, print_removed=False)
        R = np.asarray(res[0], dtype=float).reshape(-1, d)
        rc = [int(v) for v in res[1]]
        # the labelled survivors of a test operation are a sub-sequence of the survivors
        j = 0
        again = []
        for r, c in zip(R, rc):
            if j < len(kept_pos) and np.all(np.abs(kept_pos[j] - r) <= TOL_POS):
                again.append(c)
                j += 1
        if j != len(kept_pos):
            out.bad(sub + "/repeat/survivors-changed", "evaluating the data of operation 0 again keeps a different set of samples")
        elif cont_after_first:
            check_classes(np, out, sub + "/repeat", refs, kept_pos, again, "operation 0's data again after a continuation", lib=combis)
        elif again != kept_cls:
            out.bad(sub + "/repeat/classes-changed", "classes of operation 0 %s, the same data evaluated again %s" % (kept_cls, again))
        out.cls("repeated-first-op")

    out.nontrivial = nontrivial
    out.info = dict(max_ops=len(case["ops"]), max_observers=n_obs, max_removed=max_removed, max_kept=max_kept,
                    max_samples=int(len(y)), max_testset=int(len(cl.get_calculated_classes_testset())))
    return out


# ----------------------------------------------------------------------------------------------------------------
# strategies
# ----------------------------------------------------------------------------------------------------------------
def _strategy(mode):
    def make(tier):
        # the feature count is part of the input domain (DataSet / Classification accept any d >= 1; the densities are
        # d-linear tensor hats): about half of the cases are 2-D, the rest 3-D and a few 4-D, in BOTH tiers
        dims = [2, 2, 2, 2, 3, 3, 3, 4]

        @st.composite
        def s(draw):
            k = draw(st.sampled_from([2, 3, 3]))
            d = draw(st.sampled_from(dims))
            case = dict(rng=draw(st.integers(0, 2 ** 31 - 1)), k=k, d=d,
                        n=[draw(st.integers(15, 40)) for _ in range(k)],
                        layout=draw(st.sampled_from(["blobs", "blobs", "lattice", "stripes", "unitcube"])),
                        affine=draw(st.sampled_from(["unit", "shifted", "shifted"])),
                        orig_unl=draw(st.sampled_from([0, 0, 3, 8])),
                        split=draw(st.sampled_from([0.5, 0.6, 0.7, 0.75, 0.8, 0.9, 1.0])),
                        even=draw(st.booleans()), shuffle=draw(st.booleans()),
                        range_mode=draw(st.sampled_from(["auto", "auto", "auto", "wider", "narrower"])),
                        ra=draw(st.sampled_from([0.05, 0.2, 0.5])), rb=draw(st.sampled_from([0.05, 0.2, 0.5])),
                        mode=mode, ovo=draw(st.booleans()),
                        masslumping=draw(st.sampled_from([True, True, False])),
                        lambd=draw(st.sampled_from([0.0, 0.0, 0.01])))
            if mode == "std":
                lmin = draw(st.integers(1, 3))
                case.update(lmin=lmin, lmax=draw(st.integers(lmin, 3)))
                # cost only: without mass lumping the library assembles the full hat-product matrix point pair by point pair
                # (d=3 (3,3): 7 s, d=4 (2,3): 10 s, d=4 (3,3): 6 min); the largest component grid is kept <= 100 interior points there
                if not case["masslumping"] and (2 ** lmin - 1) ** (d - 1) * (2 ** case["lmax"] - 1) > 100:
                    case["masslumping"] = True
            else:
                case.update(lmin=1, lmax=draw(st.sampled_from([2, 2, 3])), max_eval=draw(st.sampled_from([20, 40, 60])))
                # a small share starts from a fine initial scheme: component grids with >= 200 points are evaluated by the
                # point-by-point interpolation branch of the library (cheapest such configurations in d=2: ~0.2-0.3 s)
                big = d == 2 and draw(st.sampled_from([False] * 8 + [True]))
                if big:
                    lmin, lmax = draw(st.sampled_from([(2, 6), (2, 6), (1, 7)]))
                    case.update(lmin=lmin, lmax=lmax, max_eval=1, n=[min(v, 25) for v in case["n"]], big=True)
            nops = draw(st.sampled_from([1, 2, 2, 3, 3]))
            ops = []

            def observer_list(choices):
                return [dict(target=draw(st.sampled_from(OBS_TARGETS)), action=draw(st.sampled_from(OBS_ACTIONS)),
                             f=draw(st.sampled_from([0.5, 2.0, 3.0, -1.5, 10.0])), vec=draw(st.booleans()))
                        for _ in range(draw(st.sampled_from(choices)))]
            for i in range(nops):
                kind = draw(st.sampled_from(["test", "test", "call"] if i == 0 else ["test", "call", "call"]))
                zone = draw(st.sampled_from(["inside", "partly", "partly", "partly", "outside", "prescaled"]))
                ops.append(dict(kind=kind, zone=zone, n=draw(st.integers(1, 14)) if zone != "partly" else draw(st.integers(2, 14)),
                                unl=draw(st.sampled_from([0.0, 0.25, 0.5, 1.0] if kind == "call" else [0.0, 0.25, 0.5])),
                                print_removed=draw(st.booleans()), print_output=draw(st.booleans()),
                                print_incorrect=draw(st.booleans()),
                                raw=draw(st.sampled_from([False, False, False, True])),
                                obs=observer_list([0, 0, 1, 1, 2] if i else [0, 0, 0, 1, 2])))
            if mode == "dw" and (case.get("big") or draw(st.sampled_from([False, False, True]))):
                # 1-2 continuations of the refinement, each between two evaluate/test operations
                if len(ops) < 2:
                    ops.append(dict(ops[0], kind="call", zone="inside", n=draw(st.integers(6, 14)), unl=0.5, raw=False, obs=[]))
                if case.get("big"):
                    ops[0].update(zone=draw(st.sampled_from(["inside", "partly"])), n=draw(st.integers(8, 14)))
                for _ in range(draw(st.sampled_from([1, 1, 2]))):
                    firsts = [j for j, o_ in enumerate(ops) if o_["kind"] != "cont"]
                    pos = draw(st.integers(firsts[0] + 1, len(ops) - 1)) if len(ops) - 1 >= firsts[0] + 1 else len(ops) - 1
                    if ops[pos]["kind"] != "cont" and ops[pos - 1]["kind"] != "cont":
                        ops.insert(pos, dict(kind="cont", factor=draw(st.sampled_from([1.02, 1.1, 1.3]))))
            case["ops"] = ops
            case["obs_end"] = observer_list([0, 0, 1])
            case["repeat"] = draw(st.booleans())
            return case
        return s()
    return make


def _fixed(mode):
    def f():
        base = dict(rng=12345, k=3, d=2, n=[20, 25, 30], layout="blobs", affine="shifted", orig_unl=3, split=0.7, even=True,
                    shuffle=True, range_mode="auto", ra=0.2, rb=0.2, mode=mode, ovo=False, masslumping=True, lambd=0.0,
                    lmin=1, lmax=3 if mode == "std" else 2, max_eval=40, repeat=True,
                    ops=[dict(kind="test", zone="partly", n=10, unl=0.25, print_removed=True, print_output=True, print_incorrect=True,
                              raw=False),
                         dict(kind="call", zone="partly", n=12, unl=0.5, print_removed=True, print_output=False, raw=False,
                              obs=[dict(target="testing", action="revert", f=2.0, vec=False),
                                   dict(target="classes", action="inplace", f=2.0, vec=False)]),
                         dict(kind="test", zone="outside", n=4, unl=0.0, print_removed=False, print_output=False, raw=False)])
        other = dict(base, rng=777, k=2, n=[15, 40], layout="lattice", split=1.0, even=False, shuffle=False, range_mode="wider",
                     ovo=True, orig_unl=0,
                     ops=[dict(kind="test", zone="inside", n=8, unl=0.5, print_removed=True, print_output=False, raw=False),
                          dict(kind="call", zone="partly", n=9, unl=1.0, print_removed=False, print_output=False, raw=True,
                               obs=[dict(target="learning", action="scale_factor", f=3.0, vec=True),
                                    dict(target="prev_input", action="inplace", f=2.0, vec=False)])],
                     obs_end=[dict(target="learning", action="scale_range", f=2.0, vec=False)])
        # three and four features (tensor hats over > 2 axes; lmax - lmin = 2 gives component grids with several multi-point axes)
        # (the second one with a fully labelled first test set that the caller keeps using afterwards)
        cases = [base, other, dict(base, rng=31337, d=3, lmin=1, lmax=3),
                 dict(other, rng=2718, d=3, lmin=2, lmax=2 if mode == "std" else 3,
                      ops=[dict(other["ops"][0], unl=0.0), other["ops"][1]])]
        if mode == "std":
            cases.append(dict(base, rng=1618, d=4, k=2, n=[30, 30], lmin=1, lmax=3, layout="stripes"))
        if mode == "dw":
            # fine initial scheme (every component grid >= 189 points, the library's point-by-point interpolation branch),
            # evaluations before, between and after two continuations of the refinement
            E = dict(print_removed=False, print_output=False, print_incorrect=False, raw=False)
            cases.append(dict(base, rng=4242, k=2, n=[25, 25], layout="blobs", affine="unit", orig_unl=0, lmin=2, lmax=6, max_eval=1,
                              big=True, repeat=True,
                              ops=[dict(E, kind="test", zone="partly", n=14, unl=0.25),
                                   dict(kind="cont", factor=1.02),
                                   dict(E, kind="call", zone="inside", n=14, unl=1.0),
                                   dict(kind="cont", factor=1.1),
                                   dict(E, kind="test", zone="inside", n=12, unl=0.0,
                                        obs=[dict(target="testing", action="revert", f=2.0, vec=False)])]))
            cases.append(dict(base, rng=99, ops=[base["ops"][0], dict(kind="cont", factor=1.3), base["ops"][1]]))
        return cases
    return f


# ----------------------------------------------------------------------------------------------------------------
# oracle self test
# ----------------------------------------------------------------------------------------------------------------
def selftest():
    import numpy as np
    # 1. validity predicate: ties allowed, non-maximal / out-of-range index rejected
    assert argmax_valid(np, np.array([0.2, 0.7, 0.7]), 1) and argmax_valid(np, np.array([0.2, 0.7, 0.7]), 2)
    assert not argmax_valid(np, np.array([0.2, 0.7, 0.7]), 0)
    assert not argmax_valid(np, np.array([0.2, 0.7]), 2) and not argmax_valid(np, np.array([0.2, 0.7]), 0.5)
    # 2. survivor classification on closed-form scaled values
    S = np.array([[0.005, 0.995], [0.5, 0.5], [0.00495, 0.5], [0.0048, 0.5], [0.5, 0.9952], [0.5, 0.99505]])
    assert survivor_status(np, S).tolist() == [1, 1, 0, -1, -1, 0]
    # 3. alignment: order, a dropped must-keep sample, a classified outside sample
    stt = survivor_status(np, S)
    assert align(np, S, stt, S[[0, 1]])[1] is None and align(np, S, stt, S[[0, 1, 2]])[1] is None
    assert align(np, S, stt, S[[1, 0]])[1][0] == "kept-sample-missing-or-reordered"
    assert align(np, S, stt, S[[0]])[1][0] == "kept-sample-missing-or-reordered"
    assert align(np, S, stt, S[[0, 1, 3]])[1][0] == "outside-sample-classified"
    assert align(np, S, stt, np.array([[0.3, 0.3]]))[1] is not None
    # 4. closed-form classifier: two 'densities' x and 1-x; class must be 0 right of 0.5 and 1 left of it
    combis = [lambda P: np.asarray(P)[:, :1], lambda P: 1.0 - np.asarray(P)[:, :1]]
    P = np.array([[0.9, 0.1], [0.2, 0.3], [0.5, 0.5]])
    o = Outcome()
    check_classes(np, o, "t", combis, P, [0, 1, 1], "selftest")
    assert not o.violations, o.violations
    check_classes(np, o, "t", combis, P, [0, 1, 0], "selftest")      # tie at 0.5: both classes valid
    assert not o.violations, o.violations
    check_classes(np, o, "t", combis, P, [1, 1, 0], "selftest")      # corrupted: wrong class for the first sample
    assert [s for s, _ in o.violations] == ["t/not-arg-max"], o.violations
    # 5. summary: consistent and corrupted
    o = Outcome()
    good = {"Wrong mappings": 1, "Total mappings": 4, "Percentage correct": 0.75, "Percentage correct (str)": "75.00%"}
    check_summary(np, o, "t", good, [0, 1, 1, 0], [0, 1, 0, 0], "selftest")
    assert not o.violations, o.violations
    check_summary(np, o, "t", dict(good, **{"Wrong mappings": 2}), [0, 1, 1, 0], [0, 1, 0, 0], "selftest")
    check_summary(np, o, "t", dict(good, **{"Total mappings": 5}), [0, 1, 1, 0], [0, 1, 0, 0], "selftest")
    assert sorted(s for s, _ in o.violations) == ["t/summary/total", "t/summary/wrong"], o.violations
    # 6. report parser
    o = Outcome()
    text = ("During internal scale checking of x DataSet some samples were removed due to them being out of bounds\n"
            "Points removed during scale checking:\n0 : [-0.2 0.3] | class -1\n1 : [ 1.2  0.3 ] | class 2\n")
    check_report(o, "t", text, [-1, 2], True)
    assert not o.violations, o.violations
    check_report(o, "t", text, [-1, 1], True)
    check_report(o, "t", "", [0], False)
    assert sorted(s for s, _ in o.violations) == ["t/report/no-notice", "t/report/removed-list-mismatch"], o.violations
    # 7. multiset comparison
    A = np.array([[0.1, 0.2], [0.1, 0.2], [0.3, 0.4]])
    assert multiset_mismatch(np, A[[2, 0, 1]], [1, 0, 0], A, [0, 0, 1]) is None
    assert multiset_mismatch(np, A[[2, 2, 1]], [1, 1, 0], A, [0, 0, 1]) is not None
    assert multiset_mismatch(np, A, [0, 1, 1], A, [0, 0, 1]) is not None
    # 8. end to end on a tiny real classifier, then with a corrupted classifier list (swapped densities must be rejected)
    import sparseSpACE.DEMachineLearning as deml
    case = _fixed("std")()[0]
    o = run(case)
    unknown = [s for s, _ in o.violations if "/bookkeeping/" not in s and "/print-incorrect-points-IndexError/" not in s]
    assert not unknown, unknown
    Xd, yd = make_dataset(np, case)
    cl, _ = learn(np, deml, case, Xd, yd, None)
    combis, _ = cl.get_density_estimation_results()
    Tst = cl.get_testing_data()
    calc = cl.get_calculated_classes_testset()
    o = Outcome()
    check_classes(np, o, "t", combis, Tst[0], calc, "selftest")
    assert not o.violations, o.violations
    check_classes(np, o, "t", combis[::-1], Tst[0], calc, "selftest")
    assert o.violations, "reversed classifier list accepted"
    # 8b. reference hat evaluation, closed form: 2-D combination (2,1)+(1,2)-(1,1) with hand-made surpluses
    class _CG:
        def __init__(self, lv, c):
            self.levelvector, self.coefficient = lv, c

    class _Combi:
        scheme = [_CG((2, 1), 1), _CG((1, 2), 1), _CG((1, 1), -1)]

    class _DE:
        def get_result(self):
            return {(2, 1): [1.0, 2.0, 3.0], (1, 2): [4.0, 5.0, 6.0], (1, 1): [7.0]}
    ref = RefDensity(np, _Combi(), _DE(), "std")
    # at (0.25, 0.5): grid (2,1) -> 1 ; grid (1,2) -> hats in y at .25,.5,.75 -> 5 * hat_x(0.25)=0.5 -> 2.5 ; grid (1,1) -> 7*0.5
    # at (0.375, 0.375): (2,1): (0.5*1+0.5*2)*0.75 = 1.125 ; (1,2): 0.75*(0.5*4+0.5*5) = 3.375 ; (1,1): 7*0.75*0.75 = 3.9375
    got = ref(np.array([[0.25, 0.5], [0.375, 0.375], [0.0, 0.3]]))[:, 0]
    assert np.allclose(got, [1 + 2.5 - 3.5, 1.125 + 3.375 - 3.9375, 0.0], atol=1e-14), got
    # 8c. ... in 3-D / 4-D the surpluses are row-major over the interior points (first axis slowest, last axis fastest):
    #     grid (2,1,2) has 3x1x3 interior points, the hat at node (0.25, 0.5, 0.75) is entry [0,0,2] = 3rd surplus
    class _Combi3:
        scheme = [_CG((2, 1, 2), 1)]

    class _DE3:
        def get_result(self):
            return {(2, 1, 2): [float(v) for v in range(1, 10)]}
    ref3 = RefDensity(np, _Combi3(), _DE3(), "std")
    got = ref3(np.array([[0.25, 0.5, 0.75], [0.75, 0.5, 0.25], [0.5, 0.25, 0.5], [0.375, 0.5, 0.625], [0.3, 1.0, 0.3]]))[:, 0]
    # (0.375,.5,.625): x between nodes 0,1 (weights .5,.5), z between nodes 1,2 (.5,.5): (a01+a02+a11+a12)/4 = (2+3+5+6)/4
    assert np.allclose(got, [3.0, 7.0, 0.5 * 5.0, 4.0, 0.0], atol=1e-14), got
    assert ref3.max_multi_point_axes() == 2 and ref3.grid_sizes() == [9]

    class _Combi4:
        scheme = [_CG((1, 2, 1, 2), 2), _CG((1, 1, 1, 1), -1)]

    class _DE4:
        def get_result(self):
            return {(1, 2, 1, 2): [float(v) for v in range(1, 10)], (1, 1, 1, 1): [10.0]}
    got = RefDensity(np, _Combi4(), _DE4(), "std")(np.array([[0.5, 0.25, 0.5, 0.75], [0.5, 0.75, 0.5, 0.5], [0.25, 0.5, 0.5, 0.5]]))[:, 0]
    assert np.allclose(got, [2 * 3.0 - 10 * 0.25, 2 * 8.0 - 10 * 0.5, 0.5 * (2 * 5.0 - 10.0)], atol=1e-14), got
    # ... a library evaluation with the hats of a 3-D grid in another order (column-major) must be rejected, both as a density
    # and - where the arg-max moves - as a class
    class _DE3F:
        def get_result(self):
            return {(2, 1, 2): np.arange(1.0, 10.0).reshape(3, 1, 3).transpose(2, 1, 0).ravel().tolist()}
    ref3_perm = RefDensity(np, _Combi3(), _DE3F(), "std")

    def flat(P):
        return np.full((len(P), 1), 4.0)
    o = Outcome()
    check_classes(np, o, "t/x", [ref3, flat], np.array([[0.25, 0.5, 0.75]]), [1], "selftest", lib=[ref3_perm, flat])
    assert sorted(s for s, _ in o.violations) == ["t/density/combi-call-differs-from-reference-hats"], o.violations
    o = Outcome()
    check_classes(np, o, "t/x", [ref3, flat], np.array([[0.25, 0.5, 0.75]]), [0], "selftest")      # permuted density: 7 > 4
    assert [s for s, _ in o.violations] == ["t/x/not-arg-max"], o.violations
    # ... and the fixed 3-D / 4-D cases are silent on the real library
    for fc in _fixed("std")()[2:]:
        o = run(fc)
        unknown = [s for s, _ in o.violations if "/bookkeeping/" not in s and "/print-incorrect-points-IndexError/" not in s]
        assert not unknown and "d=%d" % fc["d"] in o.classes, (fc["d"], unknown)
    o = Outcome()
    check_classes(np, o, "t/x", [ref, ref], np.array([[0.375, 0.375]]), [0], "selftest", lib=[ref, lambda P: ref(P) * (1 + 1e-6)])
    assert [s for s, _ in o.violations] == ["t/density/combi-call-differs-from-reference-hats"], o.violations
    # ... and on the real classifier the library's combi(points) reproduces the reference
    refs = [RefDensity(np, c_, d_, "std") for c_, d_ in zip(*cl.get_density_estimation_results())]
    o = Outcome()
    check_classes(np, o, "t/x", refs, Tst[0], calc, "selftest", lib=combis)
    assert not o.violations, o.violations
    # 9. observer operations: harmless on a sound DataSet; with a DataSet whose non-overriding scale_factor updates the
    #    (shared) factor array in place the classifier's learning-time scaling moves and the oracle must notice
    orig_sf = deml.DataSet.scale_factor

    def inplace_sf(self, scaling_factor, override_scaling=False):
        shared = self._scaling_factor if (self._scaled and not override_scaling) else None
        orig_sf(self, scaling_factor, override_scaling)
        if isinstance(shared, np.ndarray):
            shared *= scaling_factor
            self._scaling_factor = shared
    try:
        deml.DataSet.scale_factor = inplace_sf
        o = run(case)
    finally:
        deml.DataSet.scale_factor = orig_sf
    assert any("/observer/learning-time-scaling-changed" in s for s, _ in o.violations), o.violations


SUBS = [
    Sub("std", _strategy("std"), run, dict(quick=4000, thorough=40000), case_timeout=120,
        budget_s=dict(quick=22, thorough=300), fixed_cases=_fixed("std")),
    Sub("dw", _strategy("dw"), run, dict(quick=1200, thorough=10000), case_timeout=180,
        budget_s=dict(quick=26, thorough=300), fixed_cases=_fixed("dw")),
]
