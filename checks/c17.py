"""C17 — density-estimation caching and size-dependent code paths are transparent."""
import types

import numpy as np
from hypothesis import strategies as st

from vlib.core import Outcome, Sub, HarnessError
from vlib import drive

PROPERTY = "C17"
RULE = ("twin: dimension-wise density estimation (SpatiallyAdaptiveSingleDimensions2 + DensityEstimation on a "
        "GlobalTrapezoidalGrid without boundary points) is run twice on the same data (2D, thorough also 3D; 20-80 samples; "
        "uniform / clustered / snapped-to-grid-lines / 'ties' = 2..30 samples sharing exactly one coordinate value: 1.0, 0.0, "
        "grid lines of levels 1-6, plus duplicated samples / 'lattice' = copies of M/5 distinct sites, half of them on k/16 "
        "(exact duplicates whose labels are drawn independently per copy, so one site carries both labels) inside (0,1)^d with "
        "pre_scaled_data=True, or raw data that the library min-max scales itself), lambda, class labelling (none / +1,-1 / the one-vs-others weights +1 and max(-1,-n_class/n_others) of "
        "DataSet.split_one_vs_others / arbitrary real weights from {0.5,2,-3,0,1,-1,-0.25}), mass lumping on/off, rebalancing on/off, (lmin,lmax) in "
        "{(2,4),(2,5),(3,4),(3,5)}, 20% 'smalldim' cases: 3 (4) dimensions, lmin=1, lmax 3-4, no lumping, 0-2 steps, so that small "
        "component grids with two or three non-trivial dimensions share the matrix-entry cache), with reuse_old_values False and True; the refinement decisions of both runs come from the "
        "same scripted decision tape, so the histories are identical by construction. 40% of the cases are 'directed': "
        "lmin=3,lmax=5 (grids of 105..225 points, the last-set grid >=200 so that every sa(points) takes the large "
        "interpolation branch), default rebalancing, 3-5 steps of one-sided refinement towards a target next to a domain end "
        "(tape modes 5/6, rarely 7), which makes the rebalancing re-level the lopsided tree so that component grids swap a "
        "coordinate at unchanged shape between two interpolations. After EVERY evaluation the combination "
        "scheme, the component-grid points, the matrix R, the right-hand side B, the surpluses and the combined density "
        "sa(points) at the same 46 points (16 of them next to the domain ends) are compared between the runs, and each run's "
        "sa(points) is compared with the reference hat basis applied to that run's own surpluses and current grid points. A history ends after maxsteps refinements or when the summed squared grid sizes exceed a cost "
        "budget. Non-trivial = some evaluation k>=1 in which the reuse run really copied an old right-hand side "
        "(find_closest_old_B returned a key on a grid with >=200 points) while the scheme also held a grid with <200 points, "
        "or some component grid changed a coordinate at unchanged shape between two consecutive evaluations whose "
        "interpolations both took the >=200 branch, or d>=3 without lumping with matrix entries taken from the cache on a scheme "
        "holding a grid with >=2 non-trivial dimensions. "
        "paths: one grid (dimension-wise refined dyadic stripes with 150-260 interior points, or a uniform level vector "
        "with 105-381 points) + data (inside / on grid lines / extremes on the boundary / 'lattice' duplicates with per-copy "
        "labels) + random surpluses; the library's small-grid and large-grid branches of "
        "calculate_B_dimension_wise / calculate_B / interpolate_points_component_grid are BOTH executed on that same grid "
        "(harness-only copies of the library functions whose local constant `threshold = 200` is replaced by 0 or 10**9; the "
        "unmodified function must reproduce the forced branch of its size class bit for bit) and compared with each other; "
        "an independent tensor-hat reference only names the deviating branch. Non-trivial = grid size within [150,260], "
        "non-uniform or anisotropic grid, and >=1 sample / evaluation point exactly on a grid line. "
        "standard: StandardCombi + DensityEstimation (uniform grids, 1-3 schemes (lmin,lmax) computed in a row on the same "
        "objects, all labellings) with reuse off vs on: schemes, surpluses and combi(points) equal; records whether the reuse "
        "branch of the uniform-grid calculate_B is ever entered. Non-trivial = >=2 schemes, a grid >=200 points and the old "
        "right-hand sides were looked up. Distinct = distinct case dict.")
ASSUMPTIONS = [
    "grids without and (25-33% of the non-directed cases) with boundary points; modified_basis=False, "
    "numeric_calculation=False (the analytic matrix entries; the numeric variant "
    "integrates every entry with scipy.nquad and is ~1000x too slow for a twin run)",
    "class labels are a numpy array of per-sample weights: +-1 (test_dim_wise_run_classification), the one-vs-others weights "
    "the library computes itself (DataSet.split_one_vs_others: +1 / max(-1,-n_class/n_others)), and arbitrary real weights "
    "incl. 0 (every non-reuse branch multiplies the hat value with the label value, so the unchanged library accepts them)",
    "refinement decisions are scripted (errorOperator extension point) so that both twin runs take identical decisions; "
    "identity of scheme and grid points is nevertheless asserted after every evaluation",
    "tolerances: R 1e-7*max|R| (a cached entry was computed at another position of the grid and the analytic formula "
    "cancels in absolute coordinates, growing with the depth of one-sided refinement: rounding seen 2.3e-10*max|R|), "
    "B 1e-12 absolute (entries are means of <=80 hat products <=1; seen 2e-16), surpluses 1e-6*max|alpha| and densities "
    "1e-6*max(1,|density|) (a backstop behind the R/B clauses: the solve amplifies the R rounding to 5e-10*max|alpha| / "
    "2e-9 in the density on the unchanged tree, real defects seen give 0.1..8); sa(points) vs the reference hat basis on the "
    "run's own surpluses 1e-9*max(1,|density|) (seen 4e-15: dyadic grids); branch comparison 1e-10 (seen 2e-15)",
    "the comparison of each run's sa(points) with its own surpluses is stronger than the statement when BOTH runs deviate "
    "equally; it is reported under its own signatures (density/reuse-off|on-differs-from-own-surpluses) so that a deviation "
    "of the reuse-on run alone is attributable",
    "surpluses/densities of an evaluation are compared only on component grids whose linear system (R,B) agreed; a grid "
    "whose B differs is reported through the B clause (one root cause -> one signature)",
    "the paths sub-check replaces the local constant 200 in a harness-side copy of the library function's code object; "
    "no file of the library is modified",
]

THRESHOLD = 200
TOL_R = 1e-7
TOL_B = 1e-12
TOL_S = 1e-6
TOL_OWN = 1e-9
TOL_PATH = 1e-10
Q = drive.Q


# ------------------------------------------------------------------------------------------------------------
# reference model: tensor-product hats on arbitrary 1D stripes (zero boundary), written from the definition
# ------------------------------------------------------------------------------------------------------------
def ref_hat_matrix(stripe, xs, boundary=False):
    """H[m, i] = value at xs[m] of the piecewise linear nodal basis function of stripe point i (stripe includes the domain
    ends).  boundary=False: only the interior points (zero boundary); boundary=True: also the two half hats at the ends."""
    s = np.asarray(stripe, dtype=float)
    xs = np.asarray(xs, dtype=float)
    H = np.zeros((len(xs), len(s)))
    k = np.clip(np.searchsorted(s, xs, side="right") - 1, 0, len(s) - 2)
    h = s[k + 1] - s[k]
    rows = np.arange(len(xs))
    H[rows, k] = np.clip((s[k + 1] - xs) / h, 0.0, 1.0)
    H[rows, k + 1] = np.clip((xs - s[k]) / h, 0.0, 1.0)
    return H if boundary else H[:, 1:-1]


def ref_B(data, signs, stripes, boundary=False):
    data = np.asarray(data, dtype=float)
    M, dim = data.shape
    w = np.ones(M) if signs is None else np.asarray(signs, dtype=float)
    acc = w[:, None]
    for d in range(dim):
        H = ref_hat_matrix(stripes[d], data[:, d], boundary)
        acc = (acc[:, :, None] * H[:, None, :]).reshape(M, -1)
    return acc.sum(axis=0) / M


def ref_interp(alphas, stripes, pts, boundary=False):
    pts = np.asarray(pts, dtype=float)
    acc = np.ones((len(pts), 1))
    for d in range(len(stripes)):
        H = ref_hat_matrix(stripes[d], pts[:, d], boundary)
        acc = (acc[:, :, None] * H[:, None, :]).reshape(len(pts), -1)
    return acc @ np.asarray(alphas, dtype=float)


# ------------------------------------------------------------------------------------------------------------
# data
# ------------------------------------------------------------------------------------------------------------
LABEL_KINDS = ["none", "pm1", "ovo", "real"]
REAL_WEIGHTS = [0.5, 2.0, -3.0, 0.0, 1.0, -1.0, -0.25]


def labels_kind(case):
    """class labelling of a case: 'none', 'pm1' (+1/-1), 'ovo' (+1 for the class, max(-1, -n_class/n_others) for the others:
    the weights DataSet.split_one_vs_others computes), 'real' (arbitrary real weights incl. 0).  Old cases carry `classes`."""
    return case.get("labels", "pm1" if case.get("classes") else "none")


def make_signs(rng, M, kind):
    if kind == "none":
        return None
    if kind == "pm1":
        signs = np.where(rng.uniform(size=M) < 0.5, -1.0, 1.0)
        signs[0], signs[1] = 1.0, -1.0
    elif kind == "ovo":
        n_class = int(min(M - 2, max(2, round(rng.uniform(0.12, 0.62) * M))))
        w = max(-1.0, -n_class / float(M - n_class))            # clipped to -1 for the majority class
        signs = np.full(M, w)
        members = rng.permutation(np.arange(2, M))[:n_class - 1]
        signs[members] = 1.0
        signs[0] = 1.0                                          # sample 0 in the class, sample 1 among the others
    else:
        signs = rng.choice(REAL_WEIGHTS, size=M)
        signs[0], signs[1] = 0.5, -3.0
    return signs


def mixed_duplicates(x, signs):
    """(number of sites that occur more than once, number of those whose copies carry both labels)"""
    groups = {}
    for j, row in enumerate(np.asarray(x)):
        groups.setdefault(tuple(float(v) for v in row), []).append(j)
    dup = [g for g in groups.values() if len(g) > 1]
    mixed = 0 if signs is None else sum(1 for g in dup if len(set(float(signs[j]) for j in g)) > 1)
    return len(dup), mixed


def add_ties(x, rng, lines=None):
    """heavy ties in place: 2..30 samples share exactly one coordinate value - the upper domain end 1.0 (always, in one
    dimension), the lower end 0.0, grid lines of several levels - plus a few duplicated whole samples"""
    M, dim = x.shape
    kmax = max(2, min(30, M // 2))
    d1 = int(rng.integers(0, dim))
    groups = [(d1, 1.0), (int(rng.integers(0, dim)), 0.0)]
    if rng.uniform() < 0.5:
        groups.append(((d1 + 1) % dim, 1.0))
    for _ in range(int(rng.integers(1, 4))):
        d = int(rng.integers(0, dim))
        if lines is not None:
            v = float(lines[d][int(rng.integers(0, len(lines[d])))])
        else:
            lev = int(rng.integers(1, 7))
            v = int(rng.integers(1, 2 ** lev)) / 2.0 ** lev
        groups.append((d, v))
    for d, v in groups:
        k = int(rng.integers(2, kmax + 1))
        x[rng.choice(M, size=k, replace=False), d] = v
    for _ in range(int(rng.integers(1, 4))):            # duplicated whole samples
        src = int(rng.integers(0, M))
        x[rng.choice(M, size=int(rng.integers(1, 4)), replace=False)] = x[src]
    return x


def make_data(case):
    """returns (data handed to the library, pre_scaled flag, signs or None, evaluation points)"""
    rng = np.random.default_rng(case["rng"])
    dim, M, kind = case["dim"], case["M"], case["data"]
    if kind == "clustered":
        c = rng.uniform(0.2, 0.8, size=(2, dim))
        pick = rng.integers(0, 2, size=M)
        x = c[pick] + rng.normal(0, 0.12, size=(M, dim))
        x = np.clip(x, 0.015, 0.985)
    else:
        x = rng.uniform(0.02, 0.98, size=(M, dim))
    if kind == "snapped":                   # some samples exactly on (coarse and fine) dyadic grid lines
        k = max(2, M // 4)
        for j in range(k):
            d = int(rng.integers(0, dim))
            lev = int(rng.integers(1, 6))
            x[j, d] = int(rng.integers(1, 2 ** lev)) / 2.0 ** lev
        x[k, :] = [int(rng.integers(1, 8)) / 8.0 for _ in range(dim)]
    if kind == "ties":
        x = add_ties(x, rng)
    if kind == "lattice":                   # few distinct sites (discrete features): exact duplicates are frequent
        n_sites = max(3, M // 5)
        sites = rng.uniform(0.02, 0.98, size=(n_sites, dim))
        for j in range(0, n_sites, 2):      # every other site on a coarse lattice
            sites[j] = rng.integers(1, 16, size=dim) / 16.0
        pick = rng.integers(0, n_sites, size=M)
        pick[0] = pick[1] = 0               # samples 0 and 1 (labels +1 and -1 below) are copies of one site
        x = sites[pick]
    pre_scaled = True
    if kind == "minmax":                    # raw data; the library scales it to [0,1] itself (extremes land on 0 and 1)
        shift = rng.uniform(-3, 3, size=dim)
        scale = rng.uniform(0.5, 7, size=dim)
        x = shift + scale * x
        x[0, 0] = shift[0] - 0.5            # guarantees a value outside [0,1] so that initialize() does scale
        pre_scaled = False
    signs = make_signs(rng, M, labels_kind(case))
    pts = rng.uniform(0.01, 0.99, size=(24, dim))
    dy = rng.integers(1, 16, size=(6, dim)) / 16.0
    ends = rng.uniform(0.01, 0.99, size=(16, dim))      # one coordinate close to a domain end (where one-sided
    for j in range(len(ends)):                          # refinement and the rebalancing rotations take place)
        d = j % dim
        u = rng.uniform(0.0, 0.13)
        ends[j, d] = u if (j // dim) % 2 == 0 else 1.0 - u
    return x, pre_scaled, signs, np.vstack([pts, dy, ends])


# ------------------------------------------------------------------------------------------------------------
# twin runs
# ------------------------------------------------------------------------------------------------------------
def _grid_size(sa, lv, boundary=False):
    coords, _, _ = sa.get_point_coord_for_each_dim(lv)
    return int(np.prod([len(c) - (0 if boundary else 2) for c in coords]))


def run_single(case, reuse, corrupt=None):
    """One dimension-wise run; returns (records per evaluation, operation).  corrupt(k, op, levelvectors) is a self-test hook."""
    from sparseSpACE.spatiallyAdaptiveSingleDimension2 import SpatiallyAdaptiveSingleDimensions2
    from sparseSpACE.GridOperation import DensityEstimation
    from sparseSpACE.Grid import GlobalTrapezoidalGrid
    data, pre_scaled, signs, pts = make_data(case)
    dim = case["dim"]
    a, b = np.zeros(dim), np.ones(dim)
    boundary = bool(case.get("boundary", False))
    grid = GlobalTrapezoidalGrid(a=a, b=b, modified_basis=False, boundary=boundary)
    op = DensityEstimation(data.copy(), dim, grid=grid, masslumping=case["masslumping"], lambd=case["lambd"],
                           classes=None if signs is None else signs.copy(), reuse_old_values=reuse,
                           numeric_calculation=False, print_output=False, pre_scaled_data=pre_scaled,
                           log_level=Q, print_level=Q)
    sa = SpatiallyAdaptiveSingleDimensions2(a, b, operation=op, margin=case["margin"], rebalancing=case["rebalancing"],
                                            rebalancing_safety_factor=case["safety"], print_level=Q, log_level=Q)
    records = []
    cur = dict(lv=None, grids={})
    o_calc, o_R, o_B, o_find = (op.calculate_operation_dimension_wise, op.build_R_matrix_dimension_wise,
                                op.calculate_B_dimension_wise, op.find_closest_old_B)

    def w_calc(stripes, levels, cg):
        cur["lv"] = tuple(int(x) for x in cg.levelvector)
        cur["grids"][cur["lv"]] = dict(stripes=[[float(x) for x in s] for s in stripes], key=None, asked=False)
        return o_calc(stripes, levels, cg)

    def w_R(stripes, levels):
        before = len(op.old_R)
        R = o_R(stripes, levels)
        g = cur["grids"][cur["lv"]]
        g["R"] = np.array(R, dtype=float)
        n = len(g["R"])
        # pairs (i<=j) whose entry was taken from the cache = all pairs - entries newly stored (reuse run, no lumping)
        g["R_reused"] = n * (n + 1) // 2 - (len(op.old_R) - before) if (reuse and g["R"].ndim == 2) else 0
        return R

    def w_B(data_, stripes, levels):
        B = o_B(data_, stripes, levels)
        cur["grids"][cur["lv"]]["B"] = np.array(B, dtype=float)
        return B

    def w_find(stripes):
        key = o_find(stripes)
        g = cur["grids"][cur["lv"]]
        g["asked"], g["key"] = True, key
        return key

    op.calculate_operation_dimension_wise = w_calc
    op.build_R_matrix_dimension_wise = w_R
    op.calculate_B_dimension_wise = w_B
    op.find_closest_old_B = w_find

    state = dict(evals=0, refines=0, cost=0)
    orig_eval, orig_refine = sa.evaluate_operation, sa.refine

    def ev():
        cost = sum(_grid_size(sa, cg.levelvector, boundary) ** 2 for cg in sa.scheme)
        if case["masslumping"]:
            cost //= 5                      # only the diagonal of R is built: measured ~5x cheaper
        if state["evals"] >= 1 and state["cost"] + cost > case["budget"]:
            raise drive.StopHistory()
        state["cost"] += cost
        cur["grids"] = {}
        r = orig_eval()
        k = state["evals"]
        if corrupt is not None:
            corrupt(k, op, sorted(cur["grids"]))
        last_set = int(op.grid.get_num_points())        # size of the grid the operation saw last: selects the branch
        rec = dict(scheme=sorted((tuple(int(x) for x in cg.levelvector), cg.coefficient) for cg in sa.scheme),
                   grids=cur["grids"], dens=np.array(sa(pts), dtype=float).reshape(-1), last_set=last_set,
                   levels=[dict(zip((float(x) for x in drive.dw_points(sa, d)), (int(l) for l in drive.dw_levels(sa, d))))
                           for d in range(dim)])
        own = np.zeros(len(pts))
        for lv, g in rec["grids"].items():
            g["alpha"] = np.array(op.surpluses[lv], dtype=float)
            g["N"] = len(g["alpha"])
        for cg in sa.scheme:                            # this run's own surpluses through the reference hat basis
            g = rec["grids"][tuple(int(x) for x in cg.levelvector)]
            own += cg.coefficient * ref_interp(g["alpha"], g["stripes"], pts, boundary)
        rec["dens_own"] = own
        records.append(rec)
        state["evals"] += 1
        return r

    def rf():
        if state["refines"] >= case["maxsteps"]:
            raise drive.StopHistory()
        orig_refine()
        state["refines"] += 1

    sa.evaluate_operation = ev
    sa.refine = rf
    try:
        with drive.quiet():
            sa.performSpatiallyAdaptiv(case["lmin"], case["lmax"], drive.make_tape_err(case["tape"], case["mode"]), tol=-1,
                                       max_evaluations=10 ** 9, print_output=False)
    except drive.StopHistory:
        pass
    return records, op


def max_sample_contribution(op, stripes):
    """c_i = (1/M) sum over the per-dimension maximal samples s (last entry of the library's sorted_data[d]) of
    sign_s * hat_i(x_s): what B loses on hat i if exactly those samples are left out."""
    data = np.asarray(op.data, dtype=float)
    idx = sorted(set(int(op.sorted_data[d][-1]) for d in range(data.shape[1])))
    signs = None if op.classes is None else np.asarray(op.classes, dtype=float)[idx]
    return ref_B(data[idx], signs, stripes, bool(op.grid.boundary)) * len(idx) / len(data)


def compare_twin(out, sub, rec_off, rec_on, op_on):
    """All clauses after every evaluation.  Returns statistics for the non-triviality rule."""
    stats = dict(reuse_rhs=0, big=0, small=0, evals=min(len(rec_off), len(rec_on)), max_dR=0.0, max_dB=0.0, max_dS=0.0,
                 max_dD=0.0, max_dOwn=0.0, nontrivial=False, rotations=0, swaps=0, swaps_large=0, large_interp=0, R_reused=0,
                 multi_dim_grids=0)
    if len(rec_off) != len(rec_on):
        out.bad(sub + "/scheme/number-of-evaluations-differs", "off %d on %d" % (len(rec_off), len(rec_on)))
    for k, (x, y) in enumerate(zip(rec_off, rec_on)):
        tag = "evaluation %d" % k
        if x["scheme"] != y["scheme"]:
            out.bad(sub + "/scheme/differs", "%s off=%s on=%s" % (tag, x["scheme"][:4], y["scheme"][:4]))
            return stats
        if any(x["grids"][lv]["stripes"] != y["grids"][lv]["stripes"] for lv in x["grids"]):
            out.bad(sub + "/scheme/grid-points-differ", tag)
            return stats
        clean = True
        copied_here = False
        sizes = [g["N"] for g in y["grids"].values()]
        # every run's combined density must be the d-linear interpolant of that run's own surpluses on the current grids
        for name, r in (("off", x), ("on", y)):
            dO = float(np.max(np.abs(r["dens"] - r["dens_own"])))
            stats["max_dOwn"] = max(stats["max_dOwn"], dO)
            if not dO <= TOL_OWN * max(1.0, float(np.max(np.abs(r["dens_own"])))):
                i = int(np.argmax(np.abs(r["dens"] - r["dens_own"])))
                out.bad(sub + "/density/reuse-%s-differs-from-own-surpluses" % name,
                        "%s: sa(points) %.6e, reference hat basis on the run's own surpluses and current grid points %.6e "
                        "(point %d, max diff %.3e, last-set grid has %d points)" % (tag, r["dens"][i], r["dens_own"][i], i, dO,
                                                                                   r["last_set"]))
        if y["last_set"] >= THRESHOLD:
            stats["large_interp"] += 1
        if k >= 1:
            p = rec_on[k - 1]
            if any(p["levels"][d].get(c, l) != l for d in range(len(y["levels"])) for c, l in y["levels"][d].items()):
                stats["rotations"] += 1
            swapped = [lv for lv, g in y["grids"].items() if lv in p["grids"] and g["stripes"] != p["grids"][lv]["stripes"]
                       and [len(c) for c in g["stripes"]] == [len(c) for c in p["grids"][lv]["stripes"]]]
            if swapped:
                stats["swaps"] += 1
                if y["last_set"] >= THRESHOLD and p["last_set"] >= THRESHOLD:
                    stats["swaps_large"] += 1
        for lv in sorted(x["grids"]):
            gx, gy = x["grids"][lv], y["grids"][lv]
            copied = gy["key"] is not None and gy["N"] >= THRESHOLD
            stats["R_reused"] += gy.get("R_reused", 0)
            if sum(1 for c in gy["stripes"] if len(c) > 3) >= 2:        # >=2 dimensions with more than one interior point
                stats["multi_dim_grids"] += 1
            if copied:
                stats["reuse_rhs"] += 1
                copied_here = True
            if gy["asked"] and gy["N"] < THRESHOLD:
                out.bad(sub + "/rhs/reuse-consulted-below-threshold", "%s grid %s N=%d" % (tag, lv, gy["N"]))
            system_equal = True
            if gx["R"].shape != gy["R"].shape or gx["B"].shape != gy["B"].shape or gx["alpha"].shape != gy["alpha"].shape:
                out.bad(sub + "/shape/differs", "%s grid %s" % (tag, lv))
                return stats
            dR = float(np.max(np.abs(gx["R"] - gy["R"])))
            stats["max_dR"] = max(stats["max_dR"], dR / float(np.max(np.abs(gx["R"]))))
            if not dR <= TOL_R * float(np.max(np.abs(gx["R"]))):
                system_equal = False
                i = np.unravel_index(int(np.argmax(np.abs(gx["R"] - gy["R"]))), gx["R"].shape)
                out.bad(sub + "/matrix/reuse-differs", "%s grid %s N=%d: max|R_off-R_on|=%.3e at %s (off %.6e on %.6e)"
                        % (tag, lv, gy["N"], dR, i, gx["R"][i], gy["R"][i]))
            diff = gx["B"] - gy["B"]
            dB = float(np.max(np.abs(diff)))
            wrong = np.abs(diff) > TOL_B
            if wrong.any():
                system_equal = False
                c = max_sample_contribution(op_on, gy["stripes"])
                explained = bool(np.all(np.abs(diff[wrong] - c[wrong]) <= TOL_B)) and copied
                if explained:
                    out.bad(sub + "/rhs/reuse-omits-per-dimension-max-sample",
                            "%s grid %s N=%d old key %s: %d of %d entries of B differ (max %.3e); every one equals the "
                            "contribution of the samples with the largest coordinate of a dimension, i.e. the reuse path "
                            "left exactly those samples out; max surplus difference %.3e"
                            % (tag, lv, gy["N"], gy["key"], int(wrong.sum()), len(diff), dB,
                               float(np.max(np.abs(gx["alpha"] - gy["alpha"])))))
                else:
                    i = int(np.argmax(np.abs(diff)))
                    out.bad(sub + "/rhs/reuse-differs" + ("" if copied else "-without-copy"),
                            "%s grid %s N=%d old key %s: %d entries of B differ, max %.3e at %d (off %.6e on %.6e), not "
                            "explained by omitted maximal samples" % (tag, lv, gy["N"], gy["key"], int(wrong.sum()), dB, i,
                                                                       gx["B"][i], gy["B"][i]))
            else:
                stats["max_dB"] = max(stats["max_dB"], dB)
            if system_equal:
                dS = float(np.max(np.abs(gx["alpha"] - gy["alpha"])))
                scale = float(np.max(np.abs(gx["alpha"])))
                stats["max_dS"] = max(stats["max_dS"], dS / scale if scale > 0 else dS)
                if not dS <= TOL_S * scale:
                    out.bad(sub + "/surpluses/differ-with-equal-system", "%s grid %s N=%d: max diff %.3e (max|alpha| %.3e)"
                            % (tag, lv, gy["N"], dS, scale))
                    clean = False
            else:
                clean = False
        if clean:
            dD = float(np.max(np.abs(x["dens"] - y["dens"])))
            stats["max_dD"] = max(stats["max_dD"], dD)
            if not dD <= TOL_S * max(1.0, float(np.max(np.abs(x["dens"])))):
                out.bad(sub + "/density/differs-with-equal-surpluses", "%s max diff %.3e" % (tag, dD))
        if max(sizes) >= THRESHOLD:
            stats["big"] += 1
        if min(sizes) < THRESHOLD:
            stats["small"] += 1
        if k >= 1 and copied_here and min(sizes) < THRESHOLD:
            stats["nontrivial"] = True
        if stats["swaps_large"]:
            stats["nontrivial"] = True
        if out.violations:
            break
    return stats


def run_twin(case):
    out = Outcome()
    sub = "twin"
    rec_off, _ = run_single(case, False)
    rec_on, op_on = run_single(case, True)
    s = compare_twin(out, sub, rec_off, rec_on, op_on)
    seen = set()
    out.violations = [v for v in out.violations if not (v[0] in seen or seen.add(v[0]))]    # one message per signature
    out.nontrivial = s["nontrivial"]
    if s["reuse_rhs"]:
        out.cls("rhs-copied-from-old-grid")
    if s["big"]:
        out.cls("evaluation-with-grid>=200")
    if s["small"]:
        out.cls("evaluation-with-grid<200")
    if s["rotations"]:
        out.cls("rebalancing-rotation-happened")
    if s["swaps"]:
        out.cls("coordinate-swapped-at-unchanged-shape")
    if s["swaps_large"]:
        out.cls("swap-between-two-large-branch-interpolations")
    if s["large_interp"]:
        out.cls("interpolation-large-branch")
    if case.get("directed"):
        out.cls("directed-one-sided-refinement")
    out.cls("boundary=%s" % bool(case.get("boundary", False)))
    xs_ = np.asarray(op_on.data, dtype=float)
    if any(int(np.sum(xs_[:, d] == 1.0)) >= 2 for d in range(xs_.shape[1])):
        out.cls(">=2-samples-exactly-on-upper-domain-end")
        if case.get("boundary") and s["reuse_rhs"]:
            out.cls(">=2-samples-exactly-on-upper-domain-end&boundary=True&grid>=200&reuse&evaluation>=1")
    if any(int(np.sum(xs_[:, d] == 0.0)) >= 2 for d in range(xs_.shape[1])):
        out.cls(">=2-samples-exactly-on-lower-domain-end")
    if case.get("boundary"):
        if s["big"]:
            out.cls("boundary=True&grid>=200&reuse=off")        # the reuse-off run solves every grid without the cache
        if s["reuse_rhs"]:
            out.cls("boundary=True&grid>=200&reuse=on")         # the reuse-on run copied an old right-hand side there
    if s["R_reused"]:
        out.cls("R-entries-reused>0")
    if case["dim"] >= 3 and not case["masslumping"]:
        out.cls("d=%d&no-lumping&reuse" % case["dim"])
        if s["R_reused"] and s["multi_dim_grids"]:
            out.nontrivial = True
            out.cls("d>=3&no-lumping&R-entries-reused&grid-with>=2-nontrivial-dims")
    data_, _, signs_, _ = make_data(case)
    if signs_ is not None and np.any(np.abs(np.abs(signs_) - 1.0) > 0):
        out.cls("labels!=+-1")
        if s["reuse_rhs"]:
            out.cls("labels!=+-1&reuse&grid>=200&evaluation>=1")
    ndup, nmixed = mixed_duplicates(data_, signs_)
    if ndup:
        out.cls("duplicate-sites")
    if nmixed:
        out.cls("duplicate-sites-with-mixed-labels")
        if s["big"]:
            out.cls("duplicate-sites-with-mixed-labels-on-grid>=200")
    out.cls("evals=%d" % min(s["evals"], 4), "data=%s" % case["data"], "labels=%s" % labels_kind(case),
            "masslumping=%s" % case["masslumping"], "rebalancing=%s" % case["rebalancing"], "d=%d" % case["dim"],
            "lmin,lmax=%d,%d" % (case["lmin"], case["lmax"]))
    out.info = dict(max_evaluations=s["evals"], rhs_copies=s["reuse_rhs"], max_rel_dR=s["max_dR"], max_dB_equal=s["max_dB"],
                    max_rel_dS_equal=s["max_dS"], max_dDensity_equal=s["max_dD"],
                    max_dDensity_vs_own_surpluses=s["max_dOwn"], swaps=s["swaps"],
                    R_entries_reused=s["R_reused"],
                    max_grid=max([g["N"] for r in rec_on for g in r["grids"].values()] + [0]))
    return out


LEVELS_2D = [(2, 4), (2, 5), (2, 5), (3, 4), (3, 4), (3, 5)]
LEVELS_3D = [(2, 3), (2, 4)]


NEAR_END = [0, 1, 2, 3, 60, 61, 62, 63]      # tape entries whose mode-5/6 target (t + 0.37)/64 lies next to a domain end


def twin_strategy(tier):
    @st.composite
    def s(draw):
        flavour = draw(st.sampled_from(["regular", "regular", "directed", "directed", "smalldim"]))
        directed = flavour == "directed"
        kind = draw(st.sampled_from(["uniform", "clustered", "snapped", "minmax", "minmax", "lattice", "lattice", "ties"]))
        common = dict(M=draw(st.integers(20, 80)), data=kind,
                      labels=draw(st.sampled_from(["pm1", "ovo", "real", "none"] if kind == "lattice" else
                                                  ["none", "none", "pm1", "pm1", "ovo", "ovo", "real"])), lambd=draw(st.sampled_from([0.01, 0.0, 1e-4, 0.1, 1.0])),
                      safety=draw(st.sampled_from([0.1, 0.0, 0.2])), rng=draw(st.integers(0, 10 ** 6)))
        if directed:
            # one-sided refinement towards a point next to a domain end on grids beyond the threshold, default rebalancing:
            # lopsided trees get re-levelled, component grids swap coordinates at unchanged shape between two interpolations
            mode = draw(st.sampled_from([5, 5, 5, 6, 6, 6, 7]))
            tape = [draw(st.sampled_from(NEAR_END)), draw(st.sampled_from(NEAR_END + [17, 32, 45]))] + \
                draw(st.lists(st.integers(0, 63), min_size=1, max_size=6))
            return dict(dim=2, lmin=3, lmax=5, directed=True, masslumping=draw(st.sampled_from([True, True, True, False])), rebalancing=True,
                        margin=draw(st.sampled_from([0.9, 0.9, 0.5, 1.0])),
                        maxsteps=draw(st.sampled_from([3, 4, 4, 5] if tier == "quick" else [4, 5, 6])),
                        budget=800000 if tier == "quick" else 2500000, tape=tape, mode=mode, **common)
        if flavour == "smalldim":
            # 3 (4) dimensions, lmin=1, lmax-lmin >= 2, no lumping: small component grids with two or three non-trivial
            # dimensions, whose matrix entries come out of the cache shared by all grids and steps (multisets of widths
            # and distances that differ only in multiplicity exist from d=3 on)
            dim = draw(st.sampled_from([3, 3, 3, 4]))
            lmax = 3 if dim == 4 else draw(st.sampled_from([3, 4]))
            tape, mode = drive.st_tape(draw, maxlen=24)
            return dict(dim=dim, lmin=1, lmax=lmax, directed=False, masslumping=False, rebalancing=draw(st.booleans()),
                        boundary=draw(st.sampled_from([False, False, False, True])),
                        margin=draw(st.sampled_from([0.5, 0.9, 0.0, 1.0])), maxsteps=draw(st.sampled_from([0, 1, 1, 2])),
                        budget=150000 if tier == "quick" else 600000, tape=tape, mode=mode, **common)
        tape, mode = drive.st_tape(draw, maxlen=24)
        if draw(st.sampled_from([False, False, False, True])):
            # grid WITH boundary points (half hats at the domain ends; the stripes are the grid points): 81..165-point grids
            # at evaluation 0 that pass 200 points after one or two steps
            lmin, lmax = draw(st.sampled_from([(2, 4), (2, 5), (3, 4), (3, 4)]))
            if draw(st.booleans()):
                common["data"] = "ties"     # several samples exactly on a domain end / on one grid line: only the half hats
                                            # of a boundary grid have their peak on the end of their domain
            lumped = draw(st.booleans())
            if draw(st.booleans()):         # refinement next to the lower / upper faces (targets 0.006..0.05 / 0.94..0.99);
                mode = draw(st.sampled_from([5, 6]))        # one-sided refinement grows coarse grids slowly: start at 289/297
                tape = [draw(st.sampled_from(NEAR_END)), draw(st.sampled_from(NEAR_END))] + tape[:4]
                lmin, lmax = 3, 5
                lumped = draw(st.sampled_from([True, True, True, False]))
            return dict(dim=2, lmin=lmin, lmax=lmax, directed=False, boundary=True, masslumping=lumped,
                        rebalancing=draw(st.booleans()), margin=draw(st.sampled_from([0.5, 0.9, 0.0, 1.0])),
                        maxsteps=draw(st.sampled_from([1, 2, 2, 3]) if mode not in (5, 6) else st.sampled_from([1, 2, 3])),
                        budget=750000 if tier == "quick" else 1500000, tape=tape, mode=mode, **common)
        dim = 2 if tier == "quick" else draw(st.sampled_from([2, 2, 3]))
        lmin, lmax = draw(st.sampled_from(LEVELS_2D if dim == 2 else LEVELS_3D))
        return dict(dim=dim, lmin=lmin, lmax=lmax, directed=False, boundary=False,
                    masslumping=draw(st.sampled_from([False, False, False, True])),
                    rebalancing=draw(st.booleans()), margin=draw(st.sampled_from([0.5, 0.9, 0.0, 1.0])),
                    maxsteps=draw(st.sampled_from([1, 2, 2, 3])),
                    budget=450000 if tier == "quick" else 1500000, tape=tape, mode=mode, **common)
    return s()


def twin_fixed():
    # uniform refinement of the lmin=2,lmax=5 scheme: evaluation 1 holds grids of 189..225 points whose B is copied
    return [dict(dim=2, lmin=2, lmax=5, M=40, data="uniform", classes=False, lambd=0.01, masslumping=False, rebalancing=False,
                 margin=0.5, safety=0.1, maxsteps=1, budget=450000, tape=[0], mode=4, rng=0),
            # one-sided refinement towards x = (0.006, 0.006) with default rebalancing on the lmin=3,lmax=5 scheme: component
            # grids swap a coordinate at unchanged shape at evaluations 2 and 3, all interpolations take the >=200 branch
            dict(dim=2, lmin=3, lmax=5, directed=True, M=60, data="uniform", classes=False, lambd=0.01, masslumping=True,
                 rebalancing=True, margin=0.9, safety=0.0, maxsteps=4, budget=800000, tape=[0, 0, 57, 7], mode=5, rng=0),
            # weighted labels (one-vs-others weights / arbitrary real weights) on histories whose second evaluation
            # recomputes right-hand-side entries through the reuse branch on grids of 189..225 points
            dict(dim=2, lmin=2, lmax=5, M=50, data="uniform", labels="ovo", lambd=0.01, masslumping=True, rebalancing=False,
                 margin=0.5, safety=0.1, maxsteps=1, budget=450000, tape=[0], mode=4, rng=2),
            dict(dim=2, lmin=3, lmax=4, M=40, data="lattice", labels="real", lambd=0.01, masslumping=False, rebalancing=True,
                 margin=0.5, safety=0.1, maxsteps=1, budget=450000, tape=[0], mode=4, rng=3),
            # 3D / 4D without lumping, lmin=1, lmax=3: grids (2,1,1) and (2,2,1) share the matrix-entry cache
            dict(dim=3, lmin=1, lmax=3, M=60, data="uniform", labels="none", lambd=0.0, masslumping=False, rebalancing=True,
                 margin=0.5, safety=0.1, maxsteps=1, budget=150000, tape=[3, 17, 40, 9], mode=0, rng=4),
            dict(dim=4, lmin=1, lmax=3, M=50, data="clustered", labels="pm1", lambd=0.01, masslumping=False, rebalancing=False,
                 margin=0.5, safety=0.1, maxsteps=0, budget=150000, tape=[0], mode=4, rng=5),
            # grids WITH boundary points beyond 200 points at evaluation 1 (289/297 points after a uniform step of lmin=3,lmax=4;
            # library-scaled data: samples on the domain boundary), reuse-on copies old right-hand sides there
            dict(dim=2, lmin=3, lmax=4, M=50, data="minmax", labels="pm1", lambd=0.01, masslumping=True, rebalancing=False,
                 boundary=True, margin=0.5, safety=0.1, maxsteps=1, budget=600000, tape=[0], mode=4, rng=6),
            dict(dim=2, lmin=2, lmax=5, M=40, data="snapped", labels="none", lambd=0.01, masslumping=False, rebalancing=True,
                 boundary=True, margin=0.5, safety=0.1, maxsteps=2, budget=600000, tape=[5, 40, 22, 63, 9], mode=0, rng=7),
            # heavy ties (several samples exactly on x_d = 1.0, 0.0 and on grid lines) on boundary grids; refinement next to
            # the upper faces (target 0.99, 0.99) / a uniform step: the half hats on the faces are recomputed by the reuse branch
            dict(dim=2, lmin=3, lmax=5, M=60, data="ties", labels="none", lambd=0.01, masslumping=True, rebalancing=False,
                 boundary=True, margin=0.9, safety=0.1, maxsteps=2, budget=600000, tape=[63, 63, 7, 20], mode=5, rng=8),
            dict(dim=2, lmin=3, lmax=4, M=40, data="ties", labels="pm1", lambd=0.01, masslumping=False, rebalancing=True,
                 boundary=True, margin=0.5, safety=0.1, maxsteps=1, budget=600000, tape=[0], mode=4, rng=9)]


# ------------------------------------------------------------------------------------------------------------
# size-dependent branches on one and the same grid
# ------------------------------------------------------------------------------------------------------------
def force_threshold(func, value):
    """A harness-side copy of a library function in which the local constant `threshold = 200` is `value`."""
    code = func.__code__
    if "threshold" not in code.co_varnames or sum(1 for c in code.co_consts if type(c) is int and c == THRESHOLD) != 1:
        raise HarnessError("cannot locate the size threshold %d in %s" % (THRESHOLD, func.__qualname__))
    consts = tuple(value if (type(c) is int and c == THRESHOLD) else c for c in code.co_consts)
    return types.FunctionType(code.replace(co_consts=consts), func.__globals__, func.__name__, func.__defaults__,
                              func.__closure__)


def both_paths(op, name):
    """(natural, forced small, forced large) bound variants of the library method `name`"""
    import sparseSpACE.GridOperation as GO
    owner = [k for k in type(op).__mro__ if name in k.__dict__][0]
    f = owner.__dict__[name]
    assert getattr(GO, owner.__name__) is owner
    return (getattr(op, name), types.MethodType(force_threshold(f, 10 ** 9), op), types.MethodType(force_threshold(f, 0), op))


def make_stripes(splits):
    """dyadic 1D point sets with levels: start from {0, 1/2, 1}; every entry splits one interval at its midpoint"""
    stripes, levels = [], []
    for sp in splits:
        c, l = [0.0, 0.5, 1.0], [0, 1, 0]
        for s in sp:
            i = s % (len(c) - 1)
            c.insert(i + 1, 0.5 * (c[i] + c[i + 1]))
            l.insert(i + 1, max(l[i], l[i + 1]) + 1)
        stripes.append(c)
        levels.append(l)
    return stripes, levels


def paths_points(case, stripes, rng):
    """evaluation points: interior random, on grid lines, grid points, and (class 'boundary') on the domain boundary"""
    dim = len(stripes)
    pts = rng.uniform(0.0, 1.0, size=(case["npts"], dim))
    k = len(pts)
    for j in range(0, k // 3):                      # one coordinate on a grid line
        d = int(rng.integers(0, dim))
        pts[j, d] = stripes[d][int(rng.integers(1, len(stripes[d]) - 1))]
    for j in range(k // 3, k // 3 + 3):             # full grid points
        pts[j] = [stripes[d][int(rng.integers(1, len(stripes[d]) - 1))] for d in range(dim)]
    if case["boundary_pts"]:
        for j in range(k - 4, k):
            d = int(rng.integers(0, dim))
            pts[j, d] = float(rng.integers(0, 2))
    return pts


def paths_data(case, stripes, rng):
    dim = len(stripes)
    M = case["M"]
    x = rng.uniform(0.0, 1.0, size=(M, dim))
    if case["data"] in ("snapped", "edge"):
        for j in range(0, max(2, M // 4)):
            d = int(rng.integers(0, dim))
            x[j, d] = stripes[d][int(rng.integers(1, len(stripes[d]) - 1))]
        x[M // 4 + 1] = [stripes[d][int(rng.integers(1, len(stripes[d]) - 1))] for d in range(dim)]
    if case["data"] == "lattice":                   # few distinct sites -> exact duplicates; labels are drawn per copy
        n_sites = max(3, M // 5)
        sites = rng.uniform(0.0, 1.0, size=(n_sites, dim))
        for j in range(0, n_sites, 3):              # some sites are grid points, some lie on one grid line
            sites[j] = [stripes[d][int(rng.integers(1, len(stripes[d]) - 1))] for d in range(dim)]
        for j in range(1, n_sites, 3):
            d = int(rng.integers(0, dim))
            sites[j, d] = stripes[d][int(rng.integers(1, len(stripes[d]) - 1))]
        pick = rng.integers(0, n_sites, size=M)
        pick[0] = pick[1] = 2 if n_sites > 2 else 0
        x = sites[pick]
    if case["data"] == "ties":
        x = add_ties(x, rng, lines=stripes)
    if case["data"] == "edge":                      # what the library's own min-max scaling produces: extremes on 0 and 1
        for d in range(dim):
            x[int(np.argmin(x[:, d])), d] = 0.0
            x[int(np.argmax(x[:, d])), d] = 1.0
    signs = make_signs(rng, M, labels_kind(case))
    return x, signs


def _cmp_paths(out, sub, clause, small, large, ref, tag):
    small, large, ref = (np.asarray(v, dtype=float).reshape(-1) for v in (small, large, ref))
    if small.shape != large.shape or small.shape != ref.shape:
        out.bad("%s/%s/shape-differs" % (sub, clause), "%s shapes %s %s %s" % (tag, small.shape, large.shape, ref.shape))
        return 0.0, 0.0
    dsl = float(np.max(np.abs(small - large)))
    ds = float(np.max(np.abs(small - ref)))
    dl = float(np.max(np.abs(large - ref)))
    if not dsl <= TOL_PATH:
        who = "small-branch-off-reference" if (ds > TOL_PATH >= dl) else "large-branch-off-reference" if (dl > TOL_PATH >= ds) \
            else "both-branches-off-reference"
        i = int(np.argmax(np.abs(small - large)))
        out.bad("%s/%s/%s" % (sub, clause, who), "%s: max|small-large|=%.3e at %d (small %.6e large %.6e reference %.6e)"
                % (tag, dsl, i, small[i], large[i], ref[i]))
    return dsl, max(ds, dl)


def run_paths(case):
    from sparseSpACE.GridOperation import DensityEstimation
    from sparseSpACE.Grid import GlobalTrapezoidalGrid
    from sparseSpACE.ComponentGridInfo import ComponentGridInfo
    out = Outcome()
    sub = "paths"
    rng = np.random.default_rng(case["rng"])
    uniform = case["kind"] == "uniform"
    if uniform:
        lv = tuple(case["levelvec"])
        stripes = [[i / 2.0 ** l for i in range(2 ** l + 1)] for l in lv]
        levels = None
    else:
        stripes, levels = make_stripes(case["splits"])
        lv = tuple(max(l) for l in levels)
    dim = len(stripes)
    bnd = bool(case.get("boundary", False)) and not uniform
    N = int(np.prod([len(s) - (0 if bnd else 2) for s in stripes]))
    data, signs = paths_data(case, stripes, rng)
    pts = paths_points(case, stripes, rng)
    alphas = rng.normal(0, 1, size=N) * (1.0 + 5.0 * (rng.uniform(size=N) < 0.1))
    kw = dict(classes=None if signs is None else signs.copy(), pre_scaled_data=True, lambd=0.01, log_level=Q, print_level=Q)
    if uniform:
        op = DensityEstimation(data.copy(), dim, **kw)
        op.initialize()
        op.grid.numPoints = 2 ** np.asarray(lv, dtype=int) - 1          # as evaluate_levelvec does
        nat, small, large = both_paths(op, "calculate_B")
        with drive.quiet():
            b_nat, b_small, b_large = (np.array(f(op.data, list(lv))) for f in (nat, small, large))
    else:
        op = DensityEstimation(data.copy(), dim, grid=GlobalTrapezoidalGrid(a=np.zeros(dim), b=np.ones(dim), boundary=bnd), **kw)
        op.initialize()
        op.dimension_wise = True                                          # as init_dimension_wise does
        op.max_levels = [0] * dim                                         # as initialize_evaluation_dimension_wise does
        op.grid.set_grid(stripes, levels)
        nat, small, large = both_paths(op, "calculate_B_dimension_wise")
        with drive.quiet():
            b_nat, b_small, b_large = (np.array(f(op.data, stripes, levels)) for f in (nat, small, large))
    if not np.array_equal(b_nat, b_small if N < THRESHOLD else b_large):
        raise HarnessError("forced branch does not reproduce the unmodified right-hand side (N=%d)" % N)
    tag = "%s%s grid %s N=%d" % (case["kind"], " boundary" if bnd else "", [len(s) - (0 if bnd else 2) for s in stripes], N)
    kname = case["kind"] + ("-boundary" if bnd else "")
    d1, r1 = _cmp_paths(out, sub, "rhs-" + kname, b_small, b_large, ref_B(data, signs, stripes, bnd), tag)

    cg = ComponentGridInfo(list(lv), 1)
    op.surpluses[lv] = alphas.copy()
    nat, small, large = both_paths(op, "interpolate_points_component_grid")
    mesh = None if uniform else stripes
    plist = [tuple(float(v) for v in p) for p in pts]
    with drive.quiet():
        i_small = np.array(small(cg, mesh, plist))
        i_large = np.array(large(cg, mesh, plist))
        if not uniform:
            op.grid.set_grid(stripes, levels)
        else:
            op.grid.numPoints = 2 ** np.asarray(lv, dtype=int) - 1
        i_nat = np.array(nat(cg, mesh, plist))
    if not np.array_equal(i_nat, i_small if N < THRESHOLD else i_large):
        raise HarnessError("forced branch does not reproduce the unmodified interpolation (N=%d)" % N)
    d2, r2 = _cmp_paths(out, sub, "interpolation-" + kname, i_small, i_large, ref_interp(alphas, stripes, pts, bnd), tag)
    aniso = len(set(len(s) for s in stripes)) > 1
    nonuni = not uniform and any(len(set(np.round(np.diff(s), 12))) > 1 for s in stripes)
    out.nontrivial = 150 <= N <= 260 and (aniso or nonuni) and case["data"] in ("snapped", "edge", "lattice", "ties")
    ndup, nmixed = mixed_duplicates(data, signs)
    if ndup:
        out.cls("duplicate-sites")
    if nmixed:
        out.cls("duplicate-sites-with-mixed-labels")
    out.cls("kind=%s" % case["kind"], "N>=200" if N >= THRESHOLD else "N<200", "data=%s" % case["data"],
            "labels=%s" % labels_kind(case), "d=%d" % dim)
    if case["boundary_pts"]:
        out.cls("evaluation-points-on-boundary")
    if bnd:
        out.cls("boundary=True", "boundary=True&grid>=200" if N >= THRESHOLD else "boundary=True&grid<200")
    if max(r1, r2) > TOL_PATH and not out.violations:
        out.cls("both-branches-agree-but-off-reference")
    out.info = dict(max_small_vs_large_rhs=d1, max_small_vs_large_interp=d2, max_vs_reference=max(r1, r2), max_N=N)
    return out


UNIFORM_2D = [(4, 4), (3, 5), (5, 3), (2, 6), (6, 2), (1, 7), (7, 1), (1, 8), (3, 4), (2, 7)]
UNIFORM_3D = [(2, 2, 5), (2, 3, 4), (1, 3, 5), (1, 2, 6), (2, 2, 4), (1, 1, 7), (3, 3, 2), (4, 2, 3), (3, 3, 3), (1, 1, 8)]


def paths_strategy(tier):
    @st.composite
    def s(draw):
        dim = draw(st.sampled_from([2, 2, 3]))
        kind = draw(st.sampled_from(["dw", "dw", "uniform"]))
        dkind = draw(st.sampled_from(["snapped", "edge", "inside", "lattice", "lattice", "ties", "ties"]))
        case = dict(kind=kind, M=draw(st.integers(20, 80)), data=dkind,
                    labels=draw(st.sampled_from(["pm1", "ovo", "real", "none"] if dkind == "lattice" else
                                                ["none", "pm1", "pm1", "ovo", "real"])), npts=draw(st.integers(12, 40)), boundary_pts=draw(st.booleans()),
                    rng=draw(st.integers(0, 10 ** 6)))
        if kind == "uniform":
            case["levelvec"] = list(draw(st.sampled_from(UNIFORM_2D if dim == 2 else UNIFORM_3D)))
        else:
            target = draw(st.integers(150, 260))
            bnd = draw(st.sampled_from([False, False, True]))
            case["boundary"] = bnd
            e = 2 if bnd else 0                     # with boundary points the two domain ends count as grid points
            if dim == 2:
                n0 = draw(st.integers(3, 40))
                n = [n0, max(1 + e, round(target / n0))]
            else:
                n0 = draw(st.integers(1 + e, 9))
                n1 = draw(st.integers(2 + e, 12))
                n = [n0, n1, max(1 + e, round(target / (n0 * n1)))]
            n = draw(st.permutations(n))
            case["splits"] = [draw(st.lists(st.integers(0, 63), min_size=k - e - 1, max_size=k - e - 1)) for k in n]
        return case
    return s()


# ------------------------------------------------------------------------------------------------------------
# standard combination technique: reuse on vs off (the uniform-grid calculate_B has a reuse branch of its own)
# ------------------------------------------------------------------------------------------------------------
def run_standard(case):
    from sparseSpACE.StandardCombi import StandardCombi
    from sparseSpACE.GridOperation import DensityEstimation
    out = Outcome()
    sub = "standard"
    data, pre_scaled, signs, pts = make_data(case)
    dim = case["dim"]
    res = {}
    for reuse in (False, True):
        op = DensityEstimation(data.copy(), dim, masslumping=case["masslumping"], lambd=case["lambd"],
                               classes=None if signs is None else signs.copy(), reuse_old_values=reuse,
                               pre_scaled_data=pre_scaled, log_level=Q, print_level=Q)
        keys = []
        o_find = op.find_closest_old_B

        def w_find(stripes, o_find=o_find, keys=keys):
            key = o_find(stripes)
            keys.append(key)
            return key
        op.find_closest_old_B = w_find
        combi = StandardCombi(np.zeros(dim), np.ones(dim), operation=op, print_level=Q, log_level=Q)
        snaps = []
        for lmin, lmax in case["levels"]:               # the same object may be asked for several schemes in a row
            with drive.quiet():
                combi.perform_operation(lmin, lmax)
                dens = np.array(combi(pts), dtype=float).reshape(-1)
            snaps.append(dict(scheme=sorted((tuple(int(x) for x in cg.levelvector), cg.coefficient) for cg in combi.scheme),
                              sur={tuple(int(x) for x in cg.levelvector): np.array(op.surpluses[tuple(cg.levelvector)], dtype=float)
                                   for cg in combi.scheme}, dens=dens))
        res[reuse] = (snaps, keys)
    entered = any(k is not None for k in res[True][1])
    maxN = 0
    for k, (x, y) in enumerate(zip(res[False][0], res[True][0])):
        tag = "scheme %d %s" % (k, case["levels"][k])
        if x["scheme"] != y["scheme"]:
            out.bad(sub + "/scheme/differs", tag)
            break
        for lv in x["sur"]:
            maxN = max(maxN, len(x["sur"][lv]))
            dS = float(np.max(np.abs(x["sur"][lv] - y["sur"][lv])))
            if not dS <= TOL_S * float(np.max(np.abs(x["sur"][lv]))):
                out.bad(sub + "/surpluses/reuse-differs" + ("-old-rhs-copied" if entered else ""),
                        "%s grid %s N=%d: max diff %.3e" % (tag, lv, len(x["sur"][lv]), dS))
                break
        dD = float(np.max(np.abs(x["dens"] - y["dens"])))
        if not out.violations and not dD <= TOL_S * max(1.0, float(np.max(np.abs(x["dens"])))):
            out.bad(sub + "/density/reuse-differs", "%s max diff %.3e" % (tag, dD))
    out.nontrivial = len(res[True][1]) > 0 and maxN >= THRESHOLD and len(case["levels"]) >= 2
    out.cls("labels=%s" % labels_kind(case), "schemes=%d" % len(case["levels"]), "data=%s" % case["data"])
    if res[True][1]:
        out.cls("old-rhs-looked-up")
    if entered:
        out.cls("uniform-reuse-branch-entered")
    if signs is not None and np.any(np.abs(np.abs(signs) - 1.0) > 0):
        out.cls("labels!=+-1")
    out.info = dict(max_N=maxN, lookups=len(res[True][1]))
    return out


def standard_strategy(tier):
    @st.composite
    def s(draw):
        dim = 2 if tier == "quick" else draw(st.sampled_from([2, 2, 3]))
        n = draw(st.integers(1, 3))
        if dim == 2:
            choices = [(1, 3), (2, 4), (3, 5), (3, 5), (2, 5), (3, 4)]
        else:
            choices = [(1, 2), (1, 3), (2, 3), (1, 4), (2, 4)]
        levels = [list(draw(st.sampled_from(choices))) for _ in range(n)]
        big = any(l[1] >= 5 for l in levels) or dim == 3      # the full uniform R matrix costs ~7 s beyond 200 points
        return dict(dim=dim, levels=levels, M=draw(st.integers(20, 80)),
                    data=draw(st.sampled_from(["uniform", "clustered", "snapped", "minmax", "lattice"])),
                    labels=draw(st.sampled_from(["none", "pm1", "ovo", "ovo", "real", "real"])),
                    lambd=draw(st.sampled_from([0.01, 0.0, 0.1])),
                    masslumping=True if big else draw(st.sampled_from([True, False, False])),
                    rng=draw(st.integers(0, 10 ** 6)))
    return s()


# ------------------------------------------------------------------------------------------------------------
def selftest():
    # reference hats: closed forms on the stripe {0, 1/4, 1/2, 1}
    H = ref_hat_matrix([0.0, 0.25, 0.5, 1.0], [0.125, 0.25, 0.375, 0.75, 1.0, 0.0])
    want = np.array([[0.5, 0.0], [1.0, 0.0], [0.5, 0.5], [0.0, 0.5], [0.0, 0.0], [0.0, 0.0]])
    assert np.allclose(H, want, atol=1e-15), H
    # B of two samples on a 1x1-interior-point grid in 2D: hats centred at 1/2
    b = ref_B([[0.5, 0.5], [0.25, 0.75]], None, [[0, 0.5, 1], [0, 0.5, 1]])
    assert np.allclose(b, [(1.0 + 0.25) / 2]), b
    b = ref_B([[0.5, 0.5], [0.25, 0.75]], [1.0, -1.0], [[0, 0.5, 1], [0, 0.5, 1]])
    assert np.allclose(b, [(1.0 - 0.25) / 2]), b
    v = ref_interp([2.0, 4.0], [[0, 0.5, 1], [0, 0.25, 0.5, 1]], [[0.5, 0.25], [0.5, 0.375], [0.25, 0.75]])
    assert np.allclose(v, [2.0, 3.0, 1.0]), v
    s, l = make_stripes([[0, 0, 3]])
    assert s == [[0.0, 0.125, 0.25, 0.5, 0.75, 1.0]] and l == [[0, 3, 2, 1, 2, 0]], (s, l)
    # the threshold patch must select the branch and leave the library function untouched
    from sparseSpACE.GridOperation import DensityEstimation
    f = DensityEstimation.__dict__["calculate_B_dimension_wise"]
    g = force_threshold(f, 0)
    assert THRESHOLD in f.__code__.co_consts and THRESHOLD not in g.__code__.co_consts
    # a small paths case passes; a branch comparison with a corrupted vector is rejected
    o = run_paths(dict(kind="dw", M=25, data="snapped", classes=True, npts=15, boundary_pts=True, rng=3,
                       splits=[[0, 1, 2, 3, 4, 5, 6, 7, 8, 9, 10, 11], [0, 2, 4, 6, 8, 10, 12, 14, 16, 18, 20, 22, 24, 26]]))
    assert not o.violations, o.violations
    o2 = Outcome()
    _cmp_paths(o2, "t", "rhs", [1.0, 2.0], [1.0, 2.0 + 1e-8], [1.0, 2.0], "corrupted")
    assert [s for s, _ in o2.violations] == ["t/rhs/large-branch-off-reference"], o2.violations
    # twin comparison: identical records pass, a perturbed surplus / right-hand side is rejected
    case = dict(dim=2, lmin=2, lmax=3, M=20, data="uniform", classes=False, lambd=0.01, masslumping=False, rebalancing=False,
                margin=0.5, safety=0.1, maxsteps=1, budget=10 ** 6, tape=[0], mode=4, rng=1)
    ra, _ = run_single(case, False)
    rb, opb = run_single(case, True)
    o3 = Outcome()
    compare_twin(o3, "t", ra, rb, opb)
    assert not o3.violations and len(ra) == 2, (o3.violations, len(ra))

    def corrupt(k, op, lvs):
        if k == 1:
            op.surpluses[lvs[0]] = op.surpluses[lvs[0]] * (1 + 1e-4)
    rc, opc = run_single(case, True, corrupt=corrupt)
    o4 = Outcome()
    compare_twin(o4, "t", ra, rc, opc)
    assert [s for s, _ in o4.violations] == ["t/surpluses/differ-with-equal-system"], o4.violations
    lv = sorted(rb[1]["grids"])[0]
    rb[1]["grids"][lv]["B"][0] += 1e-6
    o5 = Outcome()
    compare_twin(o5, "t", ra, rb, opb)
    assert [s for s, _ in o5.violations] == ["t/rhs/reuse-differs-without-copy"], o5.violations


SUBS = [
    Sub("twin", twin_strategy, run_twin, dict(quick=160, thorough=1600), case_timeout=300,
        budget_s=dict(quick=45, thorough=560), fixed_cases=twin_fixed),
    Sub("paths", paths_strategy, run_paths, dict(quick=480, thorough=6000), budget_s=dict(quick=15, thorough=120)),
    Sub("standard", standard_strategy, run_standard, dict(quick=64, thorough=1200), budget_s=dict(quick=8, thorough=90)),
]
